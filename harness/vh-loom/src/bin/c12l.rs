//! C12, schedule part (DESIGN 3/C12 "Schedules (E4)"): loom over the re-bound real `monotonic_counter.rs`.
//! Every body: 2-3 loom threads, 1-2 operations each, on one fresh `MonotonicCounterSystem`.
//! Oracle (reference = per-peer high-water mark + accepted list, operations atomic): the observed tuple
//! (per-thread results, final counters) must be produced by SOME interleaving of the threads' operations on the
//! reference (`sched-atomic`), and each (peer, sequence) is reported Valid at most once (`sched-once`).
use std::collections::{BTreeMap, BTreeSet};
use vh_loom::drive::*;
use vh_loom::monotonic_counter::{BatchUpdateRequest, MonotonicCounterSystem, SequenceValidationResult};
use vh_loom::peer_record::UserId;

#[derive(Clone, Debug)]
enum Op {
    /// validate_sequence(peer, seq, hash)
    V(u8, u64, u8),
    /// batch_update([(peer, seq, hash)...]) with timestamp = now
    B(Vec<(u8, u64, u8)>),
    /// get_peer_counter(peer)
    R(u8),
}

fn uid(p: u8) -> UserId {
    UserId::from_bytes([p; 32])
}
fn hash(h: u8) -> [u8; 32] {
    [h; 32]
}
fn now() -> u64 {
    std::time::SystemTime::now().duration_since(std::time::UNIX_EPOCH).map(|d| d.as_secs()).unwrap_or(0)
}

fn res_str(r: &SequenceValidationResult) -> String {
    match r {
        SequenceValidationResult::Valid => "Valid".into(),
        SequenceValidationResult::Replay => "Replay".into(),
        SequenceValidationResult::TooOld => "TooOld".into(),
        SequenceValidationResult::FromFuture => "FromFuture".into(),
        SequenceValidationResult::Gap { expected, received } => format!("Gap({expected},{received})"),
    }
}

// ---- reference: per peer (last, accepted (seq,hash) list); None = no entry yet
#[derive(Clone, Default)]
struct Ref {
    peers: BTreeMap<u8, (u64, Vec<(u64, u8)>)>,
}
impl Ref {
    fn submit(&mut self, p: u8, s: u64, h: u8) -> String {
        let e = self.peers.entry(p).or_default();
        if s == e.0 + 1 {
            e.0 = s;
            e.1.push((s, h));
            "Valid".into()
        } else if s <= e.0 {
            "Replay".into()
        } else {
            format!("Gap({},{})", e.0 + 1, s)
        }
    }
    fn apply(&mut self, op: &Op) -> String {
        match op {
            Op::V(p, s, h) => self.submit(*p, *s, *h),
            Op::B(reqs) => {
                let v: Vec<String> = reqs.iter().map(|(p, s, h)| self.submit(*p, *s, *h)).collect();
                format!("[{}]", v.join(","))
            }
            Op::R(p) => match self.peers.get(p) {
                None => "none".into(),
                Some((l, hist)) => format!("last={l}/{}", hist.len()),
            },
        }
    }
    fn final_str(&self) -> String {
        [1u8, 2]
            .iter()
            .map(|p| match self.peers.get(p) {
                None => format!("p{p}:none"),
                Some((l, hist)) => format!("p{p}:last={l},hist={:?}", hist),
            })
            .collect::<Vec<_>>()
            .join(" ")
    }
}

fn outcome_str(results: &[Vec<String>], fin: &str) -> String {
    let t: Vec<String> = results.iter().enumerate().map(|(i, r)| format!("t{i}:{}", r.join(";"))).collect();
    format!("{} | {}", t.join(" "), fin)
}

/// All outcomes of all interleavings (program order kept) of atomic operations on the reference.
fn expected(threads: &[Vec<Op>]) -> BTreeSet<String> {
    fn go(threads: &[Vec<Op>], pos: &mut Vec<usize>, r: &Ref, results: &mut Vec<Vec<String>>, out: &mut BTreeSet<String>) {
        let mut any = false;
        for t in 0..threads.len() {
            if pos[t] < threads[t].len() {
                any = true;
                let mut r2 = r.clone();
                let s = r2.apply(&threads[t][pos[t]]);
                results[t].push(s);
                pos[t] += 1;
                go(threads, pos, &r2, results, out);
                pos[t] -= 1;
                results[t].pop();
            }
        }
        if !any {
            out.insert(outcome_str(results, &r.final_str()));
        }
    }
    let mut out = BTreeSet::new();
    go(threads, &mut vec![0; threads.len()], &Ref::default(), &mut vec![Vec::new(); threads.len()], &mut out);
    out
}

fn bodies() -> Vec<(BodyInfo, Vec<Vec<Op>>)> {
    use Op::*;
    let b = |name: &'static str, t: Vec<Vec<Op>>| {
        let mut kinds = Vec::new();
        for (k, pat) in [("validate_sequence", "V("), ("batch_update", "B("), ("get_peer_counter", "R(")] {
            if format!("{t:?}").contains(pat) {
                kinds.push(k);
            }
        }
        (BodyInfo { name, threads: t.len(), ops: format!("{t:?}"), kinds: kinds.join("+") }, t)
    };
    vec![
        b("same_2", vec![vec![V(1, 1, 1)], vec![V(1, 1, 1)]]),
        b("same_3", vec![vec![V(1, 1, 1)], vec![V(1, 1, 1)], vec![V(1, 1, 1)]]),
        b("same_otherhash_2", vec![vec![V(1, 1, 1)], vec![V(1, 1, 2)]]),
        b("batchdup_vs_validate_2", vec![vec![B(vec![(1, 1, 1), (1, 1, 1)])], vec![V(1, 1, 1)]]),
        b("batchdup_vs_validate_3", vec![vec![B(vec![(1, 1, 1), (1, 1, 1)])], vec![V(1, 1, 1)], vec![V(1, 1, 2)]]),
        b("batch_vs_batch_2", vec![vec![B(vec![(1, 1, 1), (1, 2, 1)])], vec![B(vec![(1, 2, 1), (1, 1, 1)])]]),
        b("seq1_seq2_2", vec![vec![V(1, 1, 1)], vec![V(1, 2, 1)]]),
        b("seq1_seq2_seq1_3", vec![vec![V(1, 1, 1)], vec![V(1, 2, 1)], vec![V(1, 1, 1)]]),
        b("peers_2", vec![vec![V(1, 1, 1)], vec![V(2, 1, 1)]]),
        b("peers_3", vec![vec![V(1, 1, 1)], vec![V(2, 1, 1)], vec![V(1, 1, 1)]]),
        b("twoops_2", vec![vec![V(1, 1, 1), V(1, 2, 1)], vec![V(1, 1, 1), V(1, 2, 1)]]),
        b("twoops_3", vec![vec![V(1, 1, 1), V(1, 2, 1)], vec![V(1, 2, 1), V(1, 1, 1)], vec![V(2, 1, 1), V(1, 1, 2)]]),
        b("reader_3", vec![vec![V(1, 1, 1)], vec![V(1, 1, 2)], vec![R(1), R(1)]]),
    ]
}

fn run_op(sys: &MonotonicCounterSystem, op: &Op) -> String {
    match op {
        Op::V(p, s, h) => match block_on(sys.validate_sequence(&uid(*p), *s, hash(*h))) {
            Ok(r) => res_str(&r),
            Err(e) => format!("Err({e})"),
        },
        Op::B(reqs) => {
            let ts = now();
            let reqs: Vec<BatchUpdateRequest> =
                reqs.iter().map(|(p, s, h)| BatchUpdateRequest { user_id: uid(*p), sequence: *s, message_hash: hash(*h), timestamp: ts }).collect();
            match block_on(sys.batch_update(reqs)) {
                Ok(rs) => format!("[{}]", rs.iter().map(|r| res_str(&r.result)).collect::<Vec<_>>().join(",")),
                Err(e) => format!("Err({e})"),
            }
        }
        Op::R(p) => match block_on(sys.get_peer_counter(&uid(*p))) {
            None => "none".into(),
            Some(c) => format!("last={}/{}", c.last_valid_sequence, c.sequence_history.len()),
        },
    }
}

fn main() {
    let all = bodies();
    match parse_args() {
        Cmd::List => print_list(&all.iter().map(|(i, _)| BodyInfo { name: i.name, threads: i.threads, ops: i.ops.clone(), kinds: i.kinds.clone() }).collect::<Vec<_>>()),
        Cmd::Run { body, opts } => {
            let Some((info, threads)) = all.into_iter().find(|(i, _)| i.name == body) else {
                eprintln!("unknown body {body}");
                std::process::exit(2)
            };
            let exp = expected(&threads);
            let dir = std::path::PathBuf::from(format!("/dev/shm/vh-c12l-{}", std::process::id()));
            let path = dir.join("counters.bin");
            // tokio runtime only for construction (`new` goes through tokio::fs); std-backed, shared by all iterations
            let rt = std::sync::Arc::new(tokio::runtime::Builder::new_current_thread().build().expect("runtime"));
            let threads2 = threads.clone();
            let code = explore(info.name, &opts, exp, move || {
                let sys = rt.block_on(MonotonicCounterSystem::new(path.clone())).expect("MonotonicCounterSystem::new");
                let sys = loom::sync::Arc::new(sys);
                let mut hs = Vec::new();
                for ops in threads2.iter().cloned() {
                    let sys = sys.clone();
                    hs.push(loom::thread::spawn(move || ops.iter().map(|op| run_op(&sys, op)).collect::<Vec<String>>()));
                }
                let results: Vec<Vec<String>> = hs.into_iter().map(|h| h.join().expect("loom thread")).collect();
                let fin = [1u8, 2]
                    .iter()
                    .map(|p| match block_on(sys.get_peer_counter(&uid(*p))) {
                        None => format!("p{p}:none"),
                        Some(c) => format!(
                            "p{p}:last={},hist={:?}",
                            c.last_valid_sequence,
                            c.sequence_history.iter().map(|e| (e.sequence, e.message_hash[0])).collect::<Vec<_>>()
                        ),
                    })
                    .collect::<Vec<_>>()
                    .join(" ");
                // sched-once: each (peer, seq) Valid at most once over all submissions
                let mut valid: BTreeMap<(u8, u64), u32> = BTreeMap::new();
                for (t, ops) in threads2.iter().enumerate() {
                    for (k, op) in ops.iter().enumerate() {
                        let r = &results[t][k];
                        match op {
                            Op::V(p, s, _) => {
                                if r == "Valid" {
                                    *valid.entry((*p, *s)).or_insert(0) += 1;
                                }
                            }
                            Op::B(reqs) => {
                                let parts: Vec<&str> = r.trim_matches(|c| c == '[' || c == ']').split(',').collect();
                                for (j, (p, s, _)) in reqs.iter().enumerate() {
                                    if parts.get(j) == Some(&"Valid") {
                                        *valid.entry((*p, *s)).or_insert(0) += 1;
                                    }
                                }
                            }
                            Op::R(_) => {}
                        }
                    }
                }
                let outcome = outcome_str(&results, &fin);
                let bad = valid
                    .iter()
                    .find(|(_, n)| **n > 1)
                    .map(|((p, s), n)| ("sched-once".to_string(), format!("(peer {p}, sequence {s}) was reported Valid {n} times")));
                (outcome, bad)
            });
            let _ = std::fs::remove_dir_all(&dir);
            std::process::exit(code);
        }
    }
}
