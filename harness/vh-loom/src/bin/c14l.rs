//! C14, schedule part (DESIGN 3/C14 "Schedules (E4)"): loom over the re-bound real `rate_limit.rs`.
//! Bodies: 2-3 loom threads x 1-2 `JoinRateLimiter::check_join_allowed` (shared /64, shared /48, shared /24,
//! shared global budget) and `Engine::try_consume_global` / `try_consume_key` directly; after the threads
//! have joined, the main thread probes every address of the body once more (reveals lost or duplicated tokens).
//! Oracle: reference = one (tokens, window count) pair per bucket with zero refill (windows are 1 h / 1 min, a
//! schedule runs for microseconds); each *bucket consumption* is atomic, `check_join_allowed` is the documented
//! sequence global -> /64 -> /48 (or /24) stopping at the first refusal. The observed tuple (per-thread results,
//! probe results) must be produced by SOME interleaving of those atomic consumptions (`sched-atomic`); and Ok
//! answers per prefix never exceed the configured cap (`sched-cap`).
use std::collections::{BTreeMap, BTreeSet};
use std::net::IpAddr;
use std::time::Duration;
use vh_loom::drive::*;
use vh_loom::rate_limit::{Engine, EngineConfig, JoinRateLimitError, JoinRateLimiter, JoinRateLimiterConfig};

#[derive(Clone, Copy, Debug)]
struct Cfg {
    c64: u32,
    c48: u32,
    c24: u32,
    gmax: u32,
    gburst: u32,
}
const DEFAULT: Cfg = Cfg { c64: 1, c48: 5, c24: 3, gmax: 100, gburst: 10 };

// addresses: 0,1 share a /64; 2 is in the same /48, other /64; 3 foreign v6; 4,5 share a /24; 6 foreign v4
const ADDRS: [&str; 7] = ["2001:db8:1:1::1", "2001:db8:1:1::2", "2001:db8:1:2::1", "2001:dead:1:1::1", "10.1.1.1", "10.1.1.2", "172.16.9.1"];
fn k64(a: usize) -> u8 {
    [0, 0, 1, 2, 0, 0, 0][a]
}
fn k48(a: usize) -> u8 {
    [0, 0, 0, 1, 0, 0, 0][a]
}
fn k24(a: usize) -> u8 {
    [0, 0, 0, 0, 0, 0, 1][a]
}
fn is_v6(a: usize) -> bool {
    a < 4
}

#[derive(Clone, Debug)]
enum Op {
    /// JoinRateLimiter::check_join_allowed(ADDRS[i])
    J(usize),
    /// Engine::try_consume_global()
    G,
    /// Engine::try_consume_key(k)
    K(u8),
}

#[derive(Clone, Copy)]
struct Bucket {
    tokens: u32,
    count: u32,
    max: u32,
}
impl Bucket {
    fn new(burst: u32, max: u32) -> Self {
        Bucket { tokens: burst, count: 0, max }
    }
    fn take(&mut self) -> bool {
        if self.tokens >= 1 && self.count < self.max {
            self.tokens -= 1;
            self.count += 1;
            true
        } else {
            false
        }
    }
}

/// Reference buckets, keyed by (level, key): level 0 global, 64, 48, 24; 1 = Engine.global; 2 = Engine.keyed
#[derive(Clone)]
struct Ref {
    cfg: Cfg,
    b: BTreeMap<(u8, u8), Bucket>,
}
impl Ref {
    fn new(cfg: Cfg) -> Self {
        Ref { cfg, b: BTreeMap::new() }
    }
    fn take(&mut self, level: u8, key: u8) -> bool {
        let c = self.cfg;
        let (burst, max) = match level {
            0 => (c.gburst, c.gmax),
            64 => (c.c64, c.c64),
            48 => (c.c48, c.c48),
            24 => (c.c24, c.c24),
            _ => (c.gburst, c.gmax), // Engine bodies: burst = gburst, max = gmax for both global and keyed
        };
        self.b.entry((level, key)).or_insert_with(|| Bucket::new(burst, max)).take()
    }
}

/// The atomic consumptions an operation performs, in order, with the answer given if that one refuses.
fn stages(op: &Op) -> Vec<((u8, u8), &'static str)> {
    match op {
        Op::J(a) if is_v6(*a) => vec![((0, 0), "Global"), ((64, k64(*a)), "S64"), ((48, k48(*a)), "S48")],
        Op::J(a) => vec![((0, 0), "Global"), ((24, k24(*a)), "S24")],
        Op::G => vec![((1, 0), "false")],
        Op::K(k) => vec![((2, *k), "false")],
    }
}
fn ok_str(op: &Op) -> &'static str {
    match op {
        Op::J(_) => "Ok",
        _ => "true",
    }
}

fn outcome_str(results: &[Vec<String>], probes: &[String]) -> String {
    let t: Vec<String> = results.iter().enumerate().map(|(i, r)| format!("t{i}:{}", r.join(";"))).collect();
    format!("{} | probe:{}", t.join(" "), probes.join(";"))
}

fn seq_apply(r: &mut Ref, op: &Op) -> String {
    for ((l, k), refusal) in stages(op) {
        if !r.take(l, k) {
            return refusal.to_string();
        }
    }
    ok_str(op).to_string()
}

fn expected(cfg: Cfg, threads: &[Vec<Op>], probes: &[Op]) -> BTreeSet<String> {
    // per thread: (op index, stage index)
    fn go(threads: &[Vec<Op>], probes: &[Op], pos: &mut Vec<(usize, usize)>, r: &Ref, results: &mut Vec<Vec<String>>, out: &mut BTreeSet<String>) {
        let mut any = false;
        for t in 0..threads.len() {
            let (oi, si) = pos[t];
            if oi >= threads[t].len() {
                continue;
            }
            any = true;
            let op = &threads[t][oi];
            let st = stages(op);
            let ((l, k), refusal) = st[si];
            let mut r2 = r.clone();
            let saved = pos[t];
            let pushed;
            if !r2.take(l, k) {
                results[t].push(refusal.to_string());
                pushed = true;
                pos[t] = (oi + 1, 0);
            } else if si + 1 == st.len() {
                results[t].push(ok_str(op).to_string());
                pushed = true;
                pos[t] = (oi + 1, 0);
            } else {
                pushed = false;
                pos[t] = (oi, si + 1);
            }
            go(threads, probes, pos, &r2, results, out);
            pos[t] = saved;
            if pushed {
                results[t].pop();
            }
        }
        if !any {
            let mut r2 = r.clone();
            let p: Vec<String> = probes.iter().map(|op| seq_apply(&mut r2, op)).collect();
            out.insert(outcome_str(results, &p));
        }
    }
    let mut out = BTreeSet::new();
    go(threads, probes, &mut vec![(0, 0); threads.len()], &Ref::new(cfg), &mut vec![Vec::new(); threads.len()], &mut out);
    out
}

struct Body {
    info: BodyInfo,
    cfg: Cfg,
    threads: Vec<Vec<Op>>,
    probes: Vec<Op>,
}

fn bodies() -> Vec<Body> {
    use Op::*;
    let b = |name: &'static str, cfg: Cfg, t: Vec<Vec<Op>>, probes: Vec<Op>| Body {
        info: BodyInfo {
            name,
            threads: t.len(),
            ops: format!("cfg={cfg:?} threads={t:?} probes={probes:?}"),
            kinds: if t.iter().flatten().any(|o| matches!(o, Op::J(_))) { "JoinRateLimiter::check_join_allowed".into() } else { "rate_limit::Engine::try_consume_*".into() },
        },
        cfg,
        threads: t,
        probes,
    };
    let c = |c64, c48| Cfg { c64, c48, ..DEFAULT };
    vec![
        b("same64_cap1_3x1", c(1, 5), vec![vec![J(0)], vec![J(1)], vec![J(0)]], vec![J(1)]),
        b("same64_cap2_3x1", c(2, 5), vec![vec![J(0)], vec![J(1)], vec![J(0)]], vec![J(1)]),
        b("same64_cap1_2x2", c(1, 5), vec![vec![J(0), J(1)], vec![J(1), J(0)]], vec![J(0)]),
        b("same64_cap2_2x2", c(2, 5), vec![vec![J(0), J(1)], vec![J(1), J(0)]], vec![J(0)]),
        b("same64_cap2_3x2", c(2, 5), vec![vec![J(0), J(1)], vec![J(1), J(0)], vec![J(0), J(0)]], vec![J(1)]),
        b("distinct64_same48_cap1_2", c(1, 1), vec![vec![J(0)], vec![J(2)]], vec![J(2), J(3)]),
        b("distinct64_same48_default_2", DEFAULT, vec![vec![J(0)], vec![J(2)]], vec![J(0), J(2), J(3)]),
        b("distinct64_same48_cap2_3", c(1, 2), vec![vec![J(0)], vec![J(2)], vec![J(1)]], vec![J(2), J(3)]),
        b("same24_cap1_2", Cfg { c24: 1, ..DEFAULT }, vec![vec![J(4)], vec![J(5)]], vec![J(4), J(6)]),
        b("same24_cap3_3x2", DEFAULT, vec![vec![J(4), J(5)], vec![J(5), J(4)], vec![J(4), J(6)]], vec![J(5), J(6)]),
        b("global_burst1_2", Cfg { gburst: 1, ..DEFAULT }, vec![vec![J(0)], vec![J(3)]], vec![J(6)]),
        b("global_burst2_v4v6_3", Cfg { gburst: 2, ..DEFAULT }, vec![vec![J(0)], vec![J(4)], vec![J(3)]], vec![J(6)]),
        b("engine_global_burst1_2", Cfg { gburst: 1, gmax: 5, ..DEFAULT }, vec![vec![G], vec![G]], vec![G]),
        b("engine_global_max2_burst3_3", Cfg { gburst: 3, gmax: 2, ..DEFAULT }, vec![vec![G], vec![G], vec![G]], vec![G]),
        b("engine_key_burst1_3", Cfg { gburst: 1, gmax: 5, ..DEFAULT }, vec![vec![K(7)], vec![K(7)], vec![K(8)]], vec![K(7), K(8)]),
        b("engine_global_and_key_2x2", Cfg { gburst: 2, gmax: 5, ..DEFAULT }, vec![vec![G, K(7)], vec![G, K(7)]], vec![G, K(7)]),
    ]
}

struct Subject {
    join: Option<JoinRateLimiter>,
    engine: Option<Engine<u8>>,
}

fn run_op(s: &Subject, op: &Op) -> String {
    match op {
        Op::J(a) => {
            let ip: IpAddr = ADDRS[*a].parse().expect("addr");
            match s.join.as_ref().expect("join limiter").check_join_allowed(&ip) {
                Ok(()) => "Ok".into(),
                Err(JoinRateLimitError::GlobalLimitExceeded { .. }) => "Global".into(),
                Err(JoinRateLimitError::Subnet64LimitExceeded { .. }) => "S64".into(),
                Err(JoinRateLimitError::Subnet48LimitExceeded { .. }) => "S48".into(),
                Err(JoinRateLimitError::Subnet24LimitExceeded { .. }) => "S24".into(),
            }
        }
        Op::G => s.engine.as_ref().expect("engine").try_consume_global().to_string(),
        Op::K(k) => s.engine.as_ref().expect("engine").try_consume_key(k).to_string(),
    }
}

fn main() {
    let all = bodies();
    match parse_args() {
        Cmd::List => print_list(&all.iter().map(|b| BodyInfo { name: b.info.name, threads: b.info.threads, ops: b.info.ops.clone(), kinds: b.info.kinds.clone() }).collect::<Vec<_>>()),
        Cmd::Run { body, opts } => {
            let Some(b) = all.into_iter().find(|b| b.info.name == body) else {
                eprintln!("unknown body {body}");
                std::process::exit(2)
            };
            let exp = expected(b.cfg, &b.threads, &b.probes);
            let (cfg, threads, probes) = (b.cfg, b.threads.clone(), b.probes.clone());
            let uses_engine = threads.iter().flatten().any(|o| !matches!(o, Op::J(_)));
            let code = explore(b.info.name, &opts, exp, move || {
                let subject = if uses_engine {
                    Subject {
                        join: None,
                        engine: Some(Engine::new(EngineConfig { window: Duration::from_secs(3600), max_requests: cfg.gmax, burst_size: cfg.gburst })),
                    }
                } else {
                    Subject {
                        join: Some(JoinRateLimiter::new(JoinRateLimiterConfig {
                            max_joins_per_64_per_hour: cfg.c64,
                            max_joins_per_48_per_hour: cfg.c48,
                            max_joins_per_24_per_hour: cfg.c24,
                            max_global_joins_per_minute: cfg.gmax,
                            global_burst_size: cfg.gburst,
                        })),
                        engine: None,
                    }
                };
                let subject = loom::sync::Arc::new(subject);
                let mut hs = Vec::new();
                for ops in threads.iter().cloned() {
                    let s = subject.clone();
                    hs.push(loom::thread::spawn(move || ops.iter().map(|op| run_op(&s, op)).collect::<Vec<String>>()));
                }
                let results: Vec<Vec<String>> = hs.into_iter().map(|h| h.join().expect("loom thread")).collect();
                let p: Vec<String> = probes.iter().map(|op| run_op(&subject, op)).collect();
                // sched-cap: Ok answers per prefix (threads + probes) never exceed the cap; true answers per engine bucket <= min(burst, max)
                let mut ok: BTreeMap<(u8, u8), u32> = BTreeMap::new();
                let all_ops = threads.iter().flatten().chain(probes.iter());
                let all_res = results.iter().flatten().chain(p.iter());
                for (op, r) in all_ops.zip(all_res) {
                    if r == "Ok" || r == "true" {
                        for ((l, k), _) in stages(op) {
                            *ok.entry((l, k)).or_insert(0) += 1;
                        }
                    }
                }
                let cap = |l: u8| match l {
                    0 => cfg.gburst.min(cfg.gmax),
                    64 => cfg.c64,
                    48 => cfg.c48,
                    24 => cfg.c24,
                    _ => cfg.gburst.min(cfg.gmax),
                };
                let bad = ok
                    .iter()
                    .find(|((l, _), n)| **n > cap(*l))
                    .map(|((l, k), n)| ("sched-cap".to_string(), format!("{n} admissions charged to bucket (level {l}, key {k}) whose cap is {}", cap(*l))));
                (outcome_str(&results, &p), bad)
            });
            std::process::exit(code);
        }
    }
}
