//! Driver shared by the loom binaries: a runtime-free `block_on`, the exploration loop with outcome
//! recording, and the one-line machine-readable report consumed by `vh/src/bin/c12.rs` / `c14.rs`.
//!
//! Protocol (`<exe> list` / `<exe> run <body> --preemptions <n|unbounded> [--max-secs <s>]`):
//!   list -> one line per body: `BODY {"name":..,"threads":..,"ops":..,"kinds":..}`
//!   run  -> exactly one line  `LOOM {json}` with body, preemption_bound, iterations, complete, outcomes (map
//!           outcome -> count), expected (all outcomes the reference allows), unseen (expected but never observed),
//!           verdict ("ok"|"violated"), violations (first few: iteration number in loom's deterministic DFS order,
//!           clause, outcome, why); exit 0 ok / 1 violated / 2 usage. A loom panic (deadlock, leaked object,
//!           panic in the subject) kills the process with its message on stderr; the parent reports that as
//!           `sched-abort`.
use serde_json::json;
use std::collections::{BTreeMap, BTreeSet};
use std::future::Future;
use std::sync::{Arc, Mutex};
use std::task::{Context, Poll, Waker};
use std::time::{Duration, Instant};

/// Poll a future to completion on the current loom thread. The only `Pending` the subject can produce here is
/// a contended `tokio::sync::Mutex` (statistics); yielding lets loom run the holder.
pub fn block_on<F: Future>(f: F) -> F::Output {
    let mut f = std::pin::pin!(f);
    let mut cx = Context::from_waker(Waker::noop());
    loop {
        match f.as_mut().poll(&mut cx) {
            Poll::Ready(v) => return v,
            Poll::Pending => loom::thread::yield_now(),
        }
    }
}

pub struct BodyInfo {
    pub name: &'static str,
    pub threads: usize,
    pub ops: String,
    /// entry points exercised concurrently (coarse; becomes the violation signature's `ops` feature)
    pub kinds: String,
}

#[derive(Default)]
struct Rec {
    iterations: u64,
    outcomes: BTreeMap<String, u64>,
    violations: Vec<serde_json::Value>,
    violation_count: u64,
}

pub struct Opts {
    pub preemptions: Option<usize>,
    pub max_secs: u64,
}

/// One iteration's verdict: the canonical outcome string and, if an oracle clause failed, (clause, why).
pub type IterResult = (String, Option<(String, String)>);

/// Explore all schedules of `body` within the bound; print the `LOOM` line; return the exit code.
pub fn explore(name: &str, opts: &Opts, expected: BTreeSet<String>, body: impl Fn() -> IterResult + Send + Sync + 'static) -> i32 {
    let rec: Arc<Mutex<Rec>> = Arc::new(Mutex::new(Rec::default()));
    let rec2 = rec.clone();
    let expected2 = expected.clone();
    let mut b = loom::model::Builder::new();
    b.preemption_bound = opts.preemptions;
    b.max_duration = Some(Duration::from_secs(opts.max_secs));
    b.checkpoint_interval = 100; // max_duration is only looked at every checkpoint_interval iterations
    b.max_branches = 20_000;
    let start = Instant::now();
    b.check(move || {
        let (outcome, bad) = body();
        let mut r = rec2.lock().unwrap();
        r.iterations += 1;
        let it = r.iterations;
        let bad = bad.or_else(|| {
            if expected2.contains(&outcome) {
                None
            } else {
                Some(("sched-atomic".to_string(), "outcome is not produced by any interleaving of atomic operations on the reference".to_string()))
            }
        });
        if let Some((clause, why)) = bad {
            r.violation_count += 1;
            if r.violations.len() < 5 {
                r.violations.push(json!({"iteration": it, "clause": clause, "outcome": outcome, "why": why}));
            }
        }
        *r.outcomes.entry(outcome).or_insert(0) += 1;
    });
    let secs = start.elapsed().as_secs_f64();
    let r = rec.lock().unwrap();
    let complete = secs < opts.max_secs as f64;
    let unseen: Vec<&String> = expected.iter().filter(|e| !r.outcomes.contains_key(*e)).collect();
    let verdict = if r.violation_count == 0 { "ok" } else { "violated" };
    println!(
        "LOOM {}",
        json!({
            "body": name,
            "preemption_bound": opts.preemptions,
            "iterations": r.iterations,
            "complete": complete,
            "secs": (secs * 1000.0).round() / 1000.0,
            "outcomes": r.outcomes,
            "expected": expected,
            "unseen": unseen,
            "verdict": verdict,
            "violating_iterations": r.violation_count,
            "violations": r.violations,
        })
    );
    if r.violation_count == 0 { 0 } else { 1 }
}

pub enum Cmd {
    List,
    Run { body: String, opts: Opts },
}

pub fn parse_args() -> Cmd {
    let a: Vec<String> = std::env::args().collect();
    let usage = || -> ! {
        eprintln!("usage: {} list | run <body> --preemptions <n|unbounded> [--max-secs <s>]", a[0]);
        std::process::exit(2)
    };
    match a.get(1).map(|s| s.as_str()) {
        Some("list") => Cmd::List,
        Some("run") => {
            let Some(body) = a.get(2).cloned() else { usage() };
            let mut preemptions = Some(2);
            let mut max_secs = 1500;
            let mut i = 3;
            while i < a.len() {
                match a[i].as_str() {
                    "--preemptions" => {
                        i += 1;
                        preemptions = match a.get(i).map(|s| s.as_str()) {
                            Some("unbounded") => None,
                            Some(n) => Some(n.parse().unwrap_or_else(|_| usage())),
                            None => usage(),
                        };
                    }
                    "--max-secs" => {
                        i += 1;
                        max_secs = a.get(i).and_then(|s| s.parse().ok()).unwrap_or_else(|| usage());
                    }
                    _ => usage(),
                }
                i += 1;
            }
            Cmd::Run { body, opts: Opts { preemptions, max_secs } }
        }
        _ => usage(),
    }
}

pub fn print_list(bodies: &[BodyInfo]) {
    for b in bodies {
        println!("BODY {}", json!({"name": b.name, "threads": b.threads, "ops": b.ops, "kinds": b.kinds}));
    }
}
