//! `parking_lot::RwLock` surface (no poisoning: `read()` / `write()` hand out the guard directly) over
//! `loom::sync::RwLock`, so that every acquisition in the re-bound `rate_limit.rs` is a loom switch point.
use loom::sync::{RwLockReadGuard, RwLockWriteGuard};

pub struct RwLock<T>(loom::sync::RwLock<T>);

impl<T> RwLock<T> {
    pub fn new(t: T) -> Self {
        RwLock(loom::sync::RwLock::new(t))
    }
    pub fn read(&self) -> RwLockReadGuard<'_, T> {
        self.0.read().unwrap_or_else(|e| e.into_inner())
    }
    pub fn write(&self) -> RwLockWriteGuard<'_, T> {
        self.0.write().unwrap_or_else(|e| e.into_inner())
    }
}

impl<T> std::fmt::Debug for RwLock<T> {
    fn fmt(&self, f: &mut std::fmt::Formatter<'_>) -> std::fmt::Result {
        f.write_str("RwLock { .. }")
    }
}
