use vh::wal::*;
use saorsa_core::persistent_state::FlushStrategy;
fn main(){
    let n: usize = std::env::args().nth(1).unwrap().parse().unwrap();
    let t=std::time::Instant::now();
    std::thread::scope(|s| { for k in 0..n { s.spawn(move || {
    let rt = tokio::runtime::Builder::new_current_thread().enable_all().build().unwrap();
    rt.block_on(async {
        let d = std::path::PathBuf::from(format!("/dev/shm/dbg06/{}-{k}", std::process::id()));
        let ops = vec![Op::Up("b"), Op::Checkpoint, Op::Up("a")];
        let imgs = run_history(&d.join("live"), &ops, FlushStrategy::Always, Some(2), true).await.unwrap();
        let last = imgs.last().unwrap();
        for _ in 0..2000 { let r = recover(&d.join("rec"), &last.files, FlushStrategy::Always, Some(2), T0).await.unwrap(); drop(r); }
    });
    }); } });
    println!("{} threads: {:?} per recover per thread", n, t.elapsed()/2000);
}
