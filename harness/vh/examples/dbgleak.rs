use saorsa_core::verif_hooks;
fn rss() -> u64 { std::fs::read_to_string("/proc/self/status").unwrap().lines().find(|l| l.starts_with("VmRSS")).and_then(|l| l.split_whitespace().nth(1).map(|x| x.parse().unwrap())).unwrap_or(0) }
fn main() {
    let mode = std::env::args().nth(1).unwrap_or_default();
    let base = verif_hooks::frame("chat", vec![1,2,3], "claimed-app-id", 1_790_000_000);
    println!("start rss {} kB", rss());
    for round in 0..5 {
        for i in 0..200_000u32 {
            let mut b = base.clone();
            let p = (i as usize) % b.len();
            b[p] = (i >> 8) as u8;
            if mode == "parse" { let _ = verif_hooks::parse_protocol_message(&b, "abc"); }
            if mode == "unframe" { let _ = verif_hooks::unframe(&b); }
        }
        println!("round {round} rss {} kB", rss());
    }
}
