use vh::netsim::*;
use std::collections::BTreeMap;
fn main() {
    let rt = paused_runtime();
    rt.block_on(async {
        let world = World::new();
        let n = 5;
        let mut nodes = Vec::new();
        for i in 0..n {
            let spec = NodeSpec { tid: tid_with_prefix(i as u32, 3, 0), app_id: Some(app_id_with_prefix(i as u32, 3, 1)), k: 8 };
            nodes.push(make_node(&world, i, &spec).await);
        }
        let t0 = std::time::Instant::now();
        for a in 0..n { for b in a+1..n { assert!(connect(&nodes, a, b).await); } }
        println!("connected in {:?}", t0.elapsed());
        let names: BTreeMap<String,String> = nodes.iter().enumerate().map(|(i,nd)| (nd.tid_hex.clone(), format!("N{i}"))).collect();
        let key = key_with_prefix(0, 3, 7);
        let m = nodes[0].mgr.clone();
        let h = tokio::spawn(async move { m.find_closest_nodes(&key, 8).await });
        let mut ch = Chooser::new(&[]);
        let start = tokio::time::Instant::now();
        loop {
            settle().await;
            let done = h.is_finished();
            match ch.next(&world, !done, &[]) {
                Action::Deliver(f) => { world.deliver(f.seq); }
                Action::Drop(f) => world.drop_frame(f.seq),
                Action::Advance => { tokio::time::sleep(REQUEST_TIMEOUT).await; }
                Action::Extra(_) => {}
                Action::Done => break,
            }
            if ch.points.len() > 500 { println!("horizon"); break; }
        }
        let r = h.await.unwrap().unwrap();
        println!("virtual {:?}, real {:?}, points {}", start.elapsed(), t0.elapsed(), ch.points.len());
        for x in &r { println!("  result {} pos {}", names.get(&x.peer_id).cloned().unwrap_or(x.peer_id.clone()), hex::encode(&dht_key_of(&x.peer_id)[..2])); }
        for l in trace_json(&world.trace(), &names).as_array().unwrap() { println!("{}", l.as_str().unwrap()); }
        println!("ops table {}", nodes[0].mgr.verif_active_operations_len());
    });
}
