//! C01 — iterative lookup returns the K closest responsive nodes it could learn of.
//!
//! Every connected connection graph on N labelled real nodes x initiator rank x K x fault pattern
//! (silent / slow peers, one scripted liar) is executed on real DhtNetworkManagers over the in-memory wire
//! (default schedule for the big sweeps, every single delivery deviation on the small configurations) and
//! judged from the RPC trace, the delivered replies and the returned list.
use saorsa_core::dht_network_manager::{DHTNode, DhtMessageType, DhtNetworkOperation, DhtNetworkResult};
use serde_json::{Value, json};
use std::collections::{BTreeMap, BTreeSet};
use std::sync::atomic::{AtomicU64, Ordering};
use std::time::Duration;
use vh::core::*;
use vh::netsim::*;

#[derive(Clone, Copy, Debug, PartialEq, Eq, Hash)]
enum Fault {
    Ok,
    Silent,
    Slow,
}

#[derive(Clone, Copy, Debug, PartialEq, Eq, Hash)]
enum Lie {
    Empty,
    NamesRequesterTid,
    NamesRequesterApp,
    NamesRequesterKeyAlias,
    NamesItself,
    Duplicates,
    UnknownCloserUndialable,
    Unknown250,
    UnknownCloserSilentGhost,
}
const LIES: [Lie; 9] = [Lie::Empty, Lie::NamesRequesterTid, Lie::NamesRequesterApp, Lie::NamesRequesterKeyAlias, Lie::NamesItself, Lie::Duplicates, Lie::UnknownCloserUndialable, Lie::Unknown250, Lie::UnknownCloserSilentGhost];

#[derive(Clone, Debug)]
struct Cfg {
    n: usize,
    edges: Vec<(usize, usize)>,
    /// distance rank of each node (0 = closest to the target); prefix = spread[rank]
    rank: Vec<usize>,
    spread: Vec<u32>,
    bits: u32,
    k: usize,
    faults: Vec<Fault>,
    liar: Option<(usize, Lie)>,
    /// app-level id distinct from the transport id (production-like) or equal (one position per node)
    distinct_app_id: bool,
}

impl Cfg {
    fn json(&self) -> Value {
        json!({"nodes": self.n, "edges": self.edges, "distance_rank_of_node": self.rank, "prefixes_by_rank": self.spread, "prefix_bits": self.bits, "k": self.k,
               "faults": self.faults.iter().map(|f| format!("{f:?}")).collect::<Vec<_>>(), "liar": self.liar.map(|(j, l)| json!({"node": j, "lie": format!("{l:?}")})),
               "distinct_app_id": self.distinct_app_id, "initiator": 0, "target_prefix": 0})
    }
    fn full_mesh(&self) -> bool {
        self.edges.len() == self.n * (self.n - 1) / 2
    }
}

fn connected_graphs(n: usize) -> Vec<Vec<(usize, usize)>> {
    let pairs: Vec<(usize, usize)> = (0..n).flat_map(|a| (a + 1..n).map(move |b| (a, b))).collect();
    let mut out = Vec::new();
    for mask in 0u32..(1 << pairs.len()) {
        let edges: Vec<(usize, usize)> = pairs.iter().enumerate().filter(|(i, _)| mask >> i & 1 == 1).map(|(_, e)| *e).collect();
        // connectivity
        let mut seen = vec![false; n];
        let mut st = vec![0usize];
        seen[0] = true;
        while let Some(x) = st.pop() {
            for &(a, b) in &edges {
                let y = if a == x { b } else if b == x { a } else { continue };
                if !seen[y] {
                    seen[y] = true;
                    st.push(y);
                }
            }
        }
        if seen.iter().all(|s| *s) {
            out.push(edges);
        }
    }
    out
}

struct Outcome {
    exec: Exec,
}

struct Ctx<'a> {
    run: &'a Run,
    distinct: &'a Distinct,
    execs: &'a AtomicU64,
}

fn run_one(cx: &Ctx<'_>, cfg: &Cfg, prefix: &[usize], allow_dev: bool) -> Outcome {
    let rt = paused_runtime();
    let out = rt.block_on(async {
        saorsa_core::verif_hooks::clear_sockets();
        let world = World::new();
        let key = key_with_prefix(0, cfg.bits, 77);
        // identities
        let mut tids = Vec::new();
        let mut apps = Vec::new();
        for i in 0..cfg.n {
            let p = cfg.spread[cfg.rank[i]];
            tids.push(tid_with_prefix(p, cfg.bits, i as u32));
            apps.push(if cfg.distinct_app_id {
                // the node's own position (from its app id) gets the same prefix so ranks agree
                Some(app_id_with_prefix(p, cfg.bits, 100 + i as u32))
            } else {
                None
            });
        }
        let liar_idx = cfg.liar.map(|l| l.0);
        let mut nodes: Vec<Option<SimNode>> = Vec::new();
        for i in 0..cfg.n {
            if Some(i) == liar_idx {
                world.add_endpoint(tids[i], node_addr(i), true);
                nodes.push(None);
            } else {
                nodes.push(Some(make_node(&world, i, &NodeSpec { tid: tids[i], app_id: apps[i].clone(), k: cfg.k }).await));
            }
        }
        // optional ghost endpoint (accepts dials, never answers)
        let ghost_tid = tid_with_prefix(0, cfg.bits, 999);
        let ghost_addr: std::net::SocketAddr = "99.99.0.1:9000".parse().unwrap();
        if matches!(cfg.liar, Some((_, Lie::UnknownCloserSilentGhost))) {
            world.add_endpoint(ghost_tid, ghost_addr, true);
            world.with(|w| w.eps.get_mut(&hex::encode(ghost_tid)).unwrap().silent = true);
        }
        // connections (who knows whom)
        for &(a, b) in &cfg.edges {
            let (dialer, target) = if nodes[a].is_some() { (a, b) } else { (b, a) };
            let Some(d) = nodes[dialer].as_ref() else { continue };
            let _ = d.transport.connect_peer(&node_addr(target).to_string()).await;
            settle().await;
        }
        // faults
        for i in 1..cfg.n {
            let h = hex::encode(tids[i]);
            match cfg.faults[i] {
                Fault::Silent => world.with(|w| w.eps.get_mut(&h).unwrap().silent = true),
                Fault::Slow => world.with(|w| w.eps.get_mut(&h).unwrap().slow_by = Some(REQUEST_TIMEOUT + Duration::from_millis(500))),
                Fault::Ok => {}
            }
        }
        let n0 = nodes[0].as_ref().unwrap();
        let names: BTreeMap<String, String> = (0..cfg.n).flat_map(|i| {
            let mut v = vec![(hex::encode(tids[i]), format!("N{i}")), (hex::encode(dht_key_of(&hex::encode(tids[i]))), format!("N{i}(key-alias)"))];
            if let Some(a) = &apps[i] {
                v.push((a.clone(), format!("N{i}(app)")));
            }
            v
        }).collect();
        // what node 0 knows before the lookup (table + connected peers), via its own local view
        let known_before: Vec<DHTNode> = n0.mgr.find_closest_nodes_local(&key, 64).await;
        let trace_start = world.trace().len();
        let t_start = tokio::time::Instant::now();
        let m = n0.mgr.clone();
        let kk = cfg.k;
        let h = tokio::spawn(async move { m.find_closest_nodes(&key, kk).await });
        let mut ch = Chooser::new(prefix);
        ch.allow_drop = allow_dev;
        ch.allow_reorder = allow_dev;
        ch.allow_early_time = allow_dev;
        let horizon = Duration::from_secs(20 * 2 * 5 * 4 + 60);
        let mut livelock = false;
        loop {
            settle().await;
            let done = h.is_finished();
            match ch.next(&world, !done, &[]) {
                Action::Deliver(f) => {
                    if let Some(fr) = world.deliver(f.seq) {
                        // scripted liar answers
                        if let (Some((j, lie)), Some(msg)) = (cfg.liar, fr.info.dht.as_ref()) {
                            if fr.dst == hex::encode(tids[j]) && matches!(msg.message_type, DhtMessageType::Request) {
                                if let DhtNetworkOperation::FindNode { key: k2 } = &msg.payload {
                                    let mk = |pid: String, addr: String| DHTNode { peer_id: pid, address: addr, distance: None, reliability: 1.0, cached_dht_key: None };
                                    let req_tid = fr.src.clone();
                                    let list: Vec<DHTNode> = match lie {
                                        Lie::Empty => vec![],
                                        Lie::NamesRequesterTid => vec![mk(req_tid.clone(), node_addr(0).to_string())],
                                        Lie::NamesRequesterApp => vec![mk(msg.source.clone(), node_addr(0).to_string())],
                                        Lie::NamesRequesterKeyAlias => vec![mk(hex::encode(dht_key_of(&req_tid)), node_addr(0).to_string())],
                                        Lie::NamesItself => vec![mk(hex::encode(tids[j]), node_addr(j).to_string())],
                                        Lie::Duplicates => {
                                            let other = (1..cfg.n).find(|x| *x != j).unwrap_or(j);
                                            vec![mk(hex::encode(tids[other]), node_addr(other).to_string()); 3]
                                        }
                                        Lie::UnknownCloserUndialable => vec![mk(hex::encode(tid_with_prefix(0, cfg.bits, 500)), "203.0.113.9:9".into())],
                                        Lie::Unknown250 => (0..250u32).map(|x| mk(hex::encode(tid_with_prefix(0, cfg.bits, 1000 + x)), format!("203.0.{}.{}:9", x / 200, 1 + x % 200))).collect(),
                                        Lie::UnknownCloserSilentGhost => vec![mk(hex::encode(ghost_tid), ghost_addr.to_string())],
                                    };
                                    let rsp = dht_response(msg, &hex::encode(tids[j]), DhtNetworkResult::NodesFound { key: *k2, nodes: list });
                                    world.enqueue(&hex::encode(tids[j]), &fr.src, dht_frame(&hex::encode(tids[j]), &rsp));
                                }
                            }
                        }
                    }
                }
                Action::DeliverBurst(fs) => {
                    for f in fs {
                        world.deliver(f.seq);
                    }
                }
                Action::Drop(f) => world.drop_frame(f.seq),
                Action::Advance => {
                    tokio::time::sleep(REQUEST_TIMEOUT).await;
                    let ms = t_start.elapsed().as_millis() as u64;
                    world.with(|w| w.trace.push(Ev::Time { now_ms: ms }));
                }
                Action::Extra(_) => {}
                Action::Done => break,
            }
            if t_start.elapsed() > horizon || ch.points.len() > 3000 {
                livelock = true;
                break;
            }
        }
        if ch.diverged() {
            // the recorded prefix could not be replayed: not an execution of the explored space, not judged
            h.abort();
            return Exec { diverged: true, points: ch.points, obs: 0 };
        }
        let elapsed = t_start.elapsed();
        let result: Option<Result<Vec<DHTNode>, String>> = if h.is_finished() { Some(h.await.map_err(|e| e.to_string()).and_then(|r| r.map_err(|e| e.to_string()))) } else { h.abort(); None };
        let trace: Vec<Ev> = world.trace()[trace_start..].to_vec();

        // ---------------- oracles ----------------
        let me_tid = hex::encode(tids[0]);
        let my_ids: BTreeSet<String> = [Some(me_tid.clone()), apps[0].clone(), Some(hex::encode(n0.self_pos)), Some(hex::encode(n0.pos))].into_iter().flatten().collect();
        // identity of an identifier string: node index, or the string itself for unknown ids
        let ident = |pid: &str| -> String {
            for i in 0..cfg.n {
                let t = hex::encode(tids[i]);
                if pid == t || pid == hex::encode(dht_key_of(&t)) || apps[i].as_deref() == Some(pid) || (i == 0 && pid == hex::encode(n0.self_pos)) {
                    return format!("N{i}");
                }
            }
            format!("?{}", short(pid))
        };
        // position the lookup code assigns to an identifier
        let pos_of = |nd: &DHTNode| -> [u8; 32] {
            if let Some(k) = &nd.cached_dht_key {
                return *k.as_bytes();
            }
            if nd.peer_id == n0.app_id {
                return n0.self_pos;
            }
            dht_key_of(&nd.peer_id)
        };
        let wit = |extra: Value| json!({"config": cfg.json(), "schedule": prefix, "detail": extra, "trace": trace_json(&trace, &names)});
        let base_feats = |shape: &str| {
            feats(&[("shape", shape.into()), ("liar", cfg.liar.map(|l| format!("{:?}", l.1)).unwrap_or("none".into())), ("app_id", if cfg.distinct_app_id { "distinct".into() } else { "same".into() })])
        };
        // requests sent by node 0 during the lookup
        let mut req_sent: Vec<(String, String)> = Vec::new(); // (dst tid, msg id)
        let mut attempts: Vec<String> = Vec::new();
        let mut delivered_rsp_from: BTreeSet<String> = BTreeSet::new();
        let mut my_msg_ids: BTreeSet<String> = BTreeSet::new();
        for e in &trace {
            match e {
                Ev::Sent { from, to, kind, msg_id, .. } if *from == me_tid && kind.starts_with("dht-req") => {
                    req_sent.push((to.clone(), msg_id.clone()));
                    my_msg_ids.insert(msg_id.clone());
                }
                Ev::SendAttempt { from, to, .. } if *from == me_tid => attempts.push(to.clone()),
                _ => {}
            }
        }
        // replies that reached the lookup while their request was still pending (a reply delivered after the
        // request timed out is discarded by the node and teaches the lookup nothing)
        let all_frames = world.with(|w| w.delivered.clone());
        let req_time = |mid: &str| world.with(|w| w.sent_times.get(mid).cloned());
        let in_time: Vec<&Frame> = all_frames
            .iter()
            .filter(|fr| fr.dst == me_tid)
            .filter(|fr| match &fr.info.dht {
                Some(m) if matches!(m.message_type, DhtMessageType::Response) && my_msg_ids.contains(&m.message_id) => match (req_time(&m.message_id), fr.delivered_at) {
                    (Some(t0), Some(t1)) => t1 < t0 + REQUEST_TIMEOUT,
                    _ => false,
                },
                _ => false,
            })
            .collect();
        for fr in &in_time {
            delivered_rsp_from.insert(fr.src.clone());
        }
        let all_answered = req_sent.iter().all(|(_, mid)| in_time.iter().any(|fr| fr.info.dht.as_ref().map(|m| &m.message_id) == Some(mid)));
        cx.distinct.eval();
        let mut obs_sig: Vec<String> = Vec::new();
        match &result {
            None => {
                cx.run.violation_lazy("C01.term", base_feats(if livelock { "not-finished-at-horizon" } else { "unfinished" }), || (wit(json!({"virtual_ms": elapsed.as_millis() as u64})), "lookup did not terminate within the horizon".to_string()));
            }
            Some(Err(e)) => {
                obs_sig.push(format!("err:{e}"));
            }
            Some(Ok(res)) => {
                let ids: Vec<String> = res.iter().map(|n| ident(&n.peer_id)).collect();
                obs_sig.extend(ids.iter().cloned());
                let rj = || json!(res.iter().map(|n| json!({"peer_id": names.get(&n.peer_id).cloned().unwrap_or(n.peer_id.clone()), "identity": ident(&n.peer_id)})).collect::<Vec<_>>());
                // shape
                if res.len() > cfg.k {
                    cx.run.violation_lazy("C01.shape", base_feats("more-than-k"), || (wit(json!({"result": rj()})), format!("{} nodes returned for K={}", res.len(), cfg.k)));
                }
                let mut s = BTreeSet::new();
                if ids.iter().any(|i| !s.insert(i.clone())) {
                    cx.run.violation_lazy("C01.shape", base_feats("same-node-twice"), || (wit(json!({"result": rj()})), format!("result names one node twice: {ids:?}")));
                }
                let dists: Vec<[u8; 32]> = res.iter().map(|n| xor_dist(&pos_of(n), &key)).collect();
                if dists.windows(2).any(|w| w[0] > w[1]) {
                    cx.run.violation_lazy("C01.shape", base_feats("not-ascending"), || (wit(json!({"result": rj()})), "result not in ascending XOR distance".to_string()));
                }
                // member: local node or a peer whose reply to this lookup was delivered
                for n in res.iter() {
                    let id = ident(&n.peer_id);
                    if id == "N0" {
                        continue;
                    }
                    let answered = delivered_rsp_from.iter().any(|t| ident(t) == id);
                    if !answered {
                        cx.run.violation_lazy("C01.member", base_feats("returned-without-reply"), || (wit(json!({"result": rj(), "node": id})), format!("{id} returned although no reply from it was delivered during the lookup")));
                    }
                }
                // closure
                let farthest = dists.iter().max().cloned();
                let mut learned: Vec<(DHTNode, &'static str)> = Vec::new();
                for (i, nd) in known_before.iter().enumerate() {
                    learned.push((nd.clone(), if i < cfg.k { "own-table-first-k" } else { "own-table-beyond-first-k" }));
                }
                // ids named in replies delivered to this lookup
                for fr in &in_time {
                    if let Some(m) = &fr.info.dht {
                        if let Some(DhtNetworkResult::NodesFound { nodes, .. }) = &m.result {
                            for nd in nodes {
                                learned.push((nd.clone(), "reply"));
                            }
                        }
                    }
                }
                let queried = |id: &str| req_sent.iter().any(|(t, _)| ident(t) == id) || attempts.iter().any(|t| ident(t) == id);
                let budget_spent = attempts.len() >= 20; // 20 iterations of 1..3 queries: from 20 attempts on the iteration budget may be exhausted
                if budget_spent {
                    cx.run.info("C01.info.closure-not-judged-iteration-budget-spent");
                }
                if let Some(far) = farthest.filter(|_| !budget_spent) {
                    for (nd, src) in learned.iter() {
                        let id = ident(&nd.peer_id);
                        if id == "N0" || ids.contains(&id) {
                            continue;
                        }
                        let d = xor_dist(&pos_of(nd), &key);
                        if d < far && !queried(&id) {
                            let src = *src;
                            cx.run.violation_lazy("C01.closure", base_feats(&format!("closer-known-peer-unqueried:{src}")), || {
                                (wit(json!({"result": rj(), "unqueried": id, "learned_from": src})), format!("{id} (learned from {src}) is strictly closer than the farthest returned node and was never queried"))
                            });
                        }
                    }
                }
                // mesh
                if cfg.full_mesh() && cfg.liar.is_none() && cfg.faults.iter().all(|f| *f == Fault::Ok) && !cfg.distinct_app_id && all_answered {
                    let mut all: Vec<(usize, [u8; 32])> = (0..cfg.n).map(|i| (i, xor_dist(&dht_key_of(&hex::encode(tids[i])), &key))).collect();
                    all.sort_by(|a, b| a.1.cmp(&b.1));
                    let want: Vec<String> = all.iter().take(cfg.k).map(|(i, _)| format!("N{i}")).collect();
                    if ids != want {
                        let shape = if ids.len() < want.len() { "fewer-than-k-closest" } else { "not-the-k-closest" };
                        cx.run.violation_lazy("C01.mesh", base_feats(shape), || (wit(json!({"result": rj(), "expected": want})), format!("full mesh, all answering: got {ids:?}, the K closest are {want:?}")));
                    }
                }
            }
        }
        // self: no request frame handed to the wire for a local identity
        for (t, _) in &req_sent {
            if my_ids.contains(t) {
                cx.run.violation_lazy("C01.self", base_feats("request-to-self"), || (wit(json!({"to": t})), "the local node sent itself a request".to_string()));
            }
        }
        if attempts.iter().any(|t| my_ids.contains(t)) {
            cx.run.info("C01.info.attempt-addressed-to-own-alias (refused by the transport)");
        }
        // once
        let mut per: BTreeMap<String, usize> = BTreeMap::new();
        for (t, _) in &req_sent {
            *per.entry(ident(t)).or_insert(0) += 1;
        }
        if let Some((id, n)) = per.iter().find(|(_, n)| **n > 1) {
            cx.run.violation_lazy("C01.once", base_feats("queried-twice"), || (wit(json!({"node": id, "requests": n})), format!("{id} was sent {n} requests in one lookup")));
        }
        // bound
        if req_sent.len() > 60 {
            cx.run.violation_lazy("C01.bound", base_feats("more-than-60-requests"), || (wit(json!({"requests": req_sent.len()})), format!("{} requests in one lookup", req_sent.len())));
        }
        let alias_attempts = attempts.iter().filter(|t| names.get(*t).map(|n| n.contains("key-alias")).unwrap_or(false)).count();
        if alias_attempts > 0 {
            cx.run.info_n("C02.single-id.alias-attempts-during-lookup", alias_attempts as u64);
        }
        obs_sig.push(format!("req={}", req_sent.len()));
        obs_sig.push(format!("t={}", elapsed.as_secs()));
        let obs = hash64(&obs_sig);
        cx.distinct.outcome(&obs_sig);
        // stop nodes quietly: drop everything with the runtime
        Exec { diverged: ch.diverged(), points: ch.points, obs }
    });
    cx.execs.fetch_add(1, Ordering::Relaxed);
    drop(rt);
    Outcome { exec: out }
}

/// Crowd family: one real initiator, one truthful but talkative contact and `crowd` responsive scripted peers. The
/// contact's reply names the whole crowd in one list (more than the lookup's candidate queue holds when crowd > 200,
/// so part of it is dropped — the closest part when the list is ordered farthest-first); every other peer answers
/// with the K closest peers. Everybody answers in time, so the result must be exactly the K closest peers.
fn crowd_case(cx: &Ctx<'_>, crowd: u32, farthest_first: bool, k: usize) {
    let rt = paused_runtime();
    rt.block_on(async {
        saorsa_core::verif_hooks::clear_sockets();
        let world = World::new();
        let bits = 8u32;
        let key = key_with_prefix(0, bits, 77);
        let me = make_node(&world, 0, &NodeSpec { tid: tid_with_prefix(255, bits, 0), app_id: None, k }).await;
        // contact (prefix 254) and the crowd (prefixes 1..=crowd, distance to the key grows with the prefix)
        let addr_of = |p: u32| -> std::net::SocketAddr { format!("{}.{}.1.1:9000", 30 + p / 250, p % 250).parse().unwrap() };
        let contact = tid_with_prefix(254, bits, 1);
        world.add_endpoint(contact, addr_of(254), true);
        let mut peers: Vec<([u8; 32], u32)> = Vec::new();
        for p in 1..=crowd {
            let t = tid_with_prefix(p.min(253), bits, 2000 + p);
            world.add_endpoint(t, addr_of(p), true);
            peers.push((t, p));
        }
        let dist = |t: &[u8; 32]| xor_dist(&dht_key_of(&hex::encode(t)), &key);
        peers.sort_by_key(|(t, _)| dist(t));
        let addr_by_tid: BTreeMap<String, String> = peers.iter().map(|(t, p)| (hex::encode(t), addr_of(*p).to_string())).collect();
        let _ = me.transport.connect_peer(&addr_of(254).to_string()).await;
        settle().await;
        let trace_start = world.trace().len();
        let m = me.mgr.clone();
        let h = tokio::spawn(async move { m.find_closest_nodes(&key, k).await });
        let mut ch = Chooser::new(&[]);
        let t0 = tokio::time::Instant::now();
        let mk = |t: &[u8; 32]| DHTNode { peer_id: hex::encode(t), address: addr_by_tid[&hex::encode(t)].clone(), distance: None, reliability: 1.0, cached_dht_key: None };
        loop {
            settle().await;
            match ch.next(&world, !h.is_finished(), &[]) {
                Action::Deliver(f) => {
                    if let Some(fr) = world.deliver(f.seq) {
                        if let Some(msg) = fr.info.dht.as_ref() {
                            if fr.dst != me.tid_hex && matches!(msg.message_type, DhtMessageType::Request) {
                                if let DhtNetworkOperation::FindNode { key: k2 } = &msg.payload {
                                    let list: Vec<DHTNode> = if fr.dst == hex::encode(contact) {
                                        let mut l: Vec<DHTNode> = peers.iter().map(|(t, _)| mk(t)).collect();
                                        if farthest_first {
                                            l.reverse();
                                        }
                                        l
                                    } else {
                                        peers.iter().take(k).map(|(t, _)| mk(t)).collect()
                                    };
                                    let rsp = dht_response(msg, &fr.dst, DhtNetworkResult::NodesFound { key: *k2, nodes: list });
                                    world.enqueue(&fr.dst, &fr.src, dht_frame(&fr.dst, &rsp));
                                }
                            }
                        }
                    }
                }
                Action::Advance => tokio::time::sleep(REQUEST_TIMEOUT).await,
                Action::Done => break,
                _ => {}
            }
            if t0.elapsed() > Duration::from_secs(900) || ch.points.len() > 3000 {
                break;
            }
        }
        cx.distinct.eval();
        let trace: Vec<Ev> = world.trace()[trace_start..].to_vec();
        let names: BTreeMap<String, String> = peers.iter().enumerate().map(|(r, (t, _))| (hex::encode(t), format!("P{r}"))).chain([(me.tid_hex.clone(), "N0".to_string()), (hex::encode(contact), "contact".to_string())]).collect();
        let queried: BTreeSet<String> = trace.iter().filter_map(|e| match e { Ev::Sent { from, to, kind, .. } if *from == me.tid_hex && kind.starts_with("dht-req") => Some(names.get(to).cloned().unwrap_or(short(to))), _ => None }).collect();
        let wit = |extra: Value| json!({"family": "crowd", "crowd": crowd, "contact_reply_order": if farthest_first { "farthest first" } else { "closest first" }, "k": k, "queried": queried, "detail": extra, "trace_len": trace.len()});
        let ft = |shape: &str| feats(&[("shape", shape.into()), ("liar", "none".into()), ("family", "crowd".into())]);
        if !h.is_finished() {
            h.abort();
            cx.run.violation_lazy("C01.term", ft("lookup-did-not-finish"), || (wit(json!({})), format!("crowd {crowd}: the lookup did not finish")));
            return;
        }
        let res = h.await.map_err(|e| e.to_string()).and_then(|r| r.map_err(|e| e.to_string()));
        let want: Vec<String> = peers.iter().take(k).map(|(t, _)| hex::encode(t)).collect();
        match res {
            Err(e) => cx.run.violation_lazy("C01.term", ft("lookup-failed"), || (wit(json!({"error": e})), format!("crowd {crowd}: the lookup failed although every peer answers: {e}"))),
            Ok(list) => {
                let got: Vec<String> = list.iter().map(|n| n.peer_id.clone()).collect();
                cx.distinct.outcome(&("crowd", crowd, farthest_first, got.len(), got == want));
                let gs: BTreeSet<&String> = got.iter().collect();
                let ws: BTreeSet<&String> = want.iter().collect();
                if gs != ws {
                    let missing: Vec<String> = want.iter().filter(|w| !gs.contains(w)).map(|w| names[w].clone()).collect();
                    let g2: Vec<String> = got.iter().map(|g| names.get(g).cloned().unwrap_or(short(g))).collect();
                    cx.run.violation_lazy("C01.closure", ft("closer-responsive-peer-named-in-replies-but-not-returned"), || (wit(json!({"returned_ranks": g2, "missing_ranks": missing})), format!("crowd {crowd}: every peer answers, yet the result {g2:?} lacks the closer peers {missing:?} that replies named")));
                }
            }
        }
    });
    cx.execs.fetch_add(1, Ordering::Relaxed);
}

fn main() {
    let run = Run::new("C01", "model_checking");
    quiet_panics();
    let distinct = Distinct::default();
    let execs = AtomicU64::new(0);
    let budget = Budget::new(Duration::from_secs(run.tier.pick(50, 1700)));
    let thorough = run.tier == Tier::Thorough;
    // ---- configurations
    let mut cfgs: Vec<(Cfg, usize)> = Vec::new(); // (config, deviation bound)
    let max_n = 5;
    for n in 2..=max_n {
        let graphs = connected_graphs(n);
        let ks: Vec<usize> = if n <= 4 { run.tier.pick(vec![1, 2, 3], vec![1, 2, 3, 8]) } else { run.tier.pick(vec![3], vec![2, 8]) };
        for g in &graphs {
            for r0 in 0..n {
                if !thorough && n == 5 && r0 != 0 && r0 != n - 1 {
                    continue; // quick: initiator closest or farthest only
                }
                // initiator takes rank r0; the others the remaining ranks in index order
                let mut rank = vec![0usize; n];
                rank[0] = r0;
                let mut next = 0;
                for i in 1..n {
                    if next == r0 {
                        next += 1;
                    }
                    rank[i] = next;
                    next += 1;
                }
                for &k in &ks {
                    let fault_sets: Vec<Vec<Fault>> = {
                        let opts: Vec<Fault> = if thorough && n <= 4 { vec![Fault::Ok, Fault::Silent, Fault::Slow] } else { vec![Fault::Ok, Fault::Silent] };
                        let mut v = vec![vec![Fault::Ok]];
                        for _ in 1..n {
                            let mut nv = Vec::new();
                            for p in &v {
                                for o in &opts {
                                    let mut q = p.clone();
                                    q.push(*o);
                                    nv.push(q);
                                }
                            }
                            v = nv;
                        }
                        if n == 5 { v.into_iter().filter(|f| f.iter().filter(|x| **x != Fault::Ok).count() <= 1).collect() } else { v }
                    };
                    for f in fault_sets {
                        for distinct_app in [false, true] {
                            if !thorough && n == 5 && !distinct_app {
                                continue; // quick: N=5 in the production-like identity mode only
                            }
                            let dev = if n <= 3 && f.iter().all(|x| *x == Fault::Ok) { run.tier.pick(1, 2) } else { 0 };
                            cfgs.push((Cfg { n, edges: g.clone(), rank: rank.clone(), spread: vec![1, 2, 3, 4, 5, 6], bits: 4, k, faults: f.clone(), liar: None, distinct_app_id: distinct_app }, dev));
                        }
                    }
                }
            }
        }
    }
    // liar menu on N = 3 (thorough: N = 4 too), liar at each non-initiator position, all graphs
    for n in 3..=run.tier.pick(3, 4) {
        for g in &connected_graphs(n) {
            for j in 1..n {
                for lie in LIES {
                    for r0 in [0, n - 1] {
                        let mut rank = vec![0usize; n];
                        rank[0] = r0;
                        let mut next = 0;
                        for i in 1..n {
                            if next == r0 {
                                next += 1;
                            }
                            rank[i] = next;
                            next += 1;
                        }
                        for distinct_app in [false, true] {
                            cfgs.push((Cfg { n, edges: g.clone(), rank: rank.clone(), spread: vec![1, 2, 3, 4, 5, 6], bits: 4, k: 3, faults: vec![Fault::Ok; n], liar: Some((j, lie)), distinct_app_id: distinct_app }, 0));
                        }
                    }
                }
            }
        }
    }
    // full meshes of 6..8 nodes, default schedule (the early-termination shape needs N >= 5 with K >= 4)
    for n in [5usize, 6, 8] {
        if n > 5 || !thorough {
            let edges: Vec<(usize, usize)> = (0..n).flat_map(|a| (a + 1..n).map(move |b| (a, b))).collect();
            for r0 in [0, n / 2, n - 1] {
                let mut rank = vec![0usize; n];
                rank[0] = r0;
                let mut next = 0;
                for i in 1..n {
                    if next == r0 {
                        next += 1;
                    }
                    rank[i] = next;
                    next += 1;
                }
                for k in [4usize, 8] {
                    for distinct_app in [false, true] {
                        cfgs.push((Cfg { n, edges: edges.clone(), rank: rank.clone(), spread: vec![1, 2, 3, 4, 5, 6, 7, 9, 10, 11], bits: 4, k, faults: vec![Fault::Ok; n], liar: None, distinct_app_id: distinct_app }, 0));
                    }
                }
            }
        }
    }

    let cx = Ctx { run: &run, distinct: &distinct, execs: &execs };
    let parent = run.fan_out(n_workers());
    let mut stats_total = ExploreStats::default();
    let mut samples: Vec<Value> = Vec::new();
    let mut cfg_done = 0u64;
    let mut selfcheck_ok = true;
    if parent.is_none() {
        // crowd family (candidate-queue capacity): default schedule, every peer responsive
        let mut crowd_cases: Vec<(u32, bool, usize)> = Vec::new();
        for crowd in run.tier.pick(vec![199u32, 201, 230], vec![199, 200, 201, 202, 230, 250]) {
            for ff in [true, false] {
                for k in run.tier.pick(vec![8usize], vec![3, 8]) {
                    crowd_cases.push((crowd, ff, k));
                }
            }
        }
        for (j, (crowd, ff, k)) in crowd_cases.iter().enumerate() {
            if run.mine(cfgs.len() + j) && !budget.exceeded() {
                let t = std::time::Instant::now();
                crowd_case(&cx, *crowd, *ff, *k);
                if std::env::var_os("VH_C01_CROWD_ONLY").is_some() {
                    eprintln!("crowd {crowd} farthest_first={ff} k={k}: {:.1}s", t.elapsed().as_secs_f64());
                }
            }
        }
        for (ci, (cfg, bound)) in cfgs.iter().enumerate() {
            if !run.mine(ci) || std::env::var_os("VH_C01_CROWD_ONLY").is_some() {
                continue;
            }
            if budget.exceeded() {
                break;
            }
            let mut f = |p: &[usize]| run_one(&cx, cfg, p, *bound > 0).exec;
            let st = explore(*bound, &budget, &mut f);
            // determinism self-check: replay the default schedule of the first configuration of this worker twice
            if cfg_done == 0 {
                let a = run_one(&cx, cfg, &[], *bound > 0).exec;
                let b = run_one(&cx, cfg, &[], *bound > 0).exec;
                if a.obs != b.obs || a.points.len() != b.points.len() {
                    selfcheck_ok = false;
                    run.machinery_error(format!("replay self-check failed: same schedule gave different observations on {:?}", cfg.json()));
                }
            }
            if st.diverged > 0 {
                run.machinery_error(format!("{} executions diverged while replaying a schedule prefix on {:?}", st.diverged, cfg.json()));
            }
            stats_total.executions += st.executions;
            stats_total.choice_points += st.choice_points;
            stats_total.max_len = stats_total.max_len.max(st.max_len);
            stats_total.capped |= st.capped;
            if samples.len() < 2 {
                samples.push(json!({"config": cfg.json(), "deviation_bound": bound, "executions": st.executions, "max_schedule_len": st.max_len}));
            }
            cfg_done += 1;
        }
        if budget.was_hit() {
            run.cap_hit(format!("wall-clock budget: worker {:?} completed {} configurations", run.shard(), cfg_done));
        }
        if run.is_child() {
            run.finish(cov(vec![("_distinct", distinct.export()), ("executions", json!(stats_total.executions)), ("choice_points", json!(stats_total.choice_points)), ("max_len", json!(stats_total.max_len)), ("configs", json!(cfg_done)), ("samples", json!(samples)), ("budget_hit", json!(budget.was_hit())), ("selfcheck_ok", json!(selfcheck_ok))]), vec![]);
        }
    }
    let covs = parent.unwrap_or_default();
    for c in &covs {
        if let Some(d) = c.get("_distinct") {
            distinct.import(d);
        }
        if let Some(a) = c.get("samples").and_then(|v| v.as_array()) {
            for x in a {
                if samples.len() < 4 {
                    samples.push(x.clone());
                }
            }
        }
    }
    let executions = sum_cov(&covs, "executions") + stats_total.executions;
    let points = sum_cov(&covs, "choice_points") + stats_total.choice_points;
    let done = sum_cov(&covs, "configs") + cfg_done;
    let any_budget = covs.iter().any(|c| c.get("budget_hit").and_then(|v| v.as_bool()).unwrap_or(false)) || budget.was_hit();
    let max_len = covs.iter().map(|c| c.get("max_len").and_then(|v| v.as_u64()).unwrap_or(0)).max().unwrap_or(0).max(stats_total.max_len as u64);
    if done == 0 {
        run.machinery_error("no configuration completed");
    }
    let coverage = cov(vec![
        ("states", json!(points.max(1))),
        ("transitions", json!(points.max(1))),
        ("traces_validated_against_impl", json!(executions)),
        ("samples", json!(samples)),
        ("exhaustive", json!(!any_budget)),
        ("evaluations", json!(distinct.evaluations())),
        ("distinct_nontrivial", json!(distinct.distinct())),
        ("rule", json!("states/transitions = scheduler choice points executed on the real nodes (every execution is a run of the implementation); distinct = distinct (returned identity list, request count, virtual duration) observations")),
        ("bounds", json!({"configurations_total": cfgs.len(), "configurations_completed": done, "executions": executions, "max_schedule_len": max_len, "max_nodes_all_graphs": max_n, "n5_quick": "K=3, at most one silent peer, distinct application id, initiator closest or farthest",
                           "deviation_bound": "0 on all configurations; every single (thorough: double) delivery deviation (reorder, drop, early timeout) on N<=3 fault-free configurations",
                           "liar_menu": LIES.iter().map(|l| format!("{l:?}")).collect::<Vec<_>>()})),
    ]);
    run.finish(
        coverage,
        vec![
            "configurations are complete up to relabelling of non-initiator nodes: all connected graphs x initiator distance rank; ranks realised with 4-bit key prefixes".into(),
            "requests are counted as frames handed to the socket; send attempts the transport refuses (unknown identifier) are logged as information".into(),
            "closure clause uses the wide reading of 'its own tables' (whole table + connected peers); the narrow/wide distinction is a signature feature".into(),
            "thread preemption inside await-free segments is not explored (single-threaded runtime)".into(),
        ],
    );
}
