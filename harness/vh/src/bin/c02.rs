//! C02 — routing-table closest-node answers are exact, duplicate-free and capped.
//!
//! Explicit-state BFS over join/add/fail/evict histories on a real `DhtCoreEngine` (rebuilt by
//! replay for every history), plus the bucket-occupancy family; after every transition every
//! target key x every count is asked through `find_nodes` and `handle_request(FindNode/FindValue)`
//! and compared with a reference (sorted set).
use saorsa_core::dht::core_engine::{DhtCoreEngine, DhtKey, DhtRequestWrapper, NodeCapacity, NodeId, NodeInfo};
use saorsa_core::dht::network_integration::{DhtMessage, DhtResponse};
use saorsa_core::dht::routing_maintenance::EvictionReason;
use saorsa_core::dht::routing_maintenance::close_group_validator::{CloseGroupValidator, CloseGroupValidatorConfig};
use serde_json::json;
use std::collections::BTreeSet;
use std::time::{Duration, SystemTime};
use vh::core::*;

const COUNTS_QUICK: [usize; 12] = [0, 1, 2, 3, 7, 8, 9, 19, 20, 21, 63, 64];

fn local_bytes() -> [u8; 32] {
    *blake3::hash(b"vh-c02-local").as_bytes()
}
/// id whose top byte differs from the local id by `x` (x = 0 is the local id itself).
fn idb(x: u8) -> [u8; 32] {
    let mut b = local_bytes();
    b[0] ^= x;
    b
}
fn bucket_of(x: u8) -> usize {
    if x == 0 { 255 } else { x.leading_zeros() as usize }
}
fn node(x: u8, variant: u8) -> NodeInfo {
    NodeInfo {
        id: NodeId::from_bytes(idb(x)),
        // distinct /8 per id: the IP-diversity and region gates of add_node never bind here (C13 covers them)
        address: format!("{}.{}.{}.1:{}", 11 + (x % 100), x, variant, 9000 + variant as u16),
        last_seen: SystemTime::UNIX_EPOCH + Duration::from_secs(1_700_000_000),
        capacity: NodeCapacity::default(),
    }
}
fn xd(a: u8, t: u8) -> u8 {
    a ^ t
}

#[derive(Clone, Debug)]
enum Op {
    Join(u8),
    Add(u8),
    AddNewAddr(u8),
    Fail(u8),
    Evict(u8),
}
fn op_json(o: &Op) -> serde_json::Value {
    match o {
        Op::Join(x) => json!({"join_network": format!("{x:#04x}")}),
        Op::Add(x) => json!({"add_node": format!("{x:#04x}")}),
        Op::AddNewAddr(x) => json!({"add_node_new_address": format!("{x:#04x}")}),
        Op::Fail(x) => json!({"handle_node_failure": format!("{x:#04x}")}),
        Op::Evict(x) => json!({"evict_node": format!("{x:#04x}")}),
    }
}

async fn fresh_engine() -> DhtCoreEngine {
    let e = DhtCoreEngine::new(NodeId::from_bytes(local_bytes())).expect("engine");
    // production (DhtNetworkManager) uses LogOnly validation; the constructor for it is crate-private
    *e.close_group_validator().write().await = CloseGroupValidator::new(CloseGroupValidatorConfig::log_only());
    e
}

/// Reference table: ordered list of ids (bucket insertion order is irrelevant to the oracle).
#[derive(Default, Clone)]
struct Ref {
    ids: BTreeSet<u8>,
}

async fn apply(e: &mut DhtCoreEngine, r: &mut Ref, op: &Op) -> bool {
    match op {
        Op::Join(x) => {
            let ok = e.join_network(vec![node(*x, 0)]).await.is_ok();
            if ok && *x != 0 {
                r.ids.insert(*x);
            }
            ok
        }
        Op::Add(x) | Op::AddNewAddr(x) => {
            let v = if matches!(op, Op::AddNewAddr(_)) { 1 } else { 0 };
            let ok = e.add_node(node(*x, v)).await.is_ok();
            if ok && *x != 0 {
                r.ids.insert(*x);
            }
            ok
        }
        Op::Fail(x) => {
            let ok = e.handle_node_failure(NodeId::from_bytes(idb(*x))).await.is_ok();
            r.ids.remove(x);
            ok
        }
        Op::Evict(x) => {
            let ok = e.evict_node(&NodeId::from_bytes(idb(*x)), EvictionReason::Stale).await.is_ok();
            r.ids.remove(x);
            ok
        }
    }
}

fn x_of(n: &NodeInfo) -> Option<u8> {
    let b = n.id.as_bytes();
    let l = local_bytes();
    if b[1..] != l[1..] {
        return None;
    }
    Some(b[0] ^ l[0])
}

struct Ctx<'a> {
    run: &'a Run,
    distinct: &'a Distinct,
    /// requested counts: boundary values in quick, every count 0..=64 in thorough
    counts: Vec<usize>,
}

/// Ask every target x count through the three entry points and judge.
async fn judge(cx: &Ctx<'_>, e: &DhtCoreEngine, r: &Ref, targets: &[u8], hist: &dyn Fn() -> serde_json::Value) -> u64 {
    let mut obs: Vec<(u8, usize, Vec<u8>)> = Vec::new();
    // table view: union of all answers for count 64
    let mut listed: Vec<u8> = Vec::new();
    for &t in targets {
        let key = DhtKey::from_bytes(idb(t));
        let mut expect: Vec<u8> = r.ids.iter().copied().collect();
        expect.sort_by_key(|a| xd(*a, t));
        for &count in cx.counts.iter() {
            for entry in 0..3u8 {
                let (name, cap, nodes): (&str, usize, Vec<NodeInfo>) = match entry {
                    0 => ("DhtCoreEngine::find_nodes", count, e.find_nodes(&key, count).await.unwrap_or_default()),
                    1 => {
                        let rsp = e.handle_request(DhtRequestWrapper { id: "q".into(), message: DhtMessage::FindNode { target: key.clone(), count } }).await;
                        match rsp.response {
                            DhtResponse::FindNodeReply { nodes, .. } => ("handle_request(FindNode)", count.min(20), nodes),
                            _ => ("handle_request(FindNode)", count.min(20), vec![]),
                        }
                    }
                    _ => {
                        if count != 8 {
                            continue;
                        }
                        let rsp = e.handle_request(DhtRequestWrapper { id: "q".into(), message: DhtMessage::FindValue { key: key.clone() } }).await;
                        match rsp.response {
                            DhtResponse::FindValueReply { nodes, .. } => ("handle_request(FindValue)", 8, nodes),
                            _ => ("handle_request(FindValue)", 8, vec![]),
                        }
                    }
                };
                cx.distinct.eval();
                let got: Vec<Option<u8>> = nodes.iter().map(x_of).collect();
                let gotx: Vec<u8> = got.iter().map(|g| g.unwrap_or(0xEE)).collect();
                if entry == 0 && count == 64 {
                    listed.extend(gotx.iter().copied());
                }
                let want: Vec<u8> = expect.iter().copied().take(cap).collect();
                cx.distinct.outcome(&(entry, t, count, &gotx));
                if entry == 0 {
                    obs.push((t, count, gotx.clone()));
                }
                let wit = || {
                    (
                        json!({"history": hist(), "target": format!("{t:#04x}"), "count": count, "entry": name,
                               "got": gotx.iter().map(|g| format!("{g:#04x}")).collect::<Vec<_>>(),
                               "expected": want.iter().map(|g| format!("{g:#04x}")).collect::<Vec<_>>(),
                               "ids": "id = local id with byte 0 XOR the shown value; bucket = leading zeros of that value"}),
                        format!("{name} target={t:#04x} count={count}: got {gotx:02x?}, expected {want:02x?}"),
                    )
                };
                // cap
                if nodes.len() > cap {
                    cx.run.violation_lazy("C02.cap", feats(&[("entry", name.into())]), wit);
                }
                // dup
                let mut s = BTreeSet::new();
                let dup = gotx.iter().any(|g| !s.insert(*g));
                if dup {
                    let t_bucket = bucket_of(t);
                    let shape = if t_bucket <= 254 { "revisit" } else { "revisit-self-target" };
                    cx.run.violation_lazy("C02.dup", feats(&[("entry", name.into()), ("shape", shape.into())]), wit);
                }
                // self listed
                if gotx.contains(&0) {
                    cx.run.violation_lazy("C02.table", feats(&[("entry", name.into()), ("shape", "local-id-listed".into())]), wit);
                }
                // order
                if gotx.windows(2).any(|w| xd(w[0], t) > xd(w[1], t)) {
                    cx.run.violation_lazy("C02.order", feats(&[("entry", name.into())]), wit);
                }
                // exact (as sets/sequences of distinct ids, so a pure dup is not double-reported)
                let mut dedup: Vec<u8> = Vec::new();
                for g in &gotx {
                    if !dedup.contains(g) && *g != 0 {
                        dedup.push(*g);
                    }
                }
                let clean = !dup && !gotx.contains(&0);
                if clean && gotx != want {
                    let shape = if gotx.len() < want.len() {
                        "short"
                    } else if want.iter().any(|w| !gotx.contains(w)) {
                        "closer-peer-missing"
                    } else {
                        "other"
                    };
                    cx.run.violation_lazy("C02.exact", feats(&[("entry", name.into()), ("shape", shape.into())]), wit);
                } else if !clean {
                    // with dups/self present the distinct remainder must still be a prefix of the expectation
                    let k = dedup.len().min(want.len());
                    if dedup[..k] != want[..k] {
                        cx.run.violation_lazy("C02.exact", feats(&[("entry", name.into()), ("shape", "closer-peer-missing".into())]), wit);
                    }
                }
            }
        }
    }
    // table lists each peer at most once (union over all keys of count-64 answers from a duplicate-free walk
    // would list a peer as often as it is stored; we use the per-answer multiplicity)
    let _ = listed;
    hash64(&obs)
}

fn main() {
    let run = Run::new("C02", "model_checking");
    quiet_panics();
    let distinct = Distinct::default();
    let budget = Budget::new(Duration::from_secs(run.tier.pick(50, 1500)));

    // ---- family A: BFS over histories --------------------------------------------------------
    let id_alpha: Vec<u8> = run.tier.pick(
        vec![0x00, 0x80, 0xC0, 0x40, 0x60, 0x20, 0x10, 0x08],
        vec![0x00, 0x80, 0xC0, 0xA0, 0x40, 0x60, 0x20, 0x30, 0x10, 0x08, 0x04, 0x01],
    );
    let mut ops: Vec<Op> = Vec::new();
    for &x in &id_alpha {
        ops.push(Op::Join(x));
    }
    for &x in &id_alpha {
        ops.push(Op::Add(x));
    }
    for &x in &id_alpha {
        if x != 0 {
            ops.push(Op::Fail(x));
            ops.push(Op::Evict(x));
        }
    }
    ops.push(Op::AddNewAddr(0x80));
    let depth = run.tier.pick(9, 14); // fix-point is reached below these (set semantics: <= |ids| + 1 levels)
    let targets_a: Vec<u8> = {
        let mut t: Vec<u8> = (0..32u8).map(|i| i << 3).collect();
        t.extend([0x01u8, 0x81, 0xC1, 0x41, 0xFF]);
        t
    };
    let cx = Ctx { run: &run, distinct: &distinct, counts: run.tier.pick(COUNTS_QUICK.to_vec(), (0..=64).collect()) };
    let merge_mismatches = std::sync::atomic::AtomicU64::new(0);
    let stats = bfs(
        ops.len(),
        depth,
        &budget,
        |h: &[usize]| {
            let rt = tokio::runtime::Builder::new_current_thread().enable_all().build().unwrap();
            rt.block_on(async {
                let mut e = fresh_engine().await;
                let mut r = Ref::default();
                for &i in h {
                    apply(&mut e, &mut r, &ops[i]).await;
                }
                let hist = || json!(h.iter().map(|&i| op_json(&ops[i])).collect::<Vec<_>>());
                let obs = judge(&cx, &e, &r, &targets_a, &hist).await;
                // canon: per alphabet id, the stored copies (count + addresses) as listed by a count-64 query for
                // that id's own key. It is a function of the stored multiset; futures depend on bucket contents
                // only. `obs` (all answers for all targets/counts) must then agree between merged histories.
                let mut canon: Vec<(u8, usize, Vec<String>)> = Vec::new();
                for &x in &id_alpha {
                    let l = e.find_nodes(&DhtKey::from_bytes(idb(x)), 64).await.unwrap_or_default();
                    let mut addrs: Vec<String> = l.iter().filter(|n| x_of(n) == Some(x)).map(|n| n.address.clone()).collect();
                    let n = addrs.len();
                    addrs.sort();
                    addrs.dedup();
                    canon.push((x, n, addrs));
                }
                Some((canon, obs))
            })
        },
        |_a, _b| {
            // two histories that leave the same stored entries but answer differently: the answers are then not a
            // function of the table content, which the exactness clause reports on its own; a mismatch WITHOUT any
            // clause violation would mean the canonical form is wrong (machinery error, decided after the search)
            merge_mismatches.fetch_add(1, std::sync::atomic::Ordering::Relaxed);
        },
    );

    let mm = merge_mismatches.load(std::sync::atomic::Ordering::Relaxed);
    if mm > 0 {
        if run.violation_count() == 0 {
            run.machinery_error(format!("{mm} canonicalisation mismatches without any clause violation"));
        } else {
            run.info_n("merge-mismatches (equal stored entries, different answers)", mm);
        }
    }

    // ---- family B: bucket occupancy vectors -------------------------------------------------
    // bucket b (0..=4) holds 0, 1 or 8 peers (thorough: also 7), ids taken from the low or high end of the bucket.
    let occ_vals: Vec<usize> = run.tier.pick(vec![0, 1, 8], vec![0, 1, 7, 8]);
    let nb = 5usize;
    let mut tables: Vec<(Vec<usize>, bool)> = Vec::new();
    let total = occ_vals.len().pow(nb as u32);
    for code in 0..total {
        let mut c = code;
        let mut v = Vec::new();
        for _ in 0..nb {
            v.push(occ_vals[c % occ_vals.len()]);
            c /= occ_vals.len();
        }
        tables.push((v.clone(), false));
        if run.tier == Tier::Thorough {
            tables.push((v, true));
        }
    }
    let all_targets: Vec<u8> = (0..=255u8).collect();
    let occ_done = std::sync::atomic::AtomicU64::new(0);
    par_for(tables.len(), |i| {
        if budget.exceeded() {
            return;
        }
        let (occ, high) = &tables[i];
        let rt = tokio::runtime::Builder::new_current_thread().enable_all().build().unwrap();
        rt.block_on(async {
            let mut e = fresh_engine().await;
            let mut r = Ref::default();
            let mut members = Vec::new();
            for (b, &n) in occ.iter().enumerate() {
                let lo = 0x80u8 >> b; // first id of bucket b
                let size = lo as usize; // bucket b spans lo..2*lo
                for j in 0..n {
                    let x = if *high { (lo as usize + size - 1 - j) as u8 } else { (lo as usize + j) as u8 };
                    members.push(x);
                }
            }
            for &x in &members {
                apply(&mut e, &mut r, &Op::Join(x)).await;
            }
            let hist = || json!({"occupancy_buckets_0_to_4": occ, "ids_from_high_end": high, "built_by": "join_network"});
            judge(&cx, &e, &r, &all_targets, &hist).await;
        });
        occ_done.fetch_add(1, std::sync::atomic::Ordering::Relaxed);
    });
    let occ_done = occ_done.into_inner();

    // ---- family C: full bucket — a 9th peer is refused without changing the table, and admitted after an eviction
    let full_cases: Vec<(usize, usize)> = (0..=4usize).flat_map(|b| (0..2usize).map(move |v| (b, v))).collect();
    let full_done = std::sync::atomic::AtomicU64::new(0);
    par_for(full_cases.len(), |i| {
        let (b, via_add) = full_cases[i];
        let rt = tokio::runtime::Builder::new_current_thread().enable_all().build().unwrap();
        rt.block_on(async {
            let mut e = fresh_engine().await;
            let mut r = Ref::default();
            let lo = 0x80u8 >> b;
            let mut hist_ops: Vec<Op> = Vec::new();
            for j in 0..8u8 {
                hist_ops.push(if via_add == 1 { Op::Add(lo + j) } else { Op::Join(lo + j) });
            }
            // bucket 4 spans exactly 8 ids in this id space; for it the 9th id differs in byte 0 too (none left) -> skip the overflow step
            let ninth = if (lo as usize) > 8 { Some(lo + 8) } else { None };
            if let Some(n) = ninth {
                hist_ops.push(if via_add == 1 { Op::Add(n) } else { Op::Join(n) });
                hist_ops.push(Op::Evict(lo + 3));
                hist_ops.push(if via_add == 1 { Op::Add(n) } else { Op::Join(n) });
                hist_ops.push(Op::Fail(lo));
                hist_ops.push(Op::AddNewAddr(lo + 1));
            }
            let mut done: Vec<Op> = Vec::new();
            for op in &hist_ops {
                let ok = apply(&mut e, &mut r, op).await;
                done.push(op.clone());
                let hist = || json!({"full_bucket": b, "ops": done.iter().map(op_json).collect::<Vec<_>>(), "last_returned_ok": ok});
                judge(&cx, &e, &r, &all_targets, &hist).await;
                full_done.fetch_add(1, std::sync::atomic::Ordering::Relaxed);
            }
        });
    });
    let full_done = full_done.into_inner();
    if budget.was_hit() {
        run.cap_hit(format!("wall-clock budget; BFS completed depth {} of {}, occupancy tables {} of {}", stats.completed_depth, depth, occ_done, tables.len()));
        if stats.completed_depth == 0 {
            run.machinery_error("not even depth 1 completed");
        }
    }

    // ---- family D: the reply path of real DhtNetworkManagers (table + connected peers) -------------------
    // star / path / complete graphs; every node is asked FIND_NODE, FIND_VALUE and GET for every 4-bit target
    // prefix by every neighbour; also after one neighbour disconnected (table-only entry).
    use saorsa_core::dht_network_manager::{DhtMessageType, DhtNetworkMessage, DhtNetworkOperation, DhtNetworkResult};
    use vh::netsim::{NetCfg, build_net, dht_key_of, key_with_prefix, now_secs, paused_runtime, settle, xor_dist};
    let mut reply_cfgs: Vec<(NetCfg, bool)> = Vec::new();
    for n in run.tier.pick(vec![2usize, 3, 4, 11], vec![2, 3, 4, 5, 11, 14]) {
        let shapes: Vec<Vec<(usize, usize)>> = if n <= 4 { vh::netsim::connected_graphs(n) } else { vec![(1..n).map(|b| (0, b)).collect(), (0..n).flat_map(|a| (a + 1..n).map(move |b| (a, b))).collect()] };
        for g in shapes {
            let prefix: Vec<u32> = (0..n as u32).map(|i| (1 + i) % 16).collect();
            for disc in [false, true] {
                for app in [true, false] {
                    reply_cfgs.push((NetCfg { n, edges: g.clone(), prefix: prefix.clone(), bits: 4, k: 8, distinct_app_id: app, silent: vec![false; n] }, disc));
                }
            }
        }
    }
    let reply_queries = std::sync::atomic::AtomicU64::new(0);
    par_for(reply_cfgs.len(), |ci| {
        if budget.exceeded() {
            return;
        }
        let (cfg, disconnect_one) = &reply_cfgs[ci];
        let rt = paused_runtime();
        rt.block_on(async {
            let net = build_net(cfg).await;
            if *disconnect_one && cfg.n >= 3 {
                // node 0 drops its connection to its last neighbour: that peer stays in the table only
                if let Some((_, b)) = cfg.edges.iter().filter(|(a, _)| *a == 0).last() {
                    let _ = net.nodes[0].transport.disconnect_peer(&net.nodes[*b].tid_hex).await;
                    settle().await;
                }
            }
            for j in 0..cfg.n {
                let neighbours: Vec<usize> = (0..cfg.n).filter(|x| cfg.edges.iter().any(|(a, b)| (*a == j && b == x) || (*b == j && a == x))).collect();
                let Some(&req) = neighbours.first() else { continue };
                for tp in 0..16u32 {
                    let key = key_with_prefix(tp, 4, 300 + tp);
                    for (opname, op) in [("find_node", DhtNetworkOperation::FindNode { key }), ("find_value", DhtNetworkOperation::FindValue { key }), ("get", DhtNetworkOperation::Get { key })] {
                        let msg = DhtNetworkMessage { message_id: format!("q{tp}"), source: net.nodes[req].app_id.clone(), target: None, message_type: DhtMessageType::Request, payload: op, result: None, timestamp: now_secs(), ttl: 10, hop_count: 0 };
                        let bytes = postcard::to_stdvec(&msg).unwrap();
                        let r = net.nodes[j].mgr.handle_dht_message(&bytes, &net.nodes[req].tid_hex).await;
                        reply_queries.fetch_add(1, std::sync::atomic::Ordering::Relaxed);
                        distinct.eval();
                        let Ok(Some(rb)) = r else { continue };
                        let Ok(m) = postcard::from_bytes::<DhtNetworkMessage>(&rb) else { continue };
                        let nodes = match m.result {
                            Some(DhtNetworkResult::NodesFound { nodes, .. }) => nodes,
                            _ => Vec::new(),
                        };
                        let ids: Vec<Option<usize>> = nodes.iter().map(|nd| net.ident(&nd.peer_id)).collect();
                        distinct.outcome(&(j, tp, opname, &ids));
                        let wit = || json!({"config": cfg.json(), "one_neighbour_of_node0_disconnected": disconnect_one, "replying_node": j, "requester": req, "operation": opname, "target_prefix": tp,
                                            "reply": nodes.iter().map(|nd| json!({"peer_id": net.names.get(&nd.peer_id).cloned().unwrap_or(nd.peer_id.clone()), "address": nd.address})).collect::<Vec<_>>()});
                        let fe = |shape: &str| feats(&[("entry", format!("handle_dht_message({opname})")), ("shape", shape.into())]);
                        if nodes.len() > 20 {
                            run.violation_lazy("C02.cap", fe("reply-above-protocol-cap"), || (wit(), format!("reply lists {} nodes", nodes.len())));
                        }
                        // each peer once, under a single identifier
                        let known: Vec<usize> = ids.iter().flatten().copied().collect();
                        let mut seen = BTreeSet::new();
                        if known.iter().any(|i| !seen.insert(*i)) {
                            run.violation_lazy("C02.single-id", fe("same-peer-under-two-identifiers"), || (wit(), "reply names one peer twice (under two identifiers)".to_string()));
                        }
                        if known.contains(&j) {
                            run.violation_lazy("C02.reply", fe("replying-node-lists-itself"), || (wit(), "reply lists the replying node".to_string()));
                        }
                        // exactness over everything node j knows: its neighbours (requester may be omitted)
                        let mut want: Vec<usize> = neighbours.clone();
                        want.sort_by_key(|i| xor_dist(&dht_key_of(&net.nodes[*i].tid_hex), &key));
                        let want_no_req: Vec<usize> = want.iter().copied().filter(|i| *i != req).collect();
                        let cap = 8usize;
                        let a: Vec<usize> = want.iter().copied().take(cap).collect();
                        let b: Vec<usize> = want_no_req.iter().copied().take(cap).collect();
                        let mut dedup: Vec<usize> = Vec::new();
                        for i in &known {
                            if !dedup.contains(i) {
                                dedup.push(*i);
                            }
                        }
                        if !nodes.is_empty() && dedup != a && dedup != b {
                            let shape = if dedup.len() < b.len() { "fewer-than-the-k-closest-known" } else { "not-the-k-closest-known" };
                            run.violation_lazy("C02.reply", fe(shape), || (wit(), format!("reply {dedup:?}, the closest known peers are {a:?} (without the requester {b:?})")));
                        }
                        if nodes.is_empty() && !b.is_empty() && opname == "find_node" {
                            run.violation_lazy("C02.reply", fe("empty-reply-although-peers-known"), || (wit(), "empty node list although the node knows peers".to_string()));
                        }
                    }
                }
            }
        });
    });
    let reply_queries = reply_queries.into_inner();

    let samples: Vec<_> = stats.sample_histories.iter().map(|h| json!(h.iter().map(|&i| op_json(&ops[i])).collect::<Vec<_>>())).collect();
    let coverage = cov(vec![
        ("states", json!(stats.states + occ_done + full_done)),
        ("transitions", json!(stats.transitions + occ_done + full_done)),
        ("traces_validated_against_impl", json!(stats.transitions + occ_done + full_done)),
        ("samples", json!(samples)),
        ("exhaustive", json!(!budget.was_hit())),
        ("evaluations", json!(distinct.evaluations())),
        ("distinct_nontrivial", json!(distinct.distinct())),
        ("rule", json!("evaluation = one closest-node query (entry point, target, count) on a reached table; distinct = distinct (entry, target, count, answer) tuples")),
        ("bounds", json!({"bfs_depth": depth, "bfs_completed_depth": stats.completed_depth, "fixpoint": stats.fixpoint, "alphabet_ops": ops.len(), "ids": id_alpha.iter().map(|x| format!("{x:#04x}")).collect::<Vec<_>>(),
                           "bfs_states": stats.states, "bfs_transitions": stats.transitions, "revisits_compared": stats.revisits, "frontier_sizes": stats.frontier_sizes,
                           "occupancy_tables": occ_done, "full_bucket_steps": full_done, "reply_path_configs": reply_cfgs.len(), "reply_path_queries": reply_queries, "occupancy_values": occ_vals, "targets_bfs": targets_a.len(), "targets_occupancy": 256, "counts": cx.counts})),
    ]);
    run.finish(
        coverage,
        vec![
            "every transition is an execution of the real DhtCoreEngine rebuilt by replay; reference = sorted set of ids whose insert returned Ok".into(),
            "ids differ from the local id in byte 0 only (8-bit id space); distances in lower bytes are not exercised".into(),
            "LogOnly close-group validation (the DhtNetworkManager configuration); IP/geo gates are kept non-binding by distinct /8 addresses".into(),
            "reply path: real DhtNetworkManagers on the in-memory wire, every connected graph of N<=4 plus stars/meshes of 11 (thorough 14) nodes, 16 target prefixes x 3 request kinds, with and without a table-only (disconnected) peer; the requester may or may not be excluded".into(),
        ],
    );
}
