//! C03 — put stores on every replica it reports; get returns only stored bytes.
//!
//! All sequences (length <= tier bound) of put/get operations issued from every node over two keys
//! and four value sizes, on every connected graph of N real nodes with every subset of peers silent, are
//! executed on real DhtNetworkManagers over the in-memory wire; after every operation every node's local
//! store is probed and compared with the ground truth kept by the harness from the trace.
use saorsa_core::dht::core_engine::{DhtCoreEngine, DhtKey, DhtRequestWrapper, NodeId};
use saorsa_core::dht::network_integration::{DhtMessage, DhtResponse};
use saorsa_core::dht_network_manager::{DhtMessageType, DhtNetworkMessage, DhtNetworkOperation, DhtNetworkResult};
use serde_json::{Value, json};
use std::collections::{BTreeMap, BTreeSet};
use std::sync::atomic::{AtomicU64, Ordering};
use std::time::Duration;
use vh::core::*;
use vh::netsim::*;

#[derive(Clone, Debug, PartialEq, Eq, Hash)]
enum Op {
    Put { node: usize, key: usize, val: usize },
    Get { node: usize, key: usize },
    PutTargets { node: usize, key: usize, val: usize },
}

fn value(v: usize, opidx: usize) -> Vec<u8> {
    // distinct content per (size class, operation position) so that every stored byte string identifies its put
    let tag = (0x10 * (v as u8 + 1)) ^ opidx as u8;
    match v {
        0 => vec![],
        1 => vec![tag; 512],
        2 => vec![tag; 513],
        _ => vec![tag; 8],
    }
}

fn opj(o: &Op, idx: usize) -> Value {
    match o {
        Op::Put { node, key, val } => json!({"put": {"node": node, "key": key, "value_len": value(*val, idx).len()}}),
        Op::Get { node, key } => json!({"get": {"node": node, "key": key}}),
        Op::PutTargets { node, key, val } => json!({"put_with_targets(all connected peers)": {"node": node, "key": key, "value_len": value(*val, idx).len()}}),
    }
}

struct Ctx<'a> {
    run: &'a Run,
    distinct: &'a Distinct,
    execs: &'a AtomicU64,
}

fn run_one(cx: &Ctx<'_>, cfg: &NetCfg, ops: &[Op], prefix: &[usize], allow_dev: bool) -> Exec {
    let rt = paused_runtime();
    let out = rt.block_on(async {
        let net = build_net(cfg).await;
        let world = &net.world;
        let keys = [key_with_prefix(0, cfg.bits, 71), key_with_prefix((1 << cfg.bits) - 1, cfg.bits, 72)];
        let mut ch = Chooser::new(prefix);
        ch.allow_drop = allow_dev;
        ch.allow_reorder = allow_dev;
        ch.allow_early_time = allow_dev;
        // ground truth: values submitted under each key (any put, acknowledged or not)
        let mut submitted: BTreeMap<usize, BTreeSet<Vec<u8>>> = BTreeMap::new();
        let mut obs: Vec<String> = Vec::new();
        let wit = |extra: Value, upto: usize| json!({"config": cfg.json(), "ops": ops.iter().enumerate().map(|(i, o)| opj(o, i)).collect::<Vec<_>>(), "failed_at_op": upto, "schedule": prefix, "detail": extra, "trace": trace_json(&world.trace(), &net.names)});
        let fe = |shape: &str, entry: &str| feats(&[("shape", shape.into()), ("entry", entry.into()), ("app_id", if cfg.distinct_app_id { "distinct".into() } else { "same".into() })]);
        for (oi, op) in ops.iter().enumerate() {
            let tstart = world.trace().len();
            let (node, key) = match op {
                Op::Put { node, key, .. } | Op::Get { node, key } | Op::PutTargets { node, key, .. } => (*node, *key),
            };
            let me = &net.nodes[node];
            let k = keys[key];
            // differential for the targets clause: the lookup result this node computes for the key right now
            let lookup_before = if matches!(op, Op::Put { .. }) && prefix.is_empty() {
                let m = me.mgr.clone();
                let kk = cfg.k;
                let h = tokio::spawn(async move { m.find_closest_nodes(&k, kk).await });
                let mut c0 = Chooser::new(&[]);
                let hh = &h;
                let _ = drive(world, &mut c0, &|| hh.is_finished(), Duration::from_secs(600), &|| vec![], &mut |_| {}, &mut |_| {}).await;
                h.await.ok().and_then(|r| r.ok())
            } else {
                None
            };
            let tstart2 = world.trace().len();
            let m = me.mgr.clone();
            let opc = op.clone();
            let val = match op {
                Op::Put { val, .. } | Op::PutTargets { val, .. } => Some(value(*val, oi)),
                _ => None,
            };
            if let Some(v) = &val {
                submitted.entry(key).or_default().insert(v.clone());
            }
            let targets: Vec<String> = me.transport.connected_peers().await;
            let v2 = val.clone();
            let h = tokio::spawn(async move {
                match opc {
                    Op::Put { .. } => m.put(k, v2.unwrap()).await,
                    Op::Get { .. } => m.get(&k).await,
                    Op::PutTargets { .. } => m.put_with_targets(k, v2.unwrap(), &targets).await,
                }
            });
            let hh = &h;
            let ok = drive(world, &mut ch, &|| hh.is_finished(), Duration::from_secs(900), &|| vec![], &mut |_| {}, &mut |_| {}).await;
            cx.distinct.eval();
            if ch.diverged() {
                // the recorded prefix could not be replayed: not an execution of the explored space, not judged
                h.abort();
                break;
            }
            if !ok || !h.is_finished() {
                cx.run.violation_lazy("C03.term", fe("operation-did-not-finish", "put/get"), || (wit(json!({}), oi), "operation did not complete within the horizon".to_string()));
                h.abort();
                break;
            }
            let res = h.await.map_err(|e| e.to_string()).and_then(|r| r.map_err(|e| e.to_string()));
            let tr: Vec<Ev> = world.trace()[tstart2..].to_vec();
            let _ = tstart;
            let my_ids: BTreeSet<String> = [me.tid_hex.clone(), me.app_id.clone(), hex::encode(me.pos), hex::encode(me.self_pos)].into_iter().collect();
            // attempts / requests of this node during the op
            let mut put_sent: Vec<String> = Vec::new();
            let mut put_attempts_after_lookup: Vec<String> = Vec::new();
            let mut req_count = 0usize;
            let mut attempts: Vec<String> = Vec::new();
            let mut queried: BTreeSet<usize> = BTreeSet::new();
            for e in &tr {
                match e {
                    Ev::Sent { from, to, kind, .. } if *from == me.tid_hex && kind.starts_with("dht-req") => {
                        req_count += 1;
                        if kind == "dht-req-put" {
                            put_sent.push(to.clone());
                        }
                        if let Some(i) = net.ident(to) {
                            queried.insert(i);
                        }
                    }
                    Ev::SendAttempt { from, to, .. } if *from == me.tid_hex => {
                        attempts.push(to.clone());
                        if let Some(i) = net.ident(to) {
                            queried.insert(i);
                        }
                    }
                    _ => {}
                }
            }
            // send attempts that are not followed by a Sent frame to the same id are refused attempts; those made for PUTs
            // cannot be told from lookups by the attempt alone, so self-addressing is judged on all attempts
            let _ = &mut put_attempts_after_lookup;
            if let Some(t) = attempts.iter().find(|t| my_ids.contains(*t)) {
                let t = t.clone();
                cx.run.violation_lazy("C03.targets", fe("addresses-itself", match op { Op::Put { .. } => "put", Op::Get { .. } => "get", Op::PutTargets { .. } => "put_with_targets" }), || {
                    (wit(json!({"addressed": net.names.get(&t).cloned().unwrap_or(t.clone())}), oi), format!("node {node} addressed a message to its own identity {}", net.names.get(&t).cloned().unwrap_or(t.clone())))
                });
            }
            match (&res, op) {
                (Ok(DhtNetworkResult::PutSuccess { peer_outcomes, replicated_to, .. }), Op::Put { .. } | Op::PutTargets { .. }) => {
                    let v = val.clone().unwrap();
                    obs.push(format!("put-ok:{}:{}", replicated_to, peer_outcomes.iter().filter(|o| o.success).count()));
                    if v.len() > 512 {
                        cx.run.violation_lazy("C03.size", fe("oversized-put-accepted", "DhtNetworkManager::put"), || (wit(json!({"len": v.len()}), oi), format!("put of {} bytes succeeded", v.len())));
                    }
                    // local
                    let got = me.mgr.get_local(&k).await.ok().flatten();
                    if got.as_ref() != Some(&v) {
                        let shape = if got.is_none() { "not-stored-locally" } else { "other-bytes-locally" };
                        cx.run.violation_lazy("C03.local", fe(shape, "put"), || (wit(json!({"local_value_len": got.as_ref().map(|g| g.len())}), oi), format!("put acknowledged but the putter's own store holds {:?}", got.as_ref().map(|g| g.len()))));
                    }
                    // replicas
                    for o in peer_outcomes {
                        if !o.success {
                            continue;
                        }
                        match net.ident(&o.peer_id) {
                            Some(i) => {
                                let g = net.nodes[i].mgr.get_local(&k).await.ok().flatten();
                                if g.as_ref() != Some(&v) {
                                    let shape = if g.is_none() { "replica-does-not-hold-value" } else { "replica-holds-other-bytes" };
                                    cx.run.violation_lazy("C03.replica", fe(shape, "put"), || (wit(json!({"replica": i, "replica_value_len": g.as_ref().map(|x| x.len())}), oi), format!("N{i} reported as successful replica but holds {:?}", g.as_ref().map(|x| x.len()))));
                                }
                            }
                            None => {
                                cx.run.violation_lazy("C03.replica", fe("unknown-replica-reported", "put"), || (wit(json!({"replica": o.peer_id}), oi), "a successful replica that is no node of the network".to_string()));
                            }
                        }
                    }
                    // targets = remote members of the lookup result (default schedule only)
                    if let (Some(lk), Op::Put { .. }) = (&lookup_before, op) {
                        let want: BTreeSet<usize> = lk.iter().filter_map(|n| net.ident(&n.peer_id)).filter(|i| *i != node).collect();
                        let got: BTreeSet<usize> = put_sent.iter().filter_map(|t| net.ident(t)).collect();
                        if want != got {
                            let shape = if got.is_subset(&want) { "lookup-member-not-targeted" } else { "non-member-targeted" };
                            cx.run.violation_lazy("C03.targets", fe(shape, "put"), || (wit(json!({"lookup_remote_members": want, "put_destinations": got}), oi), format!("PUT sent to {got:?}, the lookup's remote members are {want:?}")));
                        }
                    }
                }
                (Err(e), Op::Put { .. } | Op::PutTargets { .. }) => {
                    obs.push("put-err".into());
                    let v = val.clone().unwrap();
                    if v.len() <= 512 {
                        cx.run.info("C03.info.valid-put-returned-error");
                        let _ = e;
                    }
                }
                (Ok(DhtNetworkResult::GetSuccess { value: got, .. }), Op::Get { .. }) => {
                    obs.push(format!("get-ok:{}", got.len()));
                    let okv = submitted.get(&key).map(|s| s.contains(got)).unwrap_or(false);
                    if !okv {
                        let other = submitted.iter().any(|(k2, s)| *k2 != key && s.contains(got));
                        let shape = if other { "bytes-of-another-key" } else { "bytes-never-put" };
                        cx.run.violation_lazy("C03.get", fe(shape, "get"), || (wit(json!({"returned_len": got.len()}), oi), format!("get returned {} bytes that were never put under this key", got.len())));
                    }
                }
                (Ok(DhtNetworkResult::GetNotFound { .. }), Op::Get { .. }) => {
                    obs.push("get-notfound".into());
                    // every identity learned during the get was queried or failed, or the budget ran out
                    let mut learned: BTreeSet<usize> = BTreeSet::new();
                    for p in me.mgr.find_closest_nodes_local(&k, 64).await {
                        if let Some(i) = net.ident(&p.peer_id) {
                            learned.insert(i);
                        }
                    }
                    let delivered = world.with(|w| w.delivered.clone());
                    for fr in delivered.iter().filter(|f| f.dst == me.tid_hex) {
                        if let Some(DhtNetworkMessage { result: Some(DhtNetworkResult::NodesFound { nodes, .. }), message_type: DhtMessageType::Response, .. }) = &fr.info.dht {
                            for nd in nodes {
                                if let Some(i) = net.ident(&nd.peer_id) {
                                    learned.insert(i);
                                }
                            }
                        }
                    }
                    learned.remove(&node);
                    let unasked: Vec<usize> = learned.iter().filter(|i| !queried.contains(i)).cloned().collect();
                    if !unasked.is_empty() && attempts.len() < 20 {
                        // only judged if the value exists on an unasked node (otherwise not-found is the right answer anyway,
                        // but the statement still requires the queries) -> judged regardless, feature says which
                        let mut holders = Vec::new();
                        for i in &unasked {
                            if net.nodes[*i].mgr.get_local(&k).await.ok().flatten().is_some() {
                                holders.push(*i);
                            }
                        }
                        let shape = if holders.is_empty() { "known-peer-never-asked" } else { "known-peer-holding-the-value-never-asked" };
                        cx.run.violation_lazy("C03.notfound", fe(shape, "get"), || (wit(json!({"unasked": unasked, "holders_among_them": holders}), oi), format!("not-found reported although known peers {unasked:?} were never queried")));
                    }
                }
                (Ok(other), _) => {
                    obs.push("unexpected".into());
                    let s = format!("{other:?}");
                    cx.run.violation_lazy("C03.result", fe("unexpected-result-variant", "put/get"), || (wit(json!({"result": s.chars().take(200).collect::<String>()}), oi), "unexpected result variant".to_string()));
                }
                (Err(_), Op::Get { .. }) => obs.push("get-err".into()),
            }
            obs.push(format!("req={req_count}"));
            // every store of every node: size cap and provenance
            for (i, nd) in net.nodes.iter().enumerate() {
                for (ki, kk) in keys.iter().enumerate() {
                    if let Ok(Some(v)) = nd.mgr.get_local(kk).await {
                        if v.len() > 512 {
                            cx.run.violation_lazy("C03.size", fe("store-holds-more-than-512-bytes", "any"), || (wit(json!({"node": i, "len": v.len()}), oi), format!("N{i} holds {} bytes", v.len())));
                        }
                        if !submitted.get(&ki).map(|s| s.contains(&v)).unwrap_or(false) {
                            let other = submitted.iter().any(|(k2, s)| *k2 != ki && s.contains(&v));
                            let shape = if other { "store-holds-bytes-of-another-key" } else { "store-holds-bytes-never-put" };
                            cx.run.violation_lazy("C03.get", fe(shape, "store-probe"), || (wit(json!({"node": i, "key": ki, "len": v.len()}), oi), format!("N{i} holds bytes under key {ki} that were not put under it")));
                        }
                    }
                }
            }
        }
        cx.distinct.outcome(&obs);
        Exec { diverged: ch.diverged(), points: ch.points, obs: hash64(&obs) }
    });
    cx.execs.fetch_add(1, Ordering::Relaxed);
    out
}

/// Store paths that need no network: remote PUT handler and the core engine request handler with 600 bytes.
fn direct_size_checks(cx: &Ctx<'_>) -> u64 {
    let rt = paused_runtime();
    rt.block_on(async {
        let cfg = NetCfg { n: 2, edges: vec![(0, 1)], prefix: vec![1, 2], bits: 4, k: 2, distinct_app_id: true, silent: vec![false, false] };
        let net = build_net(&cfg).await;
        let mut n = 0u64;
        for len in [0usize, 1, 511, 512, 513, 600, 65_000] {
            let key = key_with_prefix(3, 4, 90 + len as u32);
            // (1) remote PUT handler through handle_dht_message
            let msg = DhtNetworkMessage { message_id: format!("m{len}"), source: net.nodes[1].app_id.clone(), target: None, message_type: DhtMessageType::Request, payload: DhtNetworkOperation::Put { key, value: vec![7u8; len] }, result: None, timestamp: now_secs(), ttl: 10, hop_count: 0 };
            let bytes = postcard::to_stdvec(&msg).unwrap();
            let r = net.nodes[0].mgr.handle_dht_message(&bytes, &net.nodes[1].tid_hex).await;
            let held = net.nodes[0].mgr.get_local(&key).await.ok().flatten();
            cx.distinct.eval();
            cx.distinct.outcome(&("remote-put", len, r.is_ok(), held.is_some()));
            n += 1;
            if len > 512 && (held.is_some() || matches!(&r, Ok(Some(_)))) {
                cx.run.violation_lazy("C03.size", feats(&[("shape", "oversized-remote-put-accepted".into()), ("entry", "handle_dht_message(Put)".into())]), || (json!({"len": len, "held": held.is_some()}), format!("remote PUT of {len} bytes was not refused")));
            }
            if len <= 512 && held.as_deref() != Some(&vec![7u8; len][..]) {
                cx.run.violation_lazy("C03.replica", feats(&[("shape", "replica-does-not-hold-value".into()), ("entry", "handle_dht_message(Put)".into())]), || (json!({"len": len}), format!("remote PUT handler acknowledged {len} bytes but the store does not hold them")));
            }
            // (2) core engine request handler
            let eng = DhtCoreEngine::new(NodeId::from_bytes([9u8; 32])).unwrap();
            let k2 = DhtKey::from_bytes(key);
            let rsp = eng.handle_request(DhtRequestWrapper { id: "x".into(), message: DhtMessage::Store { key: k2.clone(), value: vec![5u8; len], ttl: Duration::from_secs(60) } }).await;
            let acked = matches!(rsp.response, DhtResponse::StoreAck { .. });
            let got = eng.retrieve(&k2).await.ok().flatten();
            cx.distinct.eval();
            cx.distinct.outcome(&("engine-store", len, acked, got.is_some()));
            n += 1;
            if len > 512 && (acked || got.is_some()) {
                cx.run.violation_lazy("C03.size", feats(&[("shape", "oversized-store-accepted".into()), ("entry", "DhtCoreEngine::handle_request(Store)".into())]), || (json!({"len": len}), format!("engine stored {len} bytes")));
            }
            // (3) engine store()
            let mut eng2 = DhtCoreEngine::new(NodeId::from_bytes([8u8; 32])).unwrap();
            let r3 = eng2.store(&k2, vec![6u8; len]).await;
            cx.distinct.eval();
            n += 1;
            if len > 512 && r3.is_ok() {
                cx.run.violation_lazy("C03.size", feats(&[("shape", "oversized-store-accepted".into()), ("entry", "DhtCoreEngine::store".into())]), || (json!({"len": len}), format!("engine store() accepted {len} bytes")));
            }
        }
        n
    })
}

fn main() {
    let run = Run::new("C03", "model_checking");
    quiet_panics();
    let distinct = Distinct::default();
    let execs = AtomicU64::new(0);
    let budget = Budget::new(Duration::from_secs(run.tier.pick(50, 1700)));
    let thorough = run.tier == Tier::Thorough;
    let cx = Ctx { run: &run, distinct: &distinct, execs: &execs };
    // configurations x operation sequences
    let mut work: Vec<(NetCfg, Vec<Op>, usize)> = Vec::new();
    let max_n = run.tier.pick(3, 4);
    for n in 2..=max_n {
        for g in connected_graphs(n) {
            // node positions: prefixes 1.. ; key 0 has prefix 0 (closest to node 0), key 1 prefix 15 (closest to the last)
            let prefix: Vec<u32> = (0..n as u32).map(|i| 1 + 3 * i).collect();
            let mut silent_sets: Vec<Vec<bool>> = vec![vec![false; n]];
            for s in 1..n {
                let mut v = vec![false; n];
                v[s] = true;
                silent_sets.push(v);
            }
            if thorough {
                for mask in 0..(1u32 << n) {
                    let v: Vec<bool> = (0..n).map(|i| mask >> i & 1 == 1).collect();
                    if v.iter().filter(|x| **x).count() >= 2 {
                        silent_sets.push(v);
                    }
                }
            }
            for silent in silent_sets {
                for distinct_app in [true, false] {
                    let cfg = NetCfg { n, edges: g.clone(), prefix: prefix.clone(), bits: 4, k: 2, distinct_app_id: distinct_app, silent: silent.clone() };
                    let mut singles: Vec<Op> = Vec::new();
                    for node in 0..n {
                        if silent[node] {
                            continue;
                        }
                        for key in 0..2 {
                            for val in 0..4 {
                                if val == 2 && key == 1 {
                                    continue;
                                }
                                singles.push(Op::Put { node, key, val });
                            }
                            singles.push(Op::Get { node, key });
                        }
                        singles.push(Op::PutTargets { node, key: 0, val: 3 });
                    }
                    // length 1
                    for o in &singles {
                        work.push((cfg.clone(), vec![o.clone()], if n <= 2 { 1 } else { 0 }));
                    }
                    // length 2: a put followed by any get / second put on the same key (distinct_app only, to bound the sweep)
                    if distinct_app {
                        for a in singles.iter().filter(|o| matches!(o, Op::Put { val, .. } if *val != 2)) {
                            for b in &singles {
                                let (ka, kb) = match (a, b) {
                                    (Op::Put { key: ka, .. }, Op::Put { key: kb, .. } | Op::Get { key: kb, .. } | Op::PutTargets { key: kb, .. }) => (*ka, *kb),
                                    _ => continue,
                                };
                                if matches!(b, Op::Put { val, .. } if *val == 2) {
                                    continue;
                                }
                                if !thorough && n == 3 && ka != kb && !matches!(b, Op::Get { .. }) {
                                    continue;
                                }
                                work.push((cfg.clone(), vec![a.clone(), b.clone()], 0));
                            }
                        }
                    }
                    // length 3 (thorough): put, put (other node, same key), get
                    if thorough && distinct_app && n <= 3 {
                        for a in singles.iter().filter(|o| matches!(o, Op::Put { val: 3, .. })) {
                            for b in singles.iter().filter(|o| matches!(o, Op::Put { val: 1, .. })) {
                                for c in singles.iter().filter(|o| matches!(o, Op::Get { .. })) {
                                    work.push((cfg.clone(), vec![a.clone(), b.clone(), c.clone()], 0));
                                }
                            }
                        }
                    }
                }
            }
        }
    }
    let parent = run.fan_out(n_workers());
    let mut total = ExploreStats::default();
    let mut done = 0u64;
    let mut samples: Vec<Value> = Vec::new();
    let mut direct = 0u64;
    if parent.is_none() {
        if run.shard().0 == 0 {
            direct = direct_size_checks(&cx);
        }
        for (wi, (cfg, ops, bound)) in work.iter().enumerate() {
            if !run.mine(wi) {
                continue;
            }
            if budget.exceeded() {
                break;
            }
            let mut f = |p: &[usize]| run_one(&cx, cfg, ops, p, *bound > 0);
            let st = explore(*bound, &budget, &mut f);
            if done == 0 {
                let a = run_one(&cx, cfg, ops, &[], *bound > 0);
                let b = run_one(&cx, cfg, ops, &[], *bound > 0);
                if a.obs != b.obs || a.points.len() != b.points.len() {
                    run.machinery_error(format!("replay self-check failed on {:?} {:?}", cfg.json(), ops));
                }
            }
            if st.diverged > 0 {
                run.machinery_error(format!("{} executions diverged while replaying a prefix", st.diverged));
            }
            total.executions += st.executions;
            total.choice_points += st.choice_points;
            total.max_len = total.max_len.max(st.max_len);
            if samples.len() < 2 {
                samples.push(json!({"config": cfg.json(), "ops": ops.iter().enumerate().map(|(i, o)| opj(o, i)).collect::<Vec<_>>(), "executions": st.executions}));
            }
            done += 1;
        }
        if budget.was_hit() {
            run.cap_hit(format!("wall-clock budget: worker {:?} completed {done} work items", run.shard()));
        }
        if run.is_child() {
            run.finish(cov(vec![("_distinct", distinct.export()), ("executions", json!(total.executions)), ("choice_points", json!(total.choice_points)), ("max_len", json!(total.max_len)), ("items", json!(done)), ("direct", json!(direct)), ("samples", json!(samples)), ("budget_hit", json!(budget.was_hit()))]), vec![]);
        }
    }
    let covs = parent.unwrap_or_default();
    for c in &covs {
        if let Some(d) = c.get("_distinct") {
            distinct.import(d);
        }
        if let Some(a) = c.get("samples").and_then(|v| v.as_array()) {
            for x in a {
                if samples.len() < 4 {
                    samples.push(x.clone());
                }
            }
        }
    }
    let executions = sum_cov(&covs, "executions") + total.executions;
    let points = sum_cov(&covs, "choice_points") + total.choice_points;
    let items = sum_cov(&covs, "items") + done;
    let any_budget = covs.iter().any(|c| c.get("budget_hit").and_then(|v| v.as_bool()).unwrap_or(false)) || budget.was_hit();
    if items == 0 {
        run.machinery_error("no work item completed");
    }
    let coverage = cov(vec![
        ("states", json!(points.max(1))),
        ("transitions", json!(points.max(1))),
        ("traces_validated_against_impl", json!(executions)),
        ("samples", json!(samples)),
        ("exhaustive", json!(!any_budget)),
        ("evaluations", json!(distinct.evaluations())),
        ("distinct_nontrivial", json!(distinct.distinct())),
        ("rule", json!("states/transitions = scheduler choice points executed on the real nodes; evaluation = one judged operation; distinct = distinct per-history observation vectors (result kinds, replica counts, request counts)")),
        ("bounds", json!({"work_items_total": work.len(), "work_items_completed": items, "executions": executions, "max_nodes": max_n, "k": 2, "value_sizes": [0, 512, 513, 8], "keys": 2,
                           "direct_store_path_checks": sum_cov(&covs, "direct") + direct, "deviation_bound": "1 on N=2 single-operation items, 0 elsewhere"})),
    ]);
    run.finish(
        coverage,
        vec![
            "operations of one history run one after the other (concurrent operations are C20's subject)".into(),
            "targets clause: differential against the lookup the same node computes immediately before the put (default schedule only), plus 'never addresses itself' on every send attempt".into(),
            "get provenance: bytes must have been submitted by some put of this history under the same key".into(),
        ],
    );
}
