//! C04 — replies reach only the matching request from the contacted peer; no leaks.
//!
//! One real node A (DhtNetworkManager + TransportHandle) with two scripted connected peers B, C and an
//! unconnected identity D. A starts every non-empty subset of three requests (DHT Ping to B, DHT FindNode
//! to C, application request/response to B); then EVERY sequence of events up to the tier's length from the
//! menu {correct reply, same id from the other peer, same id from an unconnected identity, unknown id,
//! reply without result, id echoed as request/broadcast/error, id carried by the other protocol, abort of
//! the requesting task, time passing the timeout, release of a held send} is applied, and the outcome of
//! every request plus the pending-table sizes are compared with a reference model after every event.
use saorsa_core::dht_network_manager::{DhtMessageType, DhtNetworkMessage, DhtNetworkOperation, DhtNetworkResult};
use saorsa_core::network::P2PEvent;
use saorsa_core::verif_hooks;
use serde_json::{Value, json};
use std::sync::atomic::{AtomicU64, Ordering};
use std::time::Duration;
use vh::core::*;
use vh::netsim::*;

#[derive(Clone, Copy, Debug, PartialEq, Eq, Hash)]
enum Req {
    DhtPingB,
    DhtFindC,
    RrB,
}
const REQS: [Req; 3] = [Req::DhtPingB, Req::DhtFindC, Req::RrB];

#[derive(Clone, Copy, Debug, PartialEq, Eq, Hash)]
enum E {
    Ok(usize),
    WrongPeer(usize),
    /// same id from the other connected peer, whose payload claims the contacted peer as its source
    WrongPeerSpoof(usize),
    Unconnected(usize),
    NoResult(usize),
    AsRequest(usize),
    AsBroadcast(usize),
    AsError(usize),
    CrossProtocol(usize),
    Abort(usize),
    UnknownDht,
    UnknownRr,
    Time,
    Release,
}

#[derive(Clone, Debug, PartialEq)]
enum Outcome {
    Pending,
    Reply(String),
    Timeout,
    SendError,
    Aborted,
    OtherError(String),
}

fn ev_json(e: &E, reqs: &[Req]) -> Value {
    let q = |i: &usize| format!("{:?}", reqs[*i]);
    match e {
        E::Ok(i) => json!({"correct_reply_for": q(i)}),
        E::WrongPeer(i) => json!({"same_id_from_other_connected_peer": q(i)}),
        E::WrongPeerSpoof(i) => json!({"same_id_from_other_connected_peer_claiming_the_contacted_peer_as_source": q(i)}),
        E::Unconnected(i) => json!({"same_id_from_unconnected_identity": q(i)}),
        E::NoResult(i) => json!({"response_without_result": q(i)}),
        E::AsRequest(i) => json!({"id_echoed_as_request": q(i)}),
        E::AsBroadcast(i) => json!({"id_echoed_as_broadcast": q(i)}),
        E::AsError(i) => json!({"id_echoed_as_error": q(i)}),
        E::CrossProtocol(i) => json!({"id_carried_by_the_other_protocol": q(i)}),
        E::Abort(i) => json!({"abort_requesting_task": q(i)}),
        E::UnknownDht => json!("dht_response_with_unknown_id"),
        E::UnknownRr => json!("rr_response_with_unknown_id"),
        E::Time => json!("time_passes_the_timeout"),
        E::Release => json!("release_held_sends"),
    }
}

struct Ctx<'a> {
    run: &'a Run,
    distinct: &'a Distinct,
}

const RR_TIMEOUT: Duration = Duration::from_secs(5);

fn run_seq(cx: &Ctx<'_>, reqs: &[Req], seq: &[E], held: bool) -> u64 {
    let rt = paused_runtime();
    rt.block_on(async {
        verif_hooks::clear_sockets();
        let world = World::new();
        let a = make_node(&world, 0, &NodeSpec { tid: tid_with_prefix(1, 4, 0), app_id: Some(app_id_with_prefix(1, 4, 100)), k: 8 }).await;
        let b_tid = tid_with_prefix(2, 4, 1);
        let c_tid = tid_with_prefix(3, 4, 2);
        let d_tid = tid_with_prefix(4, 4, 3);
        let (bh, chx) = (hex::encode(b_tid), hex::encode(c_tid));
        world.add_endpoint(b_tid, node_addr(1), true);
        world.add_endpoint(c_tid, node_addr(2), true);
        let _ = a.transport.connect_peer(&node_addr(1).to_string()).await;
        let _ = a.transport.connect_peer(&node_addr(2).to_string()).await;
        settle().await;
        let mut events_rx = a.transport.subscribe_events();
        if held {
            world.with(|w| w.eps.get_mut(&a.tid_hex).unwrap().hold_sends = true);
        }
        // start the requests
        let mut handles: Vec<tokio::task::JoinHandle<Result<String, String>>> = Vec::new();
        for r in reqs {
            let mgr = a.mgr.clone();
            let tr = a.transport.clone();
            let (bh2, ch2) = (bh.clone(), chx.clone());
            let r = *r;
            handles.push(tokio::spawn(async move {
                match r {
                    Req::DhtPingB => mgr.send_request(&bh2, DhtNetworkOperation::Ping).await.map(|x| match x {
                        DhtNetworkResult::PongReceived { responder, .. } => responder,
                        o => format!("{o:?}"),
                    }).map_err(|e| e.to_string()),
                    Req::DhtFindC => mgr.send_request(&ch2, DhtNetworkOperation::FindNode { key: [7u8; 32] }).await.map(|x| match x {
                        DhtNetworkResult::PongReceived { responder, .. } => responder,
                        o => format!("{o:?}"),
                    }).map_err(|e| e.to_string()),
                    Req::RrB => tr.send_request(&bh2, "test", b"hello".to_vec(), RR_TIMEOUT).await.map(|x| String::from_utf8_lossy(&x.data).to_string()).map_err(|e| e.to_string()),
                }
            }));
        }
        settle().await;
        let t0 = tokio::time::Instant::now();
        // capture request frames (ids) and take them off the wire (the scripted peers "received" them)
        let mut ids: Vec<Option<String>> = vec![None; reqs.len()];
        let mut model: Vec<Outcome> = vec![Outcome::Pending; reqs.len()];
        let mut sent: Vec<bool> = vec![false; reqs.len()];
        let capture = |ids: &mut Vec<Option<String>>, sent: &mut Vec<bool>| {
            for f in world.deliverable() {
                let (kind_dht, id) = match (&f.info.dht, &f.info.rr) {
                    (Some(m), _) => (true, m.message_id.clone()),
                    (_, Some((id, _))) => (false, id.clone()),
                    _ => continue,
                };
                for (i, r) in reqs.iter().enumerate() {
                    let matches_req = match r {
                        Req::DhtPingB => kind_dht && f.dst == bh && matches!(f.info.dht.as_ref().map(|m| &m.payload), Some(DhtNetworkOperation::Ping)),
                        Req::DhtFindC => kind_dht && f.dst == chx,
                        Req::RrB => !kind_dht && f.dst == bh,
                    };
                    if matches_req && ids[i].is_none() {
                        ids[i] = Some(id.clone());
                        sent[i] = true;
                    }
                }
                world.deliver(f.seq);
            }
        };
        capture(&mut ids, &mut sent);
        let wit = |upto: usize, extra: Value| json!({"requests": reqs.iter().map(|r| format!("{r:?}")).collect::<Vec<_>>(), "sends_held_at_start": held, "events": seq.iter().map(|e| ev_json(e, reqs)).collect::<Vec<_>>(), "failed_after_event": upto, "detail": extra});
        let kind = |i: usize| if reqs[i] == Req::RrB { "rr" } else { "dht" };
        let mut marker = 0u32;
        let mut broadcast_rr_responses = 0usize;
        // helper: frame builders
        let claimed_source = std::cell::RefCell::new(String::from("scripted"));
        let dht_msg = |id: &str, t: DhtMessageType, result: Option<DhtNetworkResult>| DhtNetworkMessage { message_id: id.to_string(), source: claimed_source.borrow().clone(), target: None, message_type: t, payload: DhtNetworkOperation::Ping, result, timestamp: now_secs(), ttl: 9, hop_count: 1 };
        let rr_frame = |id: &str, is_response: bool, payload: &[u8], proto: &str| {
            #[derive(serde::Serialize)]
            struct Env {
                message_id: String,
                is_response: bool,
                payload: Vec<u8>,
            }
            let env = postcard::to_stdvec(&Env { message_id: id.to_string(), is_response, payload: payload.to_vec() }).unwrap();
            verif_hooks::frame(&format!("/rr/{proto}"), env, "scripted", now_secs())
        };
        let right_peer = |i: usize| if reqs[i] == Req::DhtFindC { (c_tid, chx.clone()) } else { (b_tid, bh.clone()) };
        let other_peer = |i: usize| if reqs[i] == Req::DhtFindC { (b_tid, bh.clone()) } else { (c_tid, chx.clone()) };
        let mut step = 0usize;
        let mut all_events: Vec<E> = seq.to_vec();
        all_events.push(E::Time); // flush: whatever is still pending times out
        all_events.push(E::Time);
        for (ei, e) in all_events.iter().enumerate() {
            step = ei;
            // apply event
            match e {
                E::Ok(i) | E::WrongPeer(i) | E::WrongPeerSpoof(i) | E::Unconnected(i) | E::NoResult(i) | E::AsRequest(i) | E::AsBroadcast(i) | E::AsError(i) | E::CrossProtocol(i) => {
                    let Some(id) = ids[*i].clone() else { continue };
                    marker += 1;
                    let mk = format!("marker{marker}");
                    let is_dht = reqs[*i] != Req::RrB;
                    let (sender_tid, _sender_hex) = match e {
                        E::WrongPeer(_) | E::WrongPeerSpoof(_) => other_peer(*i),
                        E::Unconnected(_) => (d_tid, hex::encode(d_tid)),
                        _ => right_peer(*i),
                    };
                    *claimed_source.borrow_mut() = if matches!(e, E::WrongPeerSpoof(_)) { right_peer(*i).1 } else { "scripted".into() };
                    let bytes = match (is_dht, e) {
                        (true, E::NoResult(_)) => dht_frame("scripted", &dht_msg(&id, DhtMessageType::Response, None)),
                        (true, E::AsRequest(_)) => dht_frame("scripted", &dht_msg(&id, DhtMessageType::Request, None)),
                        (true, E::AsBroadcast(_)) => dht_frame("scripted", &dht_msg(&id, DhtMessageType::Broadcast, Some(DhtNetworkResult::PongReceived { responder: mk.clone(), latency: Duration::ZERO }))),
                        (true, E::AsError(_)) => dht_frame("scripted", &dht_msg(&id, DhtMessageType::Error, Some(DhtNetworkResult::PongReceived { responder: mk.clone(), latency: Duration::ZERO }))),
                        (true, E::CrossProtocol(_)) => rr_frame(&id, true, mk.as_bytes(), "test"),
                        (true, _) => dht_frame("scripted", &dht_msg(&id, DhtMessageType::Response, Some(DhtNetworkResult::PongReceived { responder: mk.clone(), latency: Duration::ZERO }))),
                        (false, E::NoResult(_)) => rr_frame(&id, true, b"", "other-protocol-name"),
                        (false, E::AsRequest(_)) | (false, E::AsBroadcast(_)) | (false, E::AsError(_)) => rr_frame(&id, false, mk.as_bytes(), "test"),
                        (false, E::CrossProtocol(_)) => dht_frame("scripted", &dht_msg(&id, DhtMessageType::Response, Some(DhtNetworkResult::PongReceived { responder: mk.clone(), latency: Duration::ZERO }))),
                        (false, _) => rr_frame(&id, true, mk.as_bytes(), "test"),
                    };
                    world.inject(&a.tid_hex, sender_tid, bytes);
                    // model: a valid reply completes a pending request with this marker
                    let valid = match (is_dht, e) {
                        (_, E::Ok(_)) => true,
                        // an /rr/ response is matched on id + authenticated peer only: an empty payload or another
                        // protocol name in the topic is still "that request's identifier from the contacted peer"
                        (false, E::NoResult(_)) => true,
                        _ => false,
                    };
                    if valid && model[*i] == Outcome::Pending && sent[*i] {
                        model[*i] = Outcome::Reply(if matches!(e, E::NoResult(_)) { String::new() } else { mk.clone() });
                    }
                }
                E::UnknownDht => {
                    world.inject(&a.tid_hex, b_tid, dht_frame("scripted", &dht_msg("00000000-unknown", DhtMessageType::Response, Some(DhtNetworkResult::PongReceived { responder: "unknown".into(), latency: Duration::ZERO }))));
                }
                E::UnknownRr => {
                    world.inject(&a.tid_hex, b_tid, rr_frame("00000000-unknown", true, b"unknown", "test"));
                }
                E::Abort(i) => {
                    handles[*i].abort();
                    if model[*i] == Outcome::Pending {
                        model[*i] = Outcome::Aborted;
                    }
                }
                E::Time => {
                    tokio::time::sleep(REQUEST_TIMEOUT.max(RR_TIMEOUT) + Duration::from_millis(100)).await;
                    for i in 0..reqs.len() {
                        if model[i] == Outcome::Pending {
                            // a request whose send is still held fails with a send error when the send times out
                            model[i] = if sent[i] { Outcome::Timeout } else { Outcome::SendError };
                        }
                    }
                }
                E::Release => {
                    world.release_sends(&a.tid_hex);
                }
            }
            settle().await;
            settle().await;
            capture(&mut ids, &mut sent);
            cx.distinct.eval();
            // events broadcast to the application: a matched /rr/ response must not appear
            while let Ok(ev) = events_rx.try_recv() {
                if let P2PEvent::Message { topic, data, .. } = ev {
                    if topic.starts_with("/rr/") {
                        if let Some((id, true, _)) = saorsa_core::transport_handle::TransportHandle::parse_request_envelope(&data) {
                            if ids.iter().flatten().any(|x| *x == id) && matches!(e, E::Ok(_)) {
                                broadcast_rr_responses += 1;
                            }
                        }
                    }
                }
            }
            // pending tables vs model
            let dht_pending_model = (0..reqs.len()).filter(|i| kind(*i) == "dht" && model[*i] == Outcome::Pending).count();
            let rr_pending_model = (0..reqs.len()).filter(|i| kind(*i) == "rr" && model[*i] == Outcome::Pending).count();
            let dht_tab = a.mgr.verif_active_operations_len();
            let rr_tab = a.transport.verif_active_requests_len().await;
            let aborted_dht = (0..reqs.len()).filter(|i| kind(*i) == "dht" && model[*i] == Outcome::Aborted).count();
            let aborted_rr = (0..reqs.len()).filter(|i| kind(*i) == "rr" && model[*i] == Outcome::Aborted).count();
            if dht_tab != dht_pending_model {
                let shape = if dht_tab > dht_pending_model && aborted_dht > 0 && dht_tab <= dht_pending_model + aborted_dht { "entry-of-cancelled-request-remains" } else if dht_tab > dht_pending_model { "entry-of-completed-request-remains" } else { "entry-of-pending-request-missing" };
                cx.run.violation_lazy("C04.clean", feats(&[("table", "dht-active-operations".into()), ("shape", shape.into())]), || (wit(ei, json!({"table_len": dht_tab, "model_pending": dht_pending_model})), format!("DHT pending table holds {dht_tab} entries, {dht_pending_model} requests are pending")));
            }
            if rr_tab != rr_pending_model {
                let shape = if rr_tab > rr_pending_model && aborted_rr > 0 { "entry-of-cancelled-request-remains" } else if rr_tab > rr_pending_model { "entry-of-completed-request-remains" } else { "entry-of-pending-request-missing" };
                cx.run.violation_lazy("C04.clean", feats(&[("table", "rr-active-requests".into()), ("shape", shape.into())]), || (wit(ei, json!({"table_len": rr_tab, "model_pending": rr_pending_model})), format!("/rr/ pending table holds {rr_tab} entries, {rr_pending_model} requests are pending")));
            }
            // task completion vs model
            for i in 0..reqs.len() {
                let fin = handles[i].is_finished();
                let should = model[i] != Outcome::Pending;
                if fin != should {
                    let shape = if fin { "completed-without-matching-reply" } else { "did-not-complete" };
                    cx.run.violation_lazy("C04.match", feats(&[("kind", kind(i).into()), ("shape", shape.into()), ("after", format!("{:?}", std::mem::discriminant(e)))]), || (wit(ei, json!({"request": format!("{:?}", reqs[i]), "model": format!("{:?}", model[i]), "finished": fin})), format!("{:?}: finished={fin}, model says {:?}", reqs[i], model[i])));
                }
            }
        }
        let _ = (step, t0);
        // final outcomes
        let mut obs: Vec<String> = Vec::new();
        for (i, h) in handles.into_iter().enumerate() {
            let got = if h.is_finished() {
                match h.await {
                    Ok(Ok(s)) => Outcome::Reply(s),
                    Ok(Err(e)) => {
                        let l = e.to_lowercase();
                        if l.contains("timed out") || l.contains("timeout") { Outcome::Timeout } else if l.contains("not connected") || l.contains("stream") || l.contains("peer not found") || l.contains("closed") { Outcome::SendError } else { Outcome::OtherError(e) }
                    }
                    Err(e) if e.is_cancelled() => Outcome::Aborted,
                    Err(e) => Outcome::OtherError(e.to_string()),
                }
            } else {
                h.abort();
                Outcome::Pending
            };
            obs.push(format!("{:?}", std::mem::discriminant(&got)));
            let want = Some(model[i].clone());
            // "a timeout or a send error": which of the two error kinds is reported is not judged
            let norm = |o: &Outcome| match o {
                Outcome::Timeout | Outcome::SendError | Outcome::OtherError(_) => Outcome::Timeout,
                x => x.clone(),
            };
            if let Some(w) = want {
                if norm(&got) != norm(&w) {
                    let shape = match (&got, &w) {
                        (Outcome::Reply(_), Outcome::Reply(_)) => "reply-of-a-later-frame",
                        (Outcome::Reply(_), _) => "resolved-with-a-reply-it-should-not-get",
                        (_, Outcome::Reply(_)) => "valid-reply-lost",
                        _ => "other",
                    };
                    cx.run.violation_lazy("C04.once", feats(&[("kind", kind(i).into()), ("shape", shape.into())]), || (wit(seq.len(), json!({"request": format!("{:?}", reqs[i]), "got": format!("{got:?}"), "model": format!("{w:?}")})), format!("{:?}: outcome {got:?}, reference model says {w:?}", reqs[i])));
                }
            }
        }
        if broadcast_rr_responses > 0 {
            cx.run.violation_lazy("C04.noevent", feats(&[("shape", "matched-rr-response-broadcast".into())]), || (wit(seq.len(), json!({"count": broadcast_rr_responses})), "a matched /rr/ response was also broadcast as an application event".to_string()));
        }
        cx.distinct.outcome(&obs);
        hash64(&obs)
    })
}

/// Cap: the 257th concurrent /rr/ request is refused; also with some completed or aborted first.
fn cap_family(cx: &Ctx<'_>) -> u64 {
    let mut n = 0;
    for pre_done in [0usize, 1, 3] {
        for pre_abort in [0usize, 1, 3] {
            let rt = paused_runtime();
            rt.block_on(async {
                verif_hooks::clear_sockets();
                let world = World::new();
                let a = make_node(&world, 0, &NodeSpec { tid: tid_with_prefix(1, 4, 0), app_id: Some(app_id_with_prefix(1, 4, 100)), k: 8 }).await;
                let b_tid = tid_with_prefix(2, 4, 1);
                let bh = hex::encode(b_tid);
                world.add_endpoint(b_tid, node_addr(1), true);
                let _ = a.transport.connect_peer(&node_addr(1).to_string()).await;
                settle().await;
                let mut hs = Vec::new();
                let spawn_one = |hs: &mut Vec<tokio::task::JoinHandle<Result<(), String>>>| {
                    let tr = a.transport.clone();
                    let b = bh.clone();
                    hs.push(tokio::spawn(async move { tr.send_request(&b, "cap", vec![1], Duration::from_secs(60)).await.map(|_| ()).map_err(|e| e.to_string()) }));
                };
                for _ in 0..256 {
                    spawn_one(&mut hs);
                }
                settle().await;
                let pending0 = a.transport.verif_active_requests_len().await;
                // complete some, abort some
                let frames = world.deliverable();
                for f in frames.iter().take(pre_done) {
                    if let Some((id, _)) = &f.info.rr {
                        #[derive(serde::Serialize)]
                        struct Env {
                            message_id: String,
                            is_response: bool,
                            payload: Vec<u8>,
                        }
                        let env = postcard::to_stdvec(&Env { message_id: id.clone(), is_response: true, payload: vec![2] }).unwrap();
                        world.inject(&a.tid_hex, b_tid, verif_hooks::frame("/rr/cap", env, "scripted", now_secs()));
                    }
                }
                for h in hs.iter().rev().take(pre_abort) {
                    h.abort();
                }
                settle().await;
                settle().await;
                let pending1 = a.transport.verif_active_requests_len().await;
                let free_expected = pre_done + pre_abort;
                // now try free_expected + 1 more: exactly free_expected must be admitted
                let mut extra = Vec::new();
                for _ in 0..free_expected + 1 {
                    spawn_one(&mut extra);
                }
                settle().await;
                let refused = {
                    let mut r = 0;
                    for h in extra.iter() {
                        if h.is_finished() {
                            r += 1;
                        }
                    }
                    r
                };
                let pending2 = a.transport.verif_active_requests_len().await;
                cx.distinct.eval();
                cx.distinct.outcome(&("cap", pre_done, pre_abort, pending0, pending1, pending2, refused));
                let wit = json!({"started": 256, "completed_first": pre_done, "aborted_first": pre_abort, "pending_after_256": pending0, "pending_after_completions_and_aborts": pending1, "then_started": free_expected + 1, "refused_immediately": refused, "pending_at_end": pending2});
                if pending0 > 256 || pending2 > 256 {
                    cx.run.violation_lazy("C04.cap", feats(&[("shape", "more-than-256-pending".into())]), || (wit.clone(), format!("{pending2} /rr/ requests pending")));
                }
                if pending0 == 256 && pre_done + pre_abort == 0 && refused != 1 {
                    cx.run.violation_lazy("C04.cap", feats(&[("shape", "257th-not-refused".into())]), || (wit.clone(), "the 257th concurrent request was not refused".to_string()));
                }
                if refused != 1 && pre_abort > 0 {
                    cx.run.violation_lazy("C04.clean", feats(&[("table", "rr-active-requests".into()), ("shape", "cancelled-requests-keep-their-slots".into())]), || (wit.clone(), format!("after aborting {pre_abort} requests only {} new ones were admitted", free_expected + 1 - refused)));
                } else if refused != 1 {
                    cx.run.violation_lazy("C04.cap", feats(&[("shape", "slots-of-completed-requests-not-reusable".into())]), || (wit.clone(), format!("{refused} of {} new requests refused", free_expected + 1)));
                }
                for h in hs.iter().chain(extra.iter()) {
                    h.abort();
                }
            });
            n += 1;
        }
    }
    n
}

/// Instant-responder family: the contacted peers answer inside the sender's socket send, so the reply is in A's
/// inbound channel before the send call returns. Every request must still complete with that reply (a request
/// registered only after its send would lose it), at every combination of the three request kinds.
fn instant_family(cx: &Ctx<'_>) -> u64 {
    let mut n = 0;
    for mask in 1u32..8 {
        let reqs: Vec<Req> = REQS.iter().enumerate().filter(|(i, _)| mask >> i & 1 == 1).map(|(_, r)| *r).collect();
        let rt = paused_runtime();
        rt.block_on(async {
            verif_hooks::clear_sockets();
            let world = World::new();
            let a = make_node(&world, 0, &NodeSpec { tid: tid_with_prefix(1, 4, 0), app_id: Some(app_id_with_prefix(1, 4, 100)), k: 8 }).await;
            let b_tid = tid_with_prefix(2, 4, 1);
            let c_tid = tid_with_prefix(3, 4, 2);
            let (bh, chx) = (hex::encode(b_tid), hex::encode(c_tid));
            world.add_endpoint(b_tid, node_addr(1), true);
            world.add_endpoint(c_tid, node_addr(2), true);
            let _ = a.transport.connect_peer(&node_addr(1).to_string()).await;
            let _ = a.transport.connect_peer(&node_addr(2).to_string()).await;
            settle().await;
            let responder: std::sync::Arc<dyn Fn(&Frame) -> Option<Vec<u8>> + Send + Sync> = std::sync::Arc::new(|fr: &Frame| {
                if let Some(m) = &fr.info.dht {
                    if matches!(m.message_type, DhtMessageType::Request) {
                        let rsp = dht_response(m, "scripted", DhtNetworkResult::PongReceived { responder: "instant".into(), latency: Duration::ZERO });
                        return Some(dht_frame("scripted", &rsp));
                    }
                }
                if let Some((id, false)) = &fr.info.rr {
                    #[derive(serde::Serialize)]
                    struct Env {
                        message_id: String,
                        is_response: bool,
                        payload: Vec<u8>,
                    }
                    let env = postcard::to_stdvec(&Env { message_id: id.clone(), is_response: true, payload: b"instant".to_vec() }).unwrap();
                    return Some(verif_hooks::frame("/rr/test", env, "scripted", now_secs()));
                }
                None
            });
            world.with(|w| {
                w.eps.get_mut(&bh).unwrap().instant_reply = Some(responder.clone());
                w.eps.get_mut(&chx).unwrap().instant_reply = Some(responder.clone());
            });
            let mut handles: Vec<tokio::task::JoinHandle<Result<String, String>>> = Vec::new();
            for r in &reqs {
                let mgr = a.mgr.clone();
                let tr = a.transport.clone();
                let (bh2, ch2) = (bh.clone(), chx.clone());
                let r = *r;
                handles.push(tokio::spawn(async move {
                    match r {
                        Req::DhtPingB => mgr.send_request(&bh2, DhtNetworkOperation::Ping).await.map(|x| format!("{x:?}")).map_err(|e| e.to_string()),
                        Req::DhtFindC => mgr.send_request(&ch2, DhtNetworkOperation::FindNode { key: [7u8; 32] }).await.map(|x| format!("{x:?}")).map_err(|e| e.to_string()),
                        Req::RrB => tr.send_request(&bh2, "test", b"hello".to_vec(), RR_TIMEOUT).await.map(|x| String::from_utf8_lossy(&x.data).to_string()).map_err(|e| e.to_string()),
                    }
                }));
            }
            settle().await;
            settle().await;
            for (i, h) in handles.into_iter().enumerate() {
                cx.distinct.eval();
                let got = if h.is_finished() { h.await.ok() } else { h.abort(); None };
                let ok = matches!(&got, Some(Ok(s)) if s.contains("instant"));
                cx.distinct.outcome(&("instant", reqs[i], ok));
                if !ok {
                    let kind = if reqs[i] == Req::RrB { "rr" } else { "dht" };
                    cx.run.violation_lazy("C04.match", feats(&[("kind", kind.into()), ("shape", "reply-that-overtakes-the-send-is-lost".into())]), || {
                        (json!({"requests": reqs.iter().map(|r| format!("{r:?}")).collect::<Vec<_>>(), "request": format!("{:?}", reqs[i]), "outcome_without_any_time_passing": format!("{got:?}")}),
                         format!("{:?}: the peer answered while the send call was still running and the request did not complete with that reply", reqs[i]))
                    });
                }
            }
            let (d, r) = (a.mgr.verif_active_operations_len(), a.transport.verif_active_requests_len().await);
            if d + r > 0 {
                cx.run.violation_lazy("C04.clean", feats(&[("table", "any".into()), ("shape", "entry-remains-after-instant-reply".into())]), || (json!({"dht": d, "rr": r}), format!("pending tables hold {d}+{r} entries after every request was answered")));
            }
        });
        n += 1;
    }
    n
}

fn main() {
    let run = Run::new("C04", "model_checking");
    quiet_panics();
    let distinct = Distinct::default();
    let budget = Budget::new(Duration::from_secs(run.tier.pick(50, 1700)));
    let cx = Ctx { run: &run, distinct: &distinct };
    // subsets of requests
    let mut subsets: Vec<Vec<Req>> = Vec::new();
    for mask in 1u32..8 {
        subsets.push(REQS.iter().enumerate().filter(|(i, _)| mask >> i & 1 == 1).map(|(_, r)| *r).collect());
    }
    // work = (subset, held, first event) ; each item enumerates all continuations up to the length bound
    let mut work: Vec<(Vec<Req>, bool, Vec<E>, usize)> = Vec::new();
    for s in &subsets {
        let r = s.len();
        let max_len = match (run.tier, r) {
            (Tier::Quick, 1) => 3,
            (Tier::Quick, 2) => 2,
            (Tier::Quick, _) => 2,
            (Tier::Thorough, 1) => 5,
            (Tier::Thorough, 2) => 4,
            (Tier::Thorough, _) => 3,
        };
        let mut alpha: Vec<E> = Vec::new();
        for i in 0..r {
            alpha.extend([E::Ok(i), E::WrongPeer(i), E::WrongPeerSpoof(i), E::Unconnected(i), E::NoResult(i), E::AsRequest(i), E::AsBroadcast(i), E::AsError(i), E::CrossProtocol(i), E::Abort(i)]);
        }
        alpha.extend([E::UnknownDht, E::UnknownRr, E::Time]);
        for held in [false, true] {
            let mut al = alpha.clone();
            if held {
                al.push(E::Release);
            }
            for first in &al {
                work.push((s.clone(), held, vec![*first], max_len));
            }
            work.push((s.clone(), held, vec![], 0));
        }
    }
    let parent = run.fan_out(n_workers());
    let seqs = AtomicU64::new(0);
    let events = AtomicU64::new(0);
    let mut samples: Vec<Value> = Vec::new();
    let mut caps = 0;
    if parent.is_none() {
        if run.shard().0 == 0 {
            caps = cap_family(&cx) + instant_family(&cx);
        }
        for (wi, (reqs, held, first, max_len)) in work.iter().enumerate() {
            if !run.mine(wi) {
                continue;
            }
            let r = reqs.len();
            let mut alpha: Vec<E> = Vec::new();
            for i in 0..r {
                alpha.extend([E::Ok(i), E::WrongPeer(i), E::WrongPeerSpoof(i), E::Unconnected(i), E::NoResult(i), E::AsRequest(i), E::AsBroadcast(i), E::AsError(i), E::CrossProtocol(i), E::Abort(i)]);
            }
            alpha.extend([E::UnknownDht, E::UnknownRr, E::Time]);
            if *held {
                alpha.push(E::Release);
            }
            // DFS over continuations
            let mut stack: Vec<Vec<E>> = vec![first.clone()];
            while let Some(seq) = stack.pop() {
                if budget.exceeded() {
                    break;
                }
                run_seq(&cx, reqs, &seq, *held);
                seqs.fetch_add(1, Ordering::Relaxed);
                events.fetch_add(seq.len() as u64 + 2, Ordering::Relaxed);
                if samples.len() < 3 && seq.len() >= 2 {
                    samples.push(json!({"requests": reqs.iter().map(|r| format!("{r:?}")).collect::<Vec<_>>(), "sends_held": held, "events": seq.iter().map(|e| ev_json(e, reqs)).collect::<Vec<_>>()}));
                }
                if !seq.is_empty() && seq.len() < *max_len {
                    for e in &alpha {
                        let mut s2 = seq.clone();
                        s2.push(*e);
                        stack.push(s2);
                    }
                }
            }
        }
        if budget.was_hit() {
            run.cap_hit(format!("wall-clock budget hit in worker {:?}", run.shard()));
        }
        if run.is_child() {
            run.finish(cov(vec![("_distinct", distinct.export()), ("sequences", json!(seqs.load(Ordering::Relaxed))), ("events", json!(events.load(Ordering::Relaxed))), ("caps", json!(caps)), ("samples", json!(samples)), ("budget_hit", json!(budget.was_hit()))]), vec![]);
        }
    }
    let covs = parent.unwrap_or_default();
    for c in &covs {
        if let Some(d) = c.get("_distinct") {
            distinct.import(d);
        }
        if let Some(a) = c.get("samples").and_then(|v| v.as_array()) {
            for x in a {
                if samples.len() < 4 {
                    samples.push(x.clone());
                }
            }
        }
    }
    let nseq = sum_cov(&covs, "sequences") + seqs.load(Ordering::Relaxed);
    let nev = sum_cov(&covs, "events") + events.load(Ordering::Relaxed);
    let any_budget = covs.iter().any(|c| c.get("budget_hit").and_then(|v| v.as_bool()).unwrap_or(false)) || budget.was_hit();
    if nseq == 0 {
        run.machinery_error("no sequence executed");
    }
    let coverage = cov(vec![
        ("states", json!(nev.max(1))),
        ("transitions", json!(nev.max(1))),
        ("traces_validated_against_impl", json!(nseq)),
        ("samples", json!(samples)),
        ("exhaustive", json!(!any_budget)),
        ("evaluations", json!(distinct.evaluations())),
        ("distinct_nontrivial", json!(distinct.distinct())),
        ("rule", json!("states/transitions = events applied to the real node (every sequence is an execution of the implementation, judged after every event); distinct = distinct vectors of final request outcomes")),
        ("bounds", json!({"request_subsets": 7, "event_sequences": nseq, "max_sequence_length": {"1 request": run.tier.pick(3, 5), "2 requests": run.tier.pick(2, 4), "3 requests": run.tier.pick(2, 3)}, "with_and_without_held_sends": true, "cap_family_runs": sum_cov(&covs, "caps") + caps})),
    ]);
    run.finish(
        coverage,
        vec![
            "scripted peers and the unconnected identity speak through raw-frame injection with an authenticated-sender id chosen by the harness (real framing)".into(),
            "the window between registration and hand-over to the wire is reached by holding the socket send; thread preemption inside await-free segments is not explored".into(),
            "an /rr/ response is valid if it carries the request id and arrives from the contacted peer (protocol name and payload are not part of the match)".into(),
        ],
    );
}
