//! C05 — hostile inbound bytes are rejected safely; the sender id comes from the connection.
//!
//! Bounded-exhaustive input enumeration: for one valid instance of every message kind, ALL inputs within
//! d site-mutations (d = 1; thorough d = 2 on small seeds) are fed to every inbound entry point of the
//! real code; size ladder, timestamp window edges and claimed-sender values are complete grids.
use saorsa_core::dht::core_engine::{DhtCoreEngine, DhtKey, DhtRequestWrapper, NodeCapacity, NodeId, NodeInfo};
use saorsa_core::dht::network_integration::{DhtMessage, DhtResponse};
use saorsa_core::dht_network_manager::{DHTNode, DhtMessageType, DhtNetworkMessage, DhtNetworkOperation, DhtNetworkResult, PeerStoreOutcome};
use saorsa_core::network::P2PEvent;
use saorsa_core::placement::dht_records::{DataPointer, DhtRecord, DhtRecordData, GroupBeacon, NatType, NodeAd, NodeCapabilities, OsSignature, PlacementPolicy, RegisterPointer};
use saorsa_core::transport_handle::TransportHandle;
use saorsa_core::verif_hooks;
use serde_json::{Value, json};
use std::sync::atomic::{AtomicU64, Ordering};
use std::time::{Duration, SystemTime};
use vh::core::*;
use vh::netsim::*;

#[global_allocator]
static A: CountingAlloc = CountingAlloc;

#[derive(Clone)]
struct Seed {
    name: String,
    /// which entry points understand this encoding
    kind: Kind,
    bytes: Vec<u8>,
}

#[derive(Clone, Copy, PartialEq, Eq, Debug)]
enum Kind {
    /// WireMessage frame -> parse_protocol_message / dispatcher
    Frame,
    /// DhtNetworkMessage -> handle_dht_message
    DhtMsg,
    /// RequestResponseEnvelope -> parse_request_envelope
    Envelope,
    /// DhtRequestWrapper -> DhtCoreEngine::handle_request
    CoreReq,
    /// DhtRecord -> DhtRecord::deserialize
    Record,
}

fn dht_msg(t: DhtMessageType, op: DhtNetworkOperation, result: Option<DhtNetworkResult>, source: &str) -> DhtNetworkMessage {
    DhtNetworkMessage { message_id: "0b5e1d3a-msg".into(), source: source.into(), target: Some("t".into()), message_type: t, payload: op, result, timestamp: now_secs(), ttl: 10, hop_count: 0 }
}

fn seeds(claimed: &str) -> Vec<Seed> {
    let key = [0x42u8; 32];
    let mut out = Vec::new();
    let ops: Vec<(&str, DhtNetworkOperation)> = vec![
        ("put", DhtNetworkOperation::Put { key, value: vec![1, 2, 3, 4] }),
        ("get", DhtNetworkOperation::Get { key }),
        ("find_node", DhtNetworkOperation::FindNode { key }),
        ("find_value", DhtNetworkOperation::FindValue { key }),
        ("ping", DhtNetworkOperation::Ping),
        ("join", DhtNetworkOperation::Join),
        ("leave", DhtNetworkOperation::Leave),
    ];
    let node = DHTNode { peer_id: "ab".repeat(32), address: "10.1.2.3:9000".into(), distance: Some(vec![1; 32]), reliability: 1.0, cached_dht_key: None };
    let results: Vec<(&str, DhtNetworkResult)> = vec![
        ("put_success", DhtNetworkResult::PutSuccess { key, replicated_to: 2, peer_outcomes: vec![PeerStoreOutcome { peer_id: "p".into(), success: true, error: None }] }),
        ("get_success", DhtNetworkResult::GetSuccess { key, value: vec![9; 8], source: "s".into() }),
        ("get_not_found", DhtNetworkResult::GetNotFound { key, peers_queried: 3, peers_failed: 1, last_error: Some("e".into()) }),
        ("nodes_found", DhtNetworkResult::NodesFound { key, nodes: vec![node.clone()] }),
        ("value_found", DhtNetworkResult::ValueFound { key, value: vec![7; 8], source: "s".into() }),
        ("pong", DhtNetworkResult::PongReceived { responder: "r".into(), latency: Duration::from_millis(5) }),
        ("join_success", DhtNetworkResult::JoinSuccess { assigned_key: key, bootstrap_peers: 1 }),
        ("leave_success", DhtNetworkResult::LeaveSuccess),
        ("error", DhtNetworkResult::Error { operation: "o".into(), error: "e".into() }),
    ];
    for (n, op) in &ops {
        let m = dht_msg(DhtMessageType::Request, op.clone(), None, claimed);
        let b = postcard::to_stdvec(&m).unwrap();
        out.push(Seed { name: format!("dhtmsg/request/{n}"), kind: Kind::DhtMsg, bytes: b.clone() });
        out.push(Seed { name: format!("frame/dht/request/{n}"), kind: Kind::Frame, bytes: verif_hooks::frame("/dht/1.0.0", b, claimed, now_secs()) });
    }
    for (n, r) in &results {
        let m = dht_msg(DhtMessageType::Response, DhtNetworkOperation::Ping, Some(r.clone()), claimed);
        let b = postcard::to_stdvec(&m).unwrap();
        out.push(Seed { name: format!("dhtmsg/response/{n}"), kind: Kind::DhtMsg, bytes: b.clone() });
        if matches!(*n, "nodes_found" | "get_success") {
            out.push(Seed { name: format!("frame/dht/response/{n}"), kind: Kind::Frame, bytes: verif_hooks::frame("/dht/1.0.0", b, claimed, now_secs()) });
        }
    }
    for (n, t) in [("broadcast", DhtMessageType::Broadcast), ("error", DhtMessageType::Error)] {
        let m = dht_msg(t, DhtNetworkOperation::Ping, None, claimed);
        out.push(Seed { name: format!("dhtmsg/{n}"), kind: Kind::DhtMsg, bytes: postcard::to_stdvec(&m).unwrap() });
    }
    // request/response envelopes
    #[derive(serde::Serialize)]
    struct Env {
        message_id: String,
        is_response: bool,
        payload: Vec<u8>,
    }
    for (n, r) in [("request", false), ("response", true)] {
        let e = postcard::to_stdvec(&Env { message_id: "6f1c-env".into(), is_response: r, payload: vec![5; 6] }).unwrap();
        out.push(Seed { name: format!("envelope/{n}"), kind: Kind::Envelope, bytes: e.clone() });
        out.push(Seed { name: format!("frame/rr/{n}"), kind: Kind::Frame, bytes: verif_hooks::frame("/rr/app", e, claimed, now_secs()) });
    }
    out.push(Seed { name: "frame/other".into(), kind: Kind::Frame, bytes: verif_hooks::frame("chat", vec![1, 2, 3], claimed, now_secs()) });
    // core engine requests
    let k = DhtKey::from_bytes(key);
    let ni = NodeInfo { id: NodeId::from_bytes([3; 32]), address: "10.9.9.9:1".into(), last_seen: SystemTime::UNIX_EPOCH + Duration::from_secs(1_700_000_000), capacity: NodeCapacity::default() };
    let core: Vec<(&str, DhtMessage)> = vec![
        ("store", DhtMessage::Store { key: k.clone(), value: vec![1; 16], ttl: Duration::from_secs(60) }),
        ("retrieve", DhtMessage::Retrieve { key: k.clone(), consistency: saorsa_core::dht::core_engine::ConsistencyLevel::One }),
        ("find_node", DhtMessage::FindNode { target: k.clone(), count: 8 }),
        ("find_value", DhtMessage::FindValue { key: k.clone() }),
        ("ping", DhtMessage::Ping { timestamp: 1, sender_info: ni.clone() }),
        ("join", DhtMessage::Join { node_info: ni.clone(), capacity: NodeCapacity::default() }),
        ("leave", DhtMessage::Leave { node_id: NodeId::from_bytes([3; 32]), handoff_data: vec![(k.clone(), NodeId::from_bytes([4; 32]))] }),
        ("replicate", DhtMessage::Replicate { key: k.clone(), value: vec![2; 8], version: 3 }),
        ("repair", DhtMessage::RepairRequest { key: k.clone(), missing_shards: vec![1, 2] }),
    ];
    for (n, m) in core {
        out.push(Seed { name: format!("corereq/{n}"), kind: Kind::CoreReq, bytes: postcard::to_stdvec(&DhtRequestWrapper { id: "rq".into(), message: m }).unwrap() });
    }
    // records
    let h = |b: u8| saorsa_core::placement::dht_records::SerializableHash::from([b; 32]);
    let mut recs: Vec<(&str, DhtRecordData)> = Vec::new();
    if let Ok(rp) = RegisterPointer::new(h(1), h(2), 7) {
        recs.push(("register_pointer", DhtRecordData::RegisterPointer(rp)));
    }
    if let Ok(dp) = DataPointer::new(h(3), vec![h(4), h(5)]) {
        recs.push(("data_pointer", DhtRecordData::DataPointer(dp)));
    }
    if let Ok(gb) = GroupBeacon::new(h(6), PlacementPolicy::default(), h(7), vec![saorsa_core::adaptive::NodeId::from_bytes([8; 32])]) {
        recs.push(("group_beacon", DhtRecordData::GroupBeacon(gb)));
    }
    if let (Ok(caps), os) = (NodeCapabilities::new(1000, 500, 50), OsSignature::new("linux".into(), "x86_64".into(), "6.1")) {
        if let Ok(na) = NodeAd::new(saorsa_core::adaptive::NodeId::from_bytes([9; 32]), vec!["10.0.0.1:9".parse().unwrap()], caps, NatType::None, 64512, os, [1; 16], [2; 16]) {
            recs.push(("node_ad", DhtRecordData::NodeAd(na)));
        }
    }
    for (n, d) in recs {
        if let Ok(b) = DhtRecord::new(h(0x11), d, None).serialize() {
            out.push(Seed { name: format!("record/{n}"), kind: Kind::Record, bytes: b });
        }
    }
    out
}

/// All single site-mutations of `b`.
fn mutations(b: &[u8], with_appends: bool) -> Vec<(String, Vec<u8>)> {
    let mut out: Vec<(String, Vec<u8>)> = Vec::new();
    let varints: [&[u8]; 7] = [&[0x80, 0x01], &[0x80, 0x80, 0x01], &[0xff, 0xff, 0xff, 0xff, 0x07], &[0xff, 0xff, 0xff, 0xff, 0x0f], &[0xff, 0xff, 0xff, 0xff, 0xff, 0xff, 0xff, 0xff, 0x7f], &[0xff, 0xff, 0xff, 0xff, 0xff, 0xff, 0xff, 0xff, 0xff, 0x01], &[0xff; 11]];
    for i in 0..b.len() {
        for v in [0u8, 1, 0x7f, 0x80, 0xfe, 0xff, b[i] ^ 1, b[i] ^ 0x80] {
            if v != b[i] {
                let mut m = b.to_vec();
                m[i] = v;
                out.push((format!("set[{i}]={v:#04x}"), m));
            }
        }
        let mut m = b.to_vec();
        m.remove(i);
        out.push((format!("delete[{i}]"), m));
        for v in [0u8, 0x80, 0xff] {
            let mut m = b.to_vec();
            m.insert(i, v);
            out.push((format!("insert[{i}]={v:#04x}"), m));
        }
        out.push((format!("truncate[{i}]"), b[..i].to_vec()));
        // replace the byte at i (a possible length / count / tag / varint) by large varints
        for (vi, v) in varints.iter().enumerate() {
            let mut m = b[..i].to_vec();
            m.extend_from_slice(v);
            m.extend_from_slice(&b[i + 1..]);
            out.push((format!("varint[{i}]#{vi}"), m));
        }
    }
    for n in [1usize, 64 * 1024] {
        if !with_appends && n > 1 {
            continue;
        }
        let mut m = b.to_vec();
        m.extend(std::iter::repeat(0xA5).take(n));
        out.push((format!("append{n}"), m));
    }
    out
}

struct Env5 {
    net: Net,
    engine: DhtCoreEngine,
}

async fn judge_input(run: &Run, distinct: &Distinct, env: &Env5, seed: &Seed, mname: &str, input: &[u8], hexw: bool) {
    let n0 = &env.net.nodes[0];
    let sender = env.net.nodes[1].tid_hex.clone();
    let wit = |extra: Value| json!({"seed": seed.name, "mutation": mname, "input_len": input.len(), "input_hex": if hexw && input.len() <= 600 { hex::encode(input) } else { format!("{}…", hex::encode(&input[..input.len().min(64)])) }, "detail": extra});
    let fe = |entry: &str, shape: &str| feats(&[("entry", entry.into()), ("shape", shape.into()), ("seed_kind", format!("{:?}", seed.kind))]);
    use futures::FutureExt;
    let limit = |len: usize| (1usize << 20) + 4 * len;
    match seed.kind {
        Kind::Frame => {
            let mark = alloc_mark();
            let r = catch(|| verif_hooks::parse_protocol_message(input, &sender));
            let peak = alloc_peak_since(mark);
            distinct.eval();
            match r {
                Err(p) => run.violation_lazy("C05.nopanic", fe("parse_protocol_message", "panic"), || (wit(json!({"panic": p})), format!("parse_protocol_message panicked: {p}"))),
                Ok(ev) => {
                    distinct.outcome(&("frame", ev.is_some()));
                    if let Some(P2PEvent::Message { source, .. }) = &ev {
                        if *source != sender {
                            let s2 = source.clone();
                            run.violation_lazy("C05.source", fe("parse_protocol_message", "source-not-connection-id"), || (wit(json!({"source": s2})), "event source is not the authenticated connection id".to_string()));
                        }
                    }
                    if peak > limit(input.len()) as isize {
                        run.violation_lazy("C05.alloc", fe("parse_protocol_message", "allocation-above-limit"), || (wit(json!({"peak": peak})), format!("peak live bytes {peak} for {} input bytes", input.len())));
                    }
                }
            }
        }
        Kind::DhtMsg => {
            let mark = alloc_mark();
            let r = std::panic::AssertUnwindSafe(n0.mgr.handle_dht_message(input, &sender)).catch_unwind().await;
            let peak = alloc_peak_since(mark);
            distinct.eval();
            match r {
                Err(_) => run.violation_lazy("C05.nopanic", fe("handle_dht_message", "panic"), || (wit(json!({})), "handle_dht_message panicked".to_string())),
                Ok(res) => {
                    distinct.outcome(&("dhtmsg", res.is_ok(), res.as_ref().ok().map(|o| o.is_some())));
                    if input.len() > 64 * 1024 {
                        if res.is_ok() {
                            run.violation_lazy("C05.size", fe("handle_dht_message", "oversized-message-accepted"), || (wit(json!({})), format!("{} byte DHT message was not refused", input.len())));
                        }
                        if peak > 64 * 1024 {
                            run.violation_lazy("C05.size", fe("handle_dht_message", "oversized-message-decoded"), || (wit(json!({"peak": peak})), format!("refusing a {} byte message allocated {peak} bytes", input.len())));
                        }
                    }
                    if peak > limit(input.len()) as isize {
                        run.violation_lazy("C05.alloc", fe("handle_dht_message", "allocation-above-limit"), || (wit(json!({"peak": peak})), format!("peak live bytes {peak} for {} input bytes", input.len())));
                    }
                    if let Ok(Some(reply)) = &res {
                        if let Ok(m) = postcard::from_bytes::<DhtNetworkMessage>(reply) {
                            if let Some(DhtNetworkResult::NodesFound { nodes, .. }) = &m.result {
                                if nodes.len() > 20 {
                                    run.violation_lazy("C05.count", fe("handle_dht_message", "reply-node-list-above-cap"), || (wit(json!({"nodes": nodes.len()})), format!("reply lists {} nodes", nodes.len())));
                                }
                            }
                        }
                    }
                }
            }
        }
        Kind::Envelope => {
            let mark = alloc_mark();
            let r = catch(|| TransportHandle::parse_request_envelope(input));
            let peak = alloc_peak_since(mark);
            distinct.eval();
            match r {
                Err(p) => run.violation_lazy("C05.nopanic", fe("parse_request_envelope", "panic"), || (wit(json!({"panic": p})), format!("parse_request_envelope panicked: {p}"))),
                Ok(o) => {
                    distinct.outcome(&("env", o.is_some()));
                    if peak > limit(input.len()) as isize {
                        run.violation_lazy("C05.alloc", fe("parse_request_envelope", "allocation-above-limit"), || (wit(json!({"peak": peak})), format!("peak live bytes {peak}")));
                    }
                }
            }
        }
        Kind::CoreReq => {
            let mark = alloc_mark();
            let dec = catch(|| postcard::from_bytes::<DhtRequestWrapper>(input));
            distinct.eval();
            match dec {
                Err(p) => run.violation_lazy("C05.nopanic", fe("postcard->DhtRequestWrapper", "panic"), || (wit(json!({"panic": p})), "decoding a core request panicked".to_string())),
                Ok(Err(_)) => distinct.outcome(&("corereq", "rejected")),
                Ok(Ok(w)) => {
                    let r = std::panic::AssertUnwindSafe(env.engine.handle_request(w)).catch_unwind().await;
                    let peak = alloc_peak_since(mark);
                    match r {
                        Err(_) => run.violation_lazy("C05.nopanic", fe("DhtCoreEngine::handle_request", "panic"), || (wit(json!({})), "handle_request panicked".to_string())),
                        Ok(rsp) => {
                            distinct.outcome(&("corereq", format!("{:?}", std::mem::discriminant(&rsp.response))));
                            match &rsp.response {
                                DhtResponse::FindNodeReply { nodes, .. } if nodes.len() > 20 => run.violation_lazy("C05.count", fe("DhtCoreEngine::handle_request", "reply-node-list-above-cap"), || (wit(json!({"nodes": nodes.len()})), format!("FindNodeReply lists {} nodes", nodes.len()))),
                                DhtResponse::FindValueReply { nodes, .. } if nodes.len() > 8 => run.violation_lazy("C05.count", fe("DhtCoreEngine::handle_request", "find-value-list-above-cap"), || (wit(json!({"nodes": nodes.len()})), format!("FindValueReply lists {} nodes", nodes.len()))),
                                _ => {}
                            }
                            if peak > limit(input.len()) as isize {
                                run.violation_lazy("C05.alloc", fe("DhtCoreEngine::handle_request", "allocation-above-limit"), || (wit(json!({"peak": peak})), format!("peak live bytes {peak}")));
                            }
                        }
                    }
                }
            }
        }
        Kind::Record => {
            let mark = alloc_mark();
            let r = catch(|| DhtRecord::deserialize(input));
            let peak = alloc_peak_since(mark);
            distinct.eval();
            match r {
                Err(p) => run.violation_lazy("C05.nopanic", fe("DhtRecord::deserialize", "panic"), || (wit(json!({"panic": p})), format!("DhtRecord::deserialize panicked: {p}"))),
                Ok(res) => {
                    distinct.outcome(&("record", res.is_ok()));
                    if input.len() > 512 && res.is_ok() {
                        run.violation_lazy("C05.record", fe("DhtRecord::deserialize", "oversized-record-accepted"), || (wit(json!({})), format!("{} byte record accepted", input.len())));
                    }
                    if let Ok(rec) = res {
                        match catch(|| rec.serialize()) {
                            Err(p) => run.violation_lazy("C05.nopanic", fe("DhtRecord::serialize", "panic"), || (wit(json!({"panic": p})), "serialize panicked".to_string())),
                            Ok(Ok(b)) if b.len() > 512 => run.violation_lazy("C05.record", fe("DhtRecord::serialize", "oversized-record-produced"), || (wit(json!({"len": b.len()})), format!("serialize produced {} bytes", b.len()))),
                            _ => {}
                        }
                    }
                    if peak > limit(input.len()) as isize {
                        run.violation_lazy("C05.alloc", fe("DhtRecord::deserialize", "allocation-above-limit"), || (wit(json!({"peak": peak})), format!("peak live bytes {peak}")));
                    }
                }
            }
        }
    }
}

fn main() {
    let run = Run::new("C05", "exploration");
    quiet_panics();
    let distinct = Distinct::default();
    let budget = Budget::new(Duration::from_secs(run.tier.pick(50, 1700)));
    let thorough = run.tier == Tier::Thorough;
    let all_seeds = seeds("claimed-app-id");
    // A worker killed by an input (allocation failure aborts the process, it does not unwind) has recorded the input's
    // coordinates in its progress slot: the parent reports it and starts a replacement that resumes behind it.
    let deaths: std::sync::Mutex<std::collections::HashMap<usize, u32>> = std::sync::Mutex::new(std::collections::HashMap::new());
    let on_dead = |shard: usize, pos: &str| -> Option<Vec<(String, String)>> {
        let (si, mi, m2c) = ProgressSlot::read(pos)?;
        if si == u32::MAX {
            return None;
        }
        let n = {
            let mut d = deaths.lock().unwrap();
            let e = d.entry(shard).or_insert(0);
            *e += 1;
            *e
        };
        if n > 6 {
            // enough witnesses from this worker: let its replacement skip the rest of the mutation sweep
            run.cap_hit(format!("worker {shard} was killed by {n} different inputs; the rest of its share of the mutation sweep was skipped"));
            return Some(vec![("VH_C05_RESUME".to_string(), format!("{},0,0", u32::MAX - 1))]);
        }
        let seed = all_seeds.get(si as usize)?;
        let firsts: Vec<(String, Vec<u8>)> = std::iter::once(("unmodified".to_string(), seed.bytes.clone())).chain(mutations(&seed.bytes, true)).collect();
        let (mname, bytes) = firsts.get(mi as usize)?.clone();
        let (name, input) = if m2c == 0 {
            (mname, bytes)
        } else {
            let (m2, b2) = mutations(&bytes, false).into_iter().nth(m2c as usize - 1)?;
            (format!("{mname}+{m2}"), b2)
        };
        let entry = match seed.kind {
            Kind::Frame => "parse_protocol_message",
            Kind::DhtMsg => "handle_dht_message",
            Kind::Envelope => "parse_request_envelope",
            Kind::CoreReq => "DhtCoreEngine::handle_request",
            Kind::Record => "DhtRecord::deserialize",
        };
        run.violation_lazy("C05.alloc", feats(&[("entry", entry.into()), ("shape", "process-aborted-while-handling-input".into()), ("seed_kind", format!("{:?}", seed.kind))]), || {
            (json!({"seed": seed.name, "mutation": name, "input_len": input.len(), "input_hex": hex::encode(&input[..input.len().min(600)]), "worker": shard, "detail": "the worker process died (abort: allocation failure or stack overflow) while the real code handled this input"}),
             format!("{entry}: the process aborted while handling seed {} with mutation {name} ({} bytes)", seed.name, input.len()))
        });
        Some(vec![("VH_C05_RESUME".to_string(), format!("{si},{mi},{m2c}"))])
    };
    let parent = run.fan_out_resumable(n_workers(), &on_dead);
    let inputs_n = AtomicU64::new(0);
    let mut samples: Vec<Value> = Vec::new();
    if parent.is_none() {
        let rt = paused_runtime();
        rt.block_on(async {
            let cfg = NetCfg { n: 2, edges: vec![(0, 1)], prefix: vec![1, 9], bits: 4, k: 8, distinct_app_id: true, silent: vec![false, false] };
            let net = build_net(&cfg).await;
            let engine = DhtCoreEngine::new(NodeId::from_bytes([0x55; 32])).unwrap();
            let env = Env5 { net, engine };
            let mut idx = 0usize;
            let slot = run.progress_path().and_then(|p| ProgressSlot::create(&p));
            let resume: Option<(u32, u32, u32)> = std::env::var("VH_C05_RESUME").ok().and_then(|v| {
                let p: Vec<u32> = v.split(',').filter_map(|x| x.parse().ok()).collect();
                (p.len() == 3).then(|| (p[0], p[1], p[2]))
            });
            let skip = |si: usize, mi: usize, m2c: usize| resume.map(|r| (si as u32, mi as u32, m2c as u32) <= r).unwrap_or(false);
            // ---- family 1: seeds and all 1-site mutations
            let only = std::env::var("VH_C05_ONLY").ok();
            for (si, seed) in all_seeds.iter().enumerate() {
                if let Some(o) = &only {
                    if !seed.name.starts_with(o.as_str()) {
                        continue;
                    }
                }
                let muts = mutations(&seed.bytes, true);
                if samples.len() < 3 && run.shard().0 == 0 {
                    samples.push(json!({"seed": seed.name, "len": seed.bytes.len(), "hex": hex::encode(&seed.bytes[..seed.bytes.len().min(80)]), "single_site_mutations": muts.len(), "example": muts.get(muts.len() / 3).map(|m| m.0.clone())}));
                }
                for (mi, (mname, bytes)) in std::iter::once(("unmodified".to_string(), seed.bytes.clone())).chain(muts.into_iter()).enumerate() {
                    idx += 1;
                    if !run.mine(idx) {
                        continue;
                    }
                    if budget.exceeded() {
                        break;
                    }
                    if !skip(si, mi, 0) {
                        if let Some(sl) = &slot {
                            sl.set(si as u32, mi as u32, 0);
                        }
                        judge_input(&run, &distinct, &env, seed, &mname, &bytes, true).await;
                        inputs_n.fetch_add(1, Ordering::Relaxed);
                    }
                    // ---- d = 2 on small seeds (thorough): a second site-mutation on top
                    if mi > 0 && bytes.len() <= 200 && ((thorough && seed.bytes.len() <= 200) || (!thorough && seed.bytes.len() <= 96 && mi % 3 == 0)) {
                        let trace = std::env::var("VH_C05_TRACE").is_ok();
                        for (m2i, (m2, b2)) in mutations(&bytes, false).into_iter().enumerate() {
                            if b2.len() > 200 || skip(si, mi, m2i + 1) {
                                continue;
                            }
                            if let Some(sl) = &slot {
                                sl.set(si as u32, mi as u32, m2i as u32 + 1);
                            }
                            if trace && inputs_n.load(Ordering::Relaxed) % 5000 == 0 {
                                eprintln!("T {} live_bytes_on_thread={} after {} inputs; last {}+{}", seed.name, alloc_mark(), inputs_n.load(Ordering::Relaxed), mname, m2);
                            }
                            judge_input(&run, &distinct, &env, seed, &format!("{mname}+{m2}"), &b2, true).await;
                            inputs_n.fetch_add(1, Ordering::Relaxed);
                        }
                    }
                }
            }
            if let Some(sl) = &slot {
                sl.set(u32::MAX, 0, 0);
            }
            // ---- family 2: size ladder for DHT messages (value filler inside a well-formed PUT, and raw filler)
            if run.mine(0) {
                for total in [65_535usize, 65_536, 65_537, 131_072] {
                    for filler in [0u8, 0xff, 0x80] {
                        let raw = vec![filler; total];
                        let s = Seed { name: format!("size-ladder/raw/{total}/{filler:#04x}"), kind: Kind::DhtMsg, bytes: vec![] };
                        judge_input(&run, &distinct, &env, &s, "raw-filler", &raw, false).await;
                        // well-formed PUT whose encoding has exactly `total` bytes
                        let mut vlen = total.saturating_sub(120);
                        let mut enc = Vec::new();
                        for _ in 0..8 {
                            let m = dht_msg(DhtMessageType::Request, DhtNetworkOperation::Put { key: [1; 32], value: vec![filler; vlen] }, None, "x");
                            enc = postcard::to_stdvec(&m).unwrap();
                            if enc.len() == total {
                                break;
                            }
                            vlen = (vlen as isize + total as isize - enc.len() as isize) as usize;
                        }
                        let s = Seed { name: format!("size-ladder/put/{}/{filler:#04x}", enc.len()), kind: Kind::DhtMsg, bytes: vec![] };
                        judge_input(&run, &distinct, &env, &s, "well-formed-put", &enc, false).await;
                        inputs_n.fetch_add(2, Ordering::Relaxed);
                    }
                }
                // value sizes around 512 through the remote PUT handler: nothing above 512 may enter the store
                for vlen in [511usize, 512, 513, 600, 4096] {
                    let key = [vlen as u8; 32];
                    let m = dht_msg(DhtMessageType::Request, DhtNetworkOperation::Put { key, value: vec![3; vlen] }, None, "x");
                    let enc = postcard::to_stdvec(&m).unwrap();
                    let s = Seed { name: format!("value-size/{vlen}"), kind: Kind::DhtMsg, bytes: vec![] };
                    judge_input(&run, &distinct, &env, &s, "put-value-size", &enc, false).await;
                    let held = env.net.nodes[0].mgr.get_local(&key).await.ok().flatten();
                    distinct.eval();
                    if held.as_ref().map(|h| h.len() > 512).unwrap_or(false) {
                        run.violation_lazy("C05.value", feats(&[("entry", "handle_dht_message(Put)".into()), ("shape", "store-holds-more-than-512".into())]), || (json!({"value_len": vlen}), format!("a {vlen} byte value entered the store")));
                    }
                    inputs_n.fetch_add(1, Ordering::Relaxed);
                }
                // ---- family 3: timestamp window (frame surfaced iff now-300 <= ts <= now+30), outside the 1 s ambiguity band
                for delta in [-3600i64, -302, -301, -299, -298, -1, 0, 1, 28, 29, 31, 32, 3600] {
                    let t_before = now_secs();
                    let ts = (t_before as i64 + delta) as u64;
                    let f = verif_hooks::frame("chat", vec![1], "x", ts);
                    let ev = verif_hooks::parse_protocol_message(&f, &env.net.nodes[1].tid_hex);
                    let t_after = now_secs();
                    distinct.eval();
                    if t_before != t_after {
                        continue; // second boundary crossed during the call: not judged
                    }
                    let want = (-300..=30).contains(&delta);
                    distinct.outcome(&("window", delta, ev.is_some()));
                    if ev.is_some() != want {
                        run.violation_lazy("C05.window", feats(&[("entry", "parse_protocol_message".into()), ("shape", if want { "fresh-message-dropped".into() } else { "message-outside-window-surfaced".into() }), ("delta", delta.to_string())]), || (json!({"timestamp_minus_now": delta, "surfaced": ev.is_some()}), format!("timestamp now{delta:+}: surfaced={}", ev.is_some())));
                    }
                }
                for ts in [0u64, u64::MAX, u64::MAX - 1, 1 << 63] {
                    let f = verif_hooks::frame("chat", vec![1], "x", ts);
                    let ev = catch(|| verif_hooks::parse_protocol_message(&f, "c"));
                    distinct.eval();
                    match ev {
                        Err(p) => run.violation_lazy("C05.nopanic", feats(&[("entry", "parse_protocol_message".into()), ("shape", "panic-on-extreme-timestamp".into())]), || (json!({"timestamp": ts, "panic": p}), format!("panic for timestamp {ts}"))),
                        Ok(Some(_)) => run.violation_lazy("C05.window", feats(&[("entry", "parse_protocol_message".into()), ("shape", "message-outside-window-surfaced".into()), ("delta", "extreme".into())]), || (json!({"timestamp": ts}), format!("timestamp {ts} surfaced"))),
                        Ok(None) => {}
                    }
                }
                // ---- family 4: claimed sender fields through the real dispatcher: the surfaced source is the connection id
                let claims: Vec<String> = vec![env.net.nodes[0].tid_hex.clone(), env.net.nodes[0].app_id.clone(), env.net.nodes[1].app_id.clone(), String::new(), "z".repeat(4096), "peer_evil".into()];
                let mut rx = env.net.nodes[0].transport.subscribe_events();
                for c in &claims {
                    let conn = env.net.nodes[1].tid;
                    let f = verif_hooks::frame("chat", vec![9, 9], c, now_secs());
                    env.net.world.inject(&env.net.nodes[0].tid_hex, conn, f);
                    // a DHT request whose payload claims another source: the handler must see the connection id
                    let m = dht_msg(DhtMessageType::Request, DhtNetworkOperation::Ping, None, c);
                    env.net.world.inject(&env.net.nodes[0].tid_hex, conn, verif_hooks::frame("/dht/1.0.0", postcard::to_stdvec(&m).unwrap(), c, now_secs()));
                    settle().await;
                    settle().await;
                    distinct.eval();
                    let mut seen = 0;
                    while let Ok(ev) = rx.try_recv() {
                        if let P2PEvent::Message { source, topic, .. } = ev {
                            seen += 1;
                            if source != env.net.nodes[1].tid_hex {
                                let cl = c.chars().take(40).collect::<String>();
                                run.violation_lazy("C05.source", feats(&[("entry", "dispatcher".into()), ("shape", "source-taken-from-payload".into())]), || (json!({"claimed": cl, "surfaced_source": source, "topic": topic}), "surfaced source differs from the authenticated connection id".to_string()));
                            }
                        }
                    }
                    distinct.outcome(&("claim", c.len(), seen));
                    // the PING reply goes back to the connection, not to the claimed identity
                    for fr in env.net.world.deliverable() {
                        if fr.src == env.net.nodes[0].tid_hex && fr.dst != env.net.nodes[1].tid_hex {
                            run.violation_lazy("C05.source", feats(&[("entry", "dispatcher".into()), ("shape", "reply-sent-to-claimed-identity".into())]), || (json!({"dst": fr.dst}), "reply addressed to an identity other than the connection".to_string()));
                        }
                        env.net.world.drop_frame(fr.seq);
                    }
                }
            }
            // no store holds more than 512 bytes after everything
            for nd in &env.net.nodes {
                for k in [[0x42u8; 32], [1u8; 32]] {
                    if let Ok(Some(v)) = nd.mgr.get_local(&k).await {
                        if v.len() > 512 {
                            run.violation_lazy("C05.value", feats(&[("entry", "sweep".into()), ("shape", "store-holds-more-than-512".into())]), || (json!({"len": v.len()}), format!("store holds {} bytes after the sweep", v.len())));
                        }
                    }
                }
            }
        });
        if budget.was_hit() {
            run.cap_hit(format!("wall-clock budget hit in worker {:?}", run.shard()));
        }
        if run.is_child() {
            run.finish(cov(vec![("_distinct", distinct.export()), ("inputs", json!(inputs_n.load(Ordering::Relaxed))), ("samples", json!(samples)), ("budget_hit", json!(budget.was_hit()))]), vec![]);
        }
    }
    let covs = parent.unwrap_or_default();
    for c in &covs {
        if let Some(d) = c.get("_distinct") {
            distinct.import(d);
        }
        if let Some(a) = c.get("samples").and_then(|v| v.as_array()) {
            for x in a {
                if samples.len() < 4 {
                    samples.push(x.clone());
                }
            }
        }
    }
    let any_budget = covs.iter().any(|c| c.get("budget_hit").and_then(|v| v.as_bool()).unwrap_or(false)) || budget.was_hit();
    let coverage = cov(vec![
        ("evaluations", json!(distinct.evaluations())),
        ("distinct_nontrivial", json!(distinct.distinct())),
        ("rule", json!("evaluation = one input handed to one inbound entry point of the real code; distinct = distinct (entry point, accepted/rejected/response kind) outcomes; inputs are every valid seed and every input within d site-mutations of it")),
        ("samples", json!(samples)),
        ("exhaustive", json!(!any_budget)),
        ("bounds", json!({"seeds": all_seeds.len(), "seed_names": all_seeds.iter().map(|s| s.name.clone()).collect::<Vec<_>>(), "inputs": sum_cov(&covs, "inputs") + inputs_n.load(Ordering::Relaxed), "deviation_bound": if thorough { "1 on all seeds, 2 (complete) on seeds <= 200 bytes" } else { "1 on all seeds, 2 on seeds <= 96 bytes (every third first-site)" },
                           "site_mutations": ["set byte to 00,01,7f,80,fe,ff,b^1,b^80", "delete", "insert 00/80/ff", "truncate", "replace by 7 large varints", "append 1 / 65536 bytes"],
                           "size_ladder": [65535, 65536, 65537, 131072], "timestamp_deltas": [-3600, -302, -301, -299, -298, -1, 0, 1, 28, 29, 31, 32, 3600], "claimed_senders": 6})),
    ]);
    run.finish(
        coverage,
        vec![
            "arbitrary random strings up to 128 KiB are not claimed (sampling is another family); the claim is every input within the stated number of site-mutations of a valid message of every kind".into(),
            "allocation = peak live bytes on the handling thread, limit 1 MiB + 4 x input length; for refused oversized DHT messages 64 KiB".into(),
            "timestamp verdicts are skipped when the wall-clock second changes during the call".into(),
        ],
    );
}
