//! C06 — acknowledged state survives a crash at any point; recovery is a prefix.
//!
//! For every history over {upsert, delete, batch, checkpoint} up to the tier's length, every
//! instrumented crash point inside the last operation and every byte-prefix of every append made by
//! it is turned into a directory image; each image is reopened with a fresh real manager and
//! compared with the reference model; from each recovered state every 1-operation extension is
//! applied, the store is reopened again (second cycle) and the transaction ids are inspected.
use saorsa_core::persistent_state::FlushStrategy;
use serde_json::{Value, json};
use std::sync::atomic::{AtomicU64, Ordering};
use std::time::Duration;
use vh::core::*;
use vh::wal::*;

#[global_allocator]
static A: CountingAlloc = CountingAlloc;

fn models(ops: &[Op]) -> Vec<Model> {
    let mut v = vec![Model::new()];
    let mut m = Model::new();
    for (i, o) in ops.iter().enumerate() {
        model_apply(&mut m, o, i);
        v.push(m.clone());
    }
    v
}

fn hist_json(ops: &[Op]) -> Value {
    json!(ops.iter().enumerate().map(|(i, o)| o.json(i)).collect::<Vec<_>>())
}

fn flush_name(f: FlushStrategy) -> &'static str {
    match f {
        FlushStrategy::Always => "always",
        FlushStrategy::Periodic(_) => "periodic",
        FlushStrategy::BufferSize(_) => "buffer",
        FlushStrategy::Adaptive => "adaptive",
    }
}

fn label_class(l: &str) -> String {
    // "torn:wal:payload-written@17" -> "torn:wal:payload-written"
    l.split('@').next().unwrap_or(l).to_string()
}

fn main() {
    let run = Run::new("C06", "fault_enumeration");
    quiet_panics();
    let distinct = Distinct::default();
    let budget = Budget::new(Duration::from_secs(run.tier.pick(50, 1700)));
    let alpha: Vec<Op> = vec![Op::Up("a"), Op::Up("b"), Op::Del("a"), Op::BatchUpUp("a", "b"), Op::BatchUpDel("b", "a"), Op::Checkpoint];
    let max_len = run.tier.pick(4, 5);
    // (flush, rotation threshold, max history length, clock ticks one second per operation?)
    let mut configs: Vec<(FlushStrategy, Option<u64>, usize, bool)> = vec![
        (FlushStrategy::Always, Some(2), max_len, true),
        (FlushStrategy::Always, Some(2), max_len - 1, false),
        (FlushStrategy::Always, Some(3), max_len - 1, true),
        // prefix clause only under the other strategies (shorter histories)
        (FlushStrategy::Periodic(Duration::from_secs(3600)), Some(2), 3, true),
        (FlushStrategy::Adaptive, Some(2), 3, false),
    ];
    if run.tier == Tier::Thorough {
        configs.push((FlushStrategy::Always, None, 3, true));
        configs.push((FlushStrategy::Always, Some(3), max_len, false));
    }
    let mut work: Vec<(FlushStrategy, Option<u64>, Vec<Op>, bool)> = Vec::new();
    for (f, r, l, t) in &configs {
        for h in all_histories(&alpha, *l) {
            work.push((*f, *r, h, *t));
        }
    }
    // one long history with the real rotation threshold (two real rotations)
    let root = scratch_root("c06");
    let images_n = AtomicU64::new(0);
    let recoveries = AtomicU64::new(0);
    let second_cycles = AtomicU64::new(0);
    let hist_done = AtomicU64::new(0);
    let samples = std::sync::Mutex::new(Vec::<Value>::new());
    let thorough = run.tier == Tier::Thorough;

    let workers = n_workers();
    let parent_covs = run.fan_out(workers);
    par_for(if parent_covs.is_some() { 0 } else { work.len() }, |wi| {
        if !run.mine(wi) {
            return;
        }
        if budget.exceeded() {
            return;
        }
        let (flush, rotation, ops, tick) = &work[wi];
        let tick = *tick;
        let now1 = if tick { T0 + 20 } else { T0 };
        let now2 = if tick { T0 + 40 } else { T0 };
        let now3 = if tick { T0 + 60 } else { T0 };
        let dir = root.join(format!("w{wi}"));
        let live = dir.join("live");
        let rec = dir.join("rec");
        let rt = tokio::runtime::Builder::new_current_thread().enable_all().build().unwrap();
        let res = catch(|| {
            rt.block_on(async {
                let ms = models(ops);
                let images = match run_history(&live, ops, *flush, *rotation, tick).await {
                    Ok(i) => i,
                    Err(e) => {
                        run.violation_lazy("C06.op-failed", feats(&[("op", ops.last().unwrap().kind().into())]), || (json!({"history": hist_json(ops), "error": e}), format!("operation failed without any fault: {e}")));
                        return;
                    }
                };
                images_n.fetch_add(images.len() as u64, Ordering::Relaxed);
                let last_kind = ops.last().unwrap().kind();
                for (ii, img) in images.iter().enumerate() {
                    distinct.eval();
                    recoveries.fetch_add(1, Ordering::Relaxed);
                    let ctx = |extra: Value| {
                        json!({"history": hist_json(ops), "flush": flush_name(*flush), "rotation_after_entries": rotation, "clock_ticks_per_op": tick, "crash_at": img.label, "ops_acknowledged": img.acked,
                               "image": files_summary(&img.files), "detail": extra})
                    };
                    let r = match recover(&rec, &img.files, *flush, *rotation, now1).await {
                        Ok(r) => r,
                        Err(e) => {
                            run.violation_lazy("C06.reopen", feats(&[("op", last_kind.into()), ("at", label_class(&img.label))]), || (ctx(json!({"error": e})), format!("reopen failed after crash at {}: {e}", img.label)));
                            continue;
                        }
                    };
                    // which prefixes does the recovered map equal?
                    let matching: Vec<usize> = (0..ms.len()).filter(|j| ms[*j] == r.map).collect();
                    distinct.outcome(&(last_kind, label_class(&img.label), matching.last().map(|p| *p as i64 - img.acked as i64)));
                    let n = ops.len();
                    if matching.is_empty() {
                        // not a prefix: classify
                        let shape = if last_kind == "batch" && {
                            // between M_{n-1} and M_n: every key has its M_{n-1} or M_n value
                            let a = &ms[n - 1];
                            let b = &ms[n];
                            let keys: std::collections::BTreeSet<&String> = a.keys().chain(b.keys()).chain(r.map.keys()).collect();
                            keys.iter().all(|k| r.map.get(*k) == a.get(*k) || r.map.get(*k) == b.get(*k))
                        } {
                            "torn-batch"
                        } else if r.map.is_empty() {
                            "nothing-recovered"
                        } else {
                            "mixed-state"
                        };
                        run.violation_lazy("C06.prefix", feats(&[("op", last_kind.into()), ("shape", shape.into()), ("at", label_class(&img.label))]), || {
                            (ctx(json!({"recovered": r.map, "models_by_prefix": ms})), format!("crash at {} during {last_kind}: recovered {:?} is the state of no prefix", img.label, r.map))
                        });
                    } else if matches!(flush, FlushStrategy::Always) {
                        let best = *matching.last().unwrap();
                        if best < img.acked {
                            let clause = if img.label == "after-op" || img.label == "between-ops" { "C06.clean" } else { "C06.acked" };
                            let shape = if r.map.is_empty() && !ms[img.acked].is_empty() { "nothing-recovered" } else { "acknowledged-op-lost" };
                            run.violation_lazy(clause, feats(&[("op", last_kind.into()), ("shape", shape.into()), ("at", label_class(&img.label))]), || {
                                (ctx(json!({"recovered": r.map, "expected_at_least": ms[img.acked], "models_by_prefix": ms})), format!("crash at {} during {last_kind}: recovered {:?} (prefix {best}) but {} operations were acknowledged", img.label, r.map, img.acked))
                            });
                        }
                    }
                    // ---- second cycle: from the recovered state, every 1-op extension, clean reopen
                    // (non-torn images only in quick; all images in thorough)
                    // (in quick: every crash-point image, every torn image that ends inside a length prefix, and every 7th other torn image)
                    if !(thorough || !img.torn || img.label.starts_with("torn:wal:size-written") || ii % 7 == 0) {
                        continue;
                    }
                    let base_files = read_dir_files(&rec); // directory as left by recovery (may have rotated a torn log aside)
                    drop(r.mgr);
                    let recovered_map: Model = r.map.clone();
                    let before_ids = wal_ids(&base_files);
                    let max_before = before_ids.iter().map(|x| x.1).max();
                    for (ei, ext) in alpha.iter().enumerate() {
                        second_cycles.fetch_add(1, Ordering::Relaxed);
                        distinct.eval();
                        let idx = 50 + ei; // value distinct from every history value
                        let r2 = match recover(&rec, &base_files, *flush, *rotation, now2).await {
                            Ok(x) => x,
                            Err(_) => continue,
                        };
                        if r2.map != recovered_map {
                            run.violation_lazy("C06.stable", feats(&[("op", last_kind.into()), ("at", label_class(&img.label))]), || {
                                (ctx(json!({"first_recovery": recovered_map, "second_recovery": r2.map})), "reopening an already recovered directory gives a different state".to_string())
                            });
                        }
                        if let Err(e) = real_apply(&r2.mgr, ext, idx).await {
                            run.violation_lazy("C06.op-failed", feats(&[("op", ext.kind().into()), ("after", label_class(&img.label))]), || (ctx(json!({"extension": ext.json(idx), "error": e})), format!("operation after recovery failed: {e}")));
                            continue;
                        }
                        drop(r2.mgr);
                        let after_files = read_dir_files(&rec);
                        let mut want = recovered_map.clone();
                        model_apply(&mut want, ext, idx);
                        let r3 = match recover(&rec, &after_files, *flush, *rotation, now3).await {
                            Ok(x) => x,
                            Err(e) => {
                                run.violation_lazy("C06.reopen", feats(&[("op", ext.kind().into()), ("at", "second-cycle".into())]), || (ctx(json!({"extension": ext.json(idx), "error": e})), format!("reopen failed in second cycle: {e}")));
                                continue;
                            }
                        };
                        distinct.outcome(&("cycle2", ext.kind(), label_class(&img.label), r3.map == want));
                        if matches!(flush, FlushStrategy::Always) && r3.map != want {
                            let shape = if r3.map == recovered_map { "write-after-recovery-lost" } else { "other" };
                            run.violation_lazy("C06.cycle", feats(&[("first_crash_at", label_class(&img.label)), ("ext", ext.kind().into()), ("shape", shape.into())]), || {
                                (ctx(json!({"recovered_after_first_crash": recovered_map, "extension": ext.json(idx), "after_clean_restart": r3.map, "expected": want})),
                                 format!("crash at {}, recover, {} acknowledged, clean restart: got {:?}, expected {:?}", img.label, ext.kind(), r3.map, want))
                            });
                        }
                        drop(r3.mgr);
                        // counter: ids of records written after the restart exceed every id in the image
                        let after_ids = wal_ids(&after_files);
                        let mut before_multiset: Vec<&Vec<u8>> = before_ids.iter().map(|x| &x.2).collect();
                        let mut new_ids = Vec::new();
                        for (_, id, raw) in &after_ids {
                            if let Some(p) = before_multiset.iter().position(|b| *b == raw) {
                                before_multiset.swap_remove(p);
                            } else {
                                new_ids.push(*id);
                            }
                        }
                        if let (Some(mb), Some(mn)) = (max_before, new_ids.iter().min()) {
                            if *mn <= mb && !matches!(ext, Op::Checkpoint) {
                                run.violation_lazy("C06.counter", feats(&[("first_crash_at", label_class(&img.label)), ("ext", ext.kind().into())]), || {
                                    (ctx(json!({"max_transaction_id_before_restart": mb, "ids_written_after_restart": new_ids})), format!("transaction id {mn} written after restart does not exceed {mb} written before"))
                                });
                            }
                        }
                    }
                }
                let mut s = samples.lock().unwrap();
                if s.len() < 4 && ops.len() == max_len.min(3) {
                    s.push(json!({"history": hist_json(ops), "flush": flush_name(*flush), "rotation_after_entries": rotation, "images": images.iter().map(|i| i.label.clone()).collect::<Vec<_>>()}));
                }
            })
        });
        if let Err(p) = res {
            run.violation_lazy("C06.nopanic", feats(&[("op", ops.last().map(|o| o.kind()).unwrap_or("-").into())]), || (json!({"history": hist_json(ops), "panic": p}), format!("panic: {p}")));
        }
        let _ = std::fs::remove_dir_all(&dir);
        hist_done.fetch_add(1, Ordering::Relaxed);
    });
    // ---- thorough: one long history with the REAL rotation threshold (1000 entries): 2100 upserts over 3 keys, crash
    // images at every rotation step and after the operations around both rotations; each image must recover exactly
    // the acknowledged prefix
    if thorough && (run.shard().0 == 0 || !run.is_child()) && parent_covs.is_none() {
        let dir = root.join("long");
        let rt = tokio::runtime::Builder::new_current_thread().enable_all().build().unwrap();
        rt.block_on(async {
            use std::cell::RefCell;
            use std::rc::Rc;
            let live = dir.join("live");
            let _ = std::fs::remove_dir_all(&live);
            saorsa_core::verif_hooks::set_wal_rotation_entries(None);
            saorsa_core::verif_hooks::set_timestamp_override(Some(T0));
            let mgr = match Mgr::new(config(&live, FlushStrategy::Always)).await {
                Ok(m) => m,
                Err(e) => {
                    run.machinery_error(format!("long history: {e}"));
                    return;
                }
            };
            let keys = ["a", "b", "c"];
            let acked: Rc<RefCell<usize>> = Rc::new(RefCell::new(0));
            let imgs: Rc<RefCell<Vec<(String, usize, Files)>>> = Rc::new(RefCell::new(Vec::new()));
            {
                let (im, ac, d) = (imgs.clone(), acked.clone(), live.clone());
                saorsa_core::verif_hooks::set_crash_point(Some(Rc::new(move |label: &str, _p: &std::path::Path| {
                    if label.starts_with("rotate:") {
                        im.borrow_mut().push((label.to_string(), *ac.borrow(), read_dir_files(&d)));
                    }
                })));
            }
            let mut model = Model::new();
            let mut models: Vec<Model> = vec![model.clone()];
            for i in 0..2100usize {
                saorsa_core::verif_hooks::set_timestamp_override(Some(T0 + (i / 700) as u64));
                let k = keys[i % 3];
                if let Err(e) = mgr.upsert(k.to_string(), 5000 + i as u32).await {
                    run.violation_lazy("C06.op-failed", feats(&[("op", "upsert".into()), ("after", "long-history".into())]), || (json!({"index": i, "error": e.to_string()}), format!("upsert {i} failed: {e}")));
                    return;
                }
                model.insert(k.to_string(), 5000 + i as u32);
                models.push(model.clone());
                *acked.borrow_mut() = i + 1;
                if [998, 999, 1000, 1001, 1998, 1999, 2000, 2001, 2099].contains(&i) {
                    imgs.borrow_mut().push((format!("after-op-{i}"), i + 1, read_dir_files(&live)));
                }
            }
            saorsa_core::verif_hooks::set_crash_point(None);
            drop(mgr);
            let all = imgs.borrow().clone();
            for (label, ack, files) in all.iter() {
                distinct.eval();
                recoveries.fetch_add(1, Ordering::Relaxed);
                images_n.fetch_add(1, Ordering::Relaxed);
                match recover(&dir.join("rec"), files, FlushStrategy::Always, None, T0 + 50).await {
                    Ok(r) => {
                        let ok = r.map == models[*ack] || (label.starts_with("rotate:") && *ack + 1 < models.len() && r.map == models[*ack + 1]);
                        distinct.outcome(&("long", label.split('-').next().unwrap_or("").to_string(), ok));
                        if !ok {
                            let shape = if r.map.is_empty() { "nothing-recovered" } else { "acknowledged-op-lost" };
                            run.violation_lazy("C06.acked", feats(&[("op", "upsert".into()), ("shape", shape.into()), ("at", format!("long-history:{}", label.split('-').next().unwrap_or("")))]), || {
                                (json!({"history": "2100 upserts, keys a/b/c round robin, value 5000+i, real rotation threshold", "crash_at": label, "ops_acknowledged": ack, "recovered": r.map, "expected": models[*ack], "files": files.iter().map(|(n, b)| json!([n, b.len()])).collect::<Vec<_>>()}),
                                 format!("long history, crash at {label}: recovered {:?}, expected {:?}", r.map, models[*ack]))
                            });
                        }
                    }
                    Err(e) => run.violation_lazy("C06.reopen", feats(&[("op", "upsert".into()), ("at", "long-history".into())]), || (json!({"crash_at": label, "error": e}), format!("reopen failed: {e}"))),
                }
            }
        });
        let _ = std::fs::remove_dir_all(&dir);
    }
    let _ = std::fs::remove_dir_all(&root);
    if budget.was_hit() {
        run.cap_hit(format!("wall-clock budget: worker {:?} completed {} histories of its share", run.shard(), hist_done.load(Ordering::Relaxed)));
    }
    if run.is_child() {
        run.finish(
            cov(vec![("_distinct", distinct.export()), ("histories", json!(hist_done.load(Ordering::Relaxed))), ("crash_images", json!(images_n.load(Ordering::Relaxed))),
                     ("recoveries", json!(recoveries.load(Ordering::Relaxed))), ("second_cycle_runs", json!(second_cycles.load(Ordering::Relaxed))), ("samples", json!(samples.lock().unwrap().clone())),
                     ("budget_hit", json!(budget.was_hit()))]),
            vec![],
        );
    }
    let covs = parent_covs.unwrap_or_default();
    for c in &covs {
        if let Some(d) = c.get("_distinct") {
            distinct.import(d);
        }
        if let Some(a) = c.get("samples").and_then(|v| v.as_array()) {
            let mut s = samples.lock().unwrap();
            for x in a {
                if s.len() < 4 {
                    s.push(x.clone());
                }
            }
        }
    }
    hist_done.store(sum_cov(&covs, "histories"), Ordering::Relaxed);
    images_n.store(sum_cov(&covs, "crash_images"), Ordering::Relaxed);
    recoveries.store(sum_cov(&covs, "recoveries"), Ordering::Relaxed);
    second_cycles.store(sum_cov(&covs, "second_cycle_runs"), Ordering::Relaxed);
    let any_budget = covs.iter().any(|c| c.get("budget_hit").and_then(|v| v.as_bool()).unwrap_or(false));
    if hist_done.load(Ordering::Relaxed) != work.len() as u64 && !any_budget {
        run.machinery_error(format!("workers completed {} of {} histories without reporting a cap", hist_done.load(Ordering::Relaxed), work.len()));
    }
    let coverage = cov(vec![
        ("evaluations", json!(distinct.evaluations())),
        ("distinct_nontrivial", json!(distinct.distinct())),
        ("rule", json!("evaluation = one recovery of a crash image (or one second-cycle extension+restart) compared with the reference model; distinct = distinct (operation kind, crash-point class, recovered-prefix offset relative to acknowledged) outcomes")),
        ("samples", json!(samples.into_inner().unwrap())),
        ("exhaustive", json!(!any_budget)),
        ("bounds", json!({"alphabet": alpha.iter().enumerate().map(|(i, o)| o.json(i)).collect::<Vec<_>>(), "max_history_len": max_len,
                           "configs": configs.iter().map(|(f, r, l, t)| json!({"flush": flush_name(*f), "rotation_after_entries": r, "len": l, "clock_ticks_per_op": t})).collect::<Vec<_>>(),
                           "histories": hist_done.load(Ordering::Relaxed), "crash_images": images_n.load(Ordering::Relaxed), "recoveries": recoveries.load(Ordering::Relaxed), "second_cycle_runs": second_cycles.load(Ordering::Relaxed)})),
    ]);
    run.finish(
        coverage,
        vec![
            "crash model = process death: bytes handed to write() survive in order; power-loss reordering of unsynced writes is not modelled (the log path has no fsync)".into(),
            "images are taken during the last operation of each history; earlier operations are the last operation of a shorter enumerated history".into(),
            "a batch counts as one operation".into(),
            "quick tier runs the second cycle on crash-point images, on every image torn inside a length prefix and on every 7th other torn image; thorough on all".into(),
        ],
    );
}
