//! C07 — damaged log or snapshot data is detected and never replayed as state.
//!
//! For the final directory image of every enumerated history, every single-site damage from a fixed
//! menu at every offset of every log/snapshot file (thorough: also pairs on small files) is applied;
//! the damaged directory is reopened with a fresh real manager and judged against the fold of the
//! surviving records.
use saorsa_core::persistent_state::{FlushStrategy, SnapshotHeader};
use serde_json::{Value, json};
use std::collections::{BTreeMap, BTreeSet};
use std::sync::atomic::{AtomicU64, Ordering};
use std::time::Duration;
use vh::core::*;
use vh::wal::*;

#[global_allocator]
static A: CountingAlloc = CountingAlloc;

#[derive(Clone, Debug)]
struct Rec {
    file: String,
    off: usize,
    len: usize, // including the 4-byte prefix
    id: u64,
    key: String,
    val: Option<u32>,
}

/// Records of an (undamaged) image in replay order: rotated logs by name, then the live log.
fn records(files: &Files) -> Vec<Rec> {
    let mut names: Vec<&String> = files.keys().filter(|n| n.ends_with(".wal")).collect();
    names.sort_by(|a, b| (a.as_str() == "state.wal").cmp(&(b.as_str() == "state.wal")).then(a.cmp(b)));
    let mut out = Vec::new();
    for n in names {
        for (off, len, e) in parse_wal(&files[n]) {
            let val = e.value.as_ref().and_then(|v| postcard::from_bytes::<u32>(v).ok());
            out.push(Rec { file: n.clone(), off, len, id: e.transaction_id, key: e.key.clone(), val });
        }
    }
    out
}

/// Newest snapshot of an image: (name, header_len_incl_prefix, header, map)
fn snapshot(files: &Files) -> Option<(String, usize, SnapshotHeader, Model)> {
    let mut names: Vec<&String> = files.keys().filter(|n| n.ends_with(".snap")).collect();
    names.sort();
    let n = names.last()?;
    let b = &files[*n];
    if b.len() < 4 {
        return None;
    }
    let hl = u32::from_le_bytes([b[0], b[1], b[2], b[3]]) as usize;
    let h: SnapshotHeader = postcard::from_bytes(b.get(4..4 + hl)?).ok()?;
    let m: std::collections::HashMap<String, u32> = postcard::from_bytes(&b[4 + hl..]).ok()?;
    Some(((*n).clone(), 4 + hl, h, m.into_iter().collect()))
}

/// Every decodable snapshot of an image: (name, map, last transaction id covered)
fn snapshots_all(files: &Files) -> Vec<(String, Model, u64)> {
    let mut out = Vec::new();
    for (n, b) in files {
        if !n.ends_with(".snap") || b.len() < 4 {
            continue;
        }
        let hl = u32::from_le_bytes([b[0], b[1], b[2], b[3]]) as usize;
        let Some(hb) = b.get(4..4 + hl) else { continue };
        let Ok(h) = postcard::from_bytes::<SnapshotHeader>(hb) else { continue };
        let Ok(m) = postcard::from_bytes::<std::collections::HashMap<String, u32>>(&b[4 + hl..]) else { continue };
        out.push((n.clone(), m.into_iter().collect(), h.last_transaction_id));
    }
    out
}

fn fold(base: &Model, covered: u64, recs: &[&Rec]) -> Model {
    let mut m = base.clone();
    for r in recs {
        if r.id <= covered {
            continue;
        }
        match r.val {
            Some(v) => {
                m.insert(r.key.clone(), v);
            }
            None => {
                m.remove(&r.key);
            }
        }
    }
    m
}

#[derive(Clone, Debug)]
struct Damage {
    file: String,
    kind: &'static str,
    off: usize,
    param: u64,
}

#[derive(Clone, Debug, Default)]
struct Class {
    /// index (in replay order) of the first record touched, if the damage lies inside a log record
    rec: Option<usize>,
    /// damage confined to the payload of one record, record length unchanged (framing intact)
    framing_intact: bool,
    /// a report is required under the reading used (see assumptions)
    report_required: bool,
    /// where the damage fell, for the signature
    region: &'static str,
    /// damage changes nothing (e.g. set 0x00 on a 0x00 byte)
    noop: bool,
    /// all records from this replay index on may be lost (framing lost); None = no record may be lost
    lost_from: Option<usize>,
    in_snapshot: bool,
}

fn apply_damage(files: &Files, d: &Damage, foreign: &Files) -> Option<Files> {
    let mut f = files.clone();
    let b = f.get_mut(&d.file)?;
    match d.kind {
        "flip" => {
            *b.get_mut(d.off)? ^= 1u8 << d.param;
        }
        "set" => {
            *b.get_mut(d.off)? = d.param as u8;
        }
        "delete" => {
            if d.off >= b.len() {
                return None;
            }
            b.remove(d.off);
        }
        "insert" => {
            if d.off > b.len() {
                return None;
            }
            b.insert(d.off, d.param as u8);
        }
        "truncate" => {
            if d.off >= b.len() {
                return None;
            }
            b.truncate(d.off);
        }
        "prefix" => {
            // replace the 4-byte length prefix at off
            if d.off + 4 > b.len() {
                return None;
            }
            b[d.off..d.off + 4].copy_from_slice(&(d.param as u32).to_le_bytes());
        }
        "append" => {
            let n = d.param as usize;
            for i in 0..n {
                b.push(0xA5u8.wrapping_add(i as u8));
            }
        }
        "transplant" => {
            // insert the param-th record of the foreign store's live log at offset off (a record boundary)
            let fl = foreign.get("state.wal")?;
            let recs = parse_wal(fl);
            let (o, l, _) = recs.get(d.param as usize)?;
            let bytes = fl[*o..*o + *l].to_vec();
            let tail = b.split_off(d.off);
            b.extend_from_slice(&bytes);
            b.extend_from_slice(&tail);
        }
        "dup" | "move" => {
            // duplicate (or move) the record starting at `off` to the record boundary `param`
            let recs = parse_wal(b);
            let (o, l, _) = recs.iter().find(|(o, _, _)| *o == d.off)?.clone();
            let bytes = b[o..o + l].to_vec();
            let mut dst = d.param as usize;
            if d.kind == "move" {
                b.drain(o..o + l);
                if dst > o {
                    dst -= l;
                }
            }
            let tail = b.split_off(dst);
            b.extend_from_slice(&bytes);
            b.extend_from_slice(&tail);
        }
        _ => return None,
    }
    if f == *files { None } else { Some(f) }
}

fn main() {
    let run = Run::new("C07", "fault_enumeration");
    quiet_panics();
    let distinct = Distinct::default();
    let budget = Budget::new(Duration::from_secs(run.tier.pick(50, 1700)));
    let alpha: Vec<Op> = vec![Op::Up("a"), Op::Up("b"), Op::Del("a"), Op::BatchUpUp("a", "b"), Op::BatchUpDel("b", "a"), Op::Checkpoint];
    // base histories: all short ones + selected layouts (snapshot + rotated log + live log, two rotated logs)
    let mut hists: Vec<(Vec<Op>, Option<u64>)> = Vec::new();
    for h in all_histories(&alpha, run.tier.pick(2, 4)) {
        hists.push((h, None));
    }
    let sel: Vec<Vec<Op>> = vec![
        vec![Op::Up("a"), Op::Up("b"), Op::Del("a")],
        vec![Op::Up("a"), Op::Checkpoint, Op::Up("b"), Op::Up("a"), Op::Up("b")],
        vec![Op::Up("a"), Op::Up("b"), Op::Up("a"), Op::Up("b"), Op::Del("b")],
        vec![Op::BatchUpUp("a", "b"), Op::Checkpoint, Op::Del("a"), Op::Up("a"), Op::Checkpoint, Op::Up("b")],
    ];
    for h in sel {
        hists.push((h, Some(2)));
    }
    let root = scratch_root("c07");
    let workers = n_workers();
    let parent = run.fan_out(workers);
    let damages_n = AtomicU64::new(0);
    let images_n = AtomicU64::new(0);
    let samples = std::sync::Mutex::new(Vec::<Value>::new());
    let pairs = run.tier == Tier::Thorough;

    par_for(if parent.is_some() { 0 } else { hists.len() }, |hi| {
        let (ops, rotation) = &hists[hi];
        let rotation = *rotation;
        let dir = root.join(format!("h{hi}"));
        let rt = tokio::runtime::Builder::new_current_thread().enable_all().build().unwrap();
        rt.block_on(async {
            let imgs = match run_history(&dir.join("live"), ops, FlushStrategy::Always, rotation, true).await {
                Ok(i) => i,
                Err(e) => {
                    run.machinery_error(format!("base history failed: {e}"));
                    return;
                }
            };
            let base = imgs.last().unwrap().files.clone();
            // foreign store: same operations, other values (index shifted), own key
            let fimgs = run_history(&dir.join("foreign"), &[Op::Up("a"), Op::Up("b")], FlushStrategy::Always, None, true).await.unwrap_or_default();
            let mut foreign = fimgs.last().map(|i| i.files.clone()).unwrap_or_default();
            // give the foreign records values no local op ever wrote: rewrite is impossible without the key, so use
            // a history whose positions differ instead: foreign wrote a=1000,b=1010 only if local did not; mark by id below
            let recs = records(&base);
            let snap = snapshot(&base);
            let (snap_base, covered) = match &snap {
                Some((_, _, h, m)) => (m.clone(), h.last_transaction_id),
                None => (Model::new(), 0),
            };
            let all: Vec<&Rec> = recs.iter().collect();
            let undamaged = fold(&snap_base, covered, &all);
            // values genuinely written per key by this history (from the model)
            let mut genuine: BTreeMap<String, BTreeSet<u32>> = BTreeMap::new();
            for (i, o) in ops.iter().enumerate() {
                let mut m = Model::new();
                model_apply(&mut m, o, i);
                for (k, v) in m {
                    genuine.entry(k).or_default().insert(v);
                }
            }
            // sanity: undamaged image recovers to the fold (otherwise C06's business / machinery)
            match recover(&dir.join("rec"), &base, FlushStrategy::Always, rotation, T0 + 30).await {
                Ok(r) => {
                    if r.map != undamaged {
                        run.machinery_error(format!("reference fold {undamaged:?} differs from undamaged recovery {:?} for {ops:?}", r.map));
                        return;
                    }
                }
                Err(e) => {
                    run.machinery_error(format!("undamaged recovery failed: {e}"));
                    return;
                }
            }
            // make foreign values distinguishable: only keep foreign stores whose values differ from local genuine values
            if let Some(fl) = foreign.get("state.wal") {
                let clash = parse_wal(fl).iter().any(|(_, _, e)| e.value.as_ref().and_then(|v| postcard::from_bytes::<u32>(v).ok()).map(|v| genuine.get(&e.key).map(|s| s.contains(&v)).unwrap_or(false)).unwrap_or(false));
                if clash {
                    // shift: run the foreign history with two leading deletes so positions (and thus values) differ
                    let f2 = run_history(&dir.join("foreign"), &[Op::Del("a"), Op::Del("a"), Op::Del("a"), Op::Del("a"), Op::Del("a"), Op::Del("a"), Op::Del("a"), Op::Up("a"), Op::Up("b")], FlushStrategy::Always, None, true).await.unwrap_or_default();
                    foreign = f2.last().map(|i| i.files.clone()).unwrap_or_default();
                }
            }
            images_n.fetch_add(1, Ordering::Relaxed);

            // ---- enumerate damages
            let mut dmg: Vec<(Damage, Class)> = Vec::new();
            for (name, bytes) in &base {
                let is_wal = name.ends_with(".wal");
                let is_snap = name.ends_with(".snap");
                if !is_wal && !is_snap {
                    continue;
                }
                let frecs: Vec<(usize, &Rec)> = recs.iter().enumerate().filter(|(_, r)| &r.file == name).collect();
                let first_idx = frecs.first().map(|(i, _)| *i);
                let next_file_first = |_: ()| -> usize { frecs.last().map(|(i, _)| *i + 1).unwrap_or(0) };
                let locate = |off: usize| -> (Option<usize>, bool) {
                    // (record index, in prefix?)
                    for (i, r) in &frecs {
                        if off >= r.off && off < r.off + r.len {
                            return (Some(*i), off < r.off + 4);
                        }
                    }
                    (None, false)
                };
                let boundaries: Vec<usize> = {
                    let mut b: Vec<usize> = frecs.iter().map(|(_, r)| r.off).collect();
                    b.push(bytes.len());
                    b
                };
                let _ = (first_idx, next_file_first);
                for off in 0..bytes.len() {
                    let (ri, in_prefix) = if is_wal { locate(off) } else { (None, false) };
                    let mk = |framing: bool, lost_from: Option<usize>, region: &'static str| Class { rec: ri, framing_intact: framing, report_required: true, region, noop: false, lost_from, in_snapshot: is_snap };
                    for bit in 0..8u64 {
                        let c = if is_snap { mk(false, None, "snapshot") } else if in_prefix { mk(false, ri, "length-prefix") } else { mk(true, None, "record-payload") };
                        dmg.push((Damage { file: name.clone(), kind: "flip", off, param: bit }, c));
                    }
                    for v in [0x00u64, 0xFF] {
                        let c = if is_snap { mk(false, None, "snapshot") } else if in_prefix { mk(false, ri, "length-prefix") } else { mk(true, None, "record-payload") };
                        dmg.push((Damage { file: name.clone(), kind: "set", off, param: v }, c));
                    }
                    // delete / insert shift everything behind: framing of this record and all later ones in the file is lost
                    let c = if is_snap { mk(false, None, "snapshot") } else { mk(false, ri, "shift") };
                    dmg.push((Damage { file: name.clone(), kind: "delete", off, param: 0 }, c.clone()));
                    for v in [0x00u64, 0x80, 0xFF] {
                        dmg.push((Damage { file: name.clone(), kind: "insert", off, param: v }, c.clone()));
                    }
                    // truncate here
                    let at_boundary = boundaries.contains(&off);
                    let mut c = if is_snap { mk(false, None, "snapshot") } else { mk(false, ri.or_else(|| frecs.iter().find(|(_, r)| r.off >= off).map(|(i, _)| *i)), "truncate") };
                    if is_wal && at_boundary {
                        c.report_required = false; // cut exactly between records: not detectable without a trailer
                        c.region = "truncate-at-boundary";
                        c.lost_from = frecs.iter().find(|(_, r)| r.off >= off).map(|(i, _)| *i);
                    }
                    dmg.push((Damage { file: name.clone(), kind: "truncate", off, param: 0 }, c));
                }
                if is_wal {
                    for (i, r) in &frecs {
                        let body = (r.len - 4) as u64;
                        let remaining = (bytes.len() - r.off - 4) as u64;
                        for v in [0u64, 1, body.saturating_sub(1), body + 1, remaining + 1, 1 << 31, u32::MAX as u64] {
                            if v == body {
                                continue;
                            }
                            dmg.push((Damage { file: name.clone(), kind: "prefix", off: r.off, param: v }, Class { rec: Some(*i), framing_intact: false, report_required: true, region: "length-prefix", noop: false, lost_from: Some(*i), in_snapshot: false }));
                        }
                        // duplicate / move this record to every record boundary of the same file
                        for &b in &boundaries {
                            for kind in ["dup", "move"] {
                                if kind == "move" && (b == r.off || b == r.off + r.len) {
                                    continue;
                                }
                                dmg.push((Damage { file: name.clone(), kind, off: r.off, param: b as u64 }, Class { rec: Some(*i), framing_intact: true, report_required: false, region: "intact-record-reordered", noop: false, lost_from: None, in_snapshot: false }));
                            }
                        }
                    }
                    // transplant each foreign record at each boundary
                    let nf = foreign.get("state.wal").map(|b| parse_wal(b).len()).unwrap_or(0);
                    for &b in &boundaries {
                        for k in 0..nf {
                            dmg.push((Damage { file: name.clone(), kind: "transplant", off: b, param: k as u64 }, Class { rec: None, framing_intact: true, report_required: true, region: "foreign-record", noop: false, lost_from: None, in_snapshot: false }));
                        }
                    }
                    for n in [1u64, 3, 4, 5, 64] {
                        dmg.push((Damage { file: name.clone(), kind: "append", off: bytes.len(), param: n }, Class { rec: None, framing_intact: true, report_required: true, region: "trailing-garbage", noop: false, lost_from: None, in_snapshot: false }));
                    }
                }
            }

            // ---- apply and judge
            let total_size: usize = base.values().map(|b| b.len()).sum();
            let judge = |dlist: &[(Damage, Class)]| {
                // returns a future; defined inline below
                dlist.len()
            };
            let _ = judge;
            let mut todo: Vec<Vec<(Damage, Class)>> = dmg.iter().map(|d| vec![d.clone()]).collect();
            if pairs && total_size <= 200 {
                // all pairs of byte-level damages (flip bit 0 / set 0xFF / delete) on small images
                let small: Vec<&(Damage, Class)> = dmg.iter().filter(|(d, _)| (d.kind == "flip" && d.param == 0) || (d.kind == "set" && d.param == 0xFF) || d.kind == "truncate").collect();
                for i in 0..small.len() {
                    for j in i + 1..small.len() {
                        if small[i].0.kind == "truncate" || (small[j].0.kind == "truncate" && small[j].0.file == small[i].0.file && small[j].0.off <= small[i].0.off) {
                            continue;
                        }
                        todo.push(vec![small[i].clone(), small[j].clone()]);
                    }
                }
            }
            for (ti, dl) in todo.iter().enumerate() {
                if !run.mine(ti) {
                    continue;
                }
                if budget.exceeded() {
                    break;
                }
                let mut files = base.clone();
                let mut ok = true;
                for (d, _) in dl {
                    match apply_damage(&files, d, &foreign) {
                        Some(f) => files = f,
                        None => {
                            ok = false;
                            break;
                        }
                    }
                }
                if !ok {
                    continue; // damage changes nothing / not applicable
                }
                damages_n.fetch_add(1, Ordering::Relaxed);
                distinct.eval();
                let single = dl.len() == 1;
                let (d0, c0) = &dl[0];
                let wit = |extra: Value| {
                    json!({"history": ops.iter().enumerate().map(|(i, o)| o.json(i)).collect::<Vec<_>>(), "rotation_after_entries": rotation,
                           "damage": dl.iter().map(|(d, _)| json!({"file": d.file, "kind": d.kind, "offset": d.off, "param": d.param})).collect::<Vec<_>>(),
                           "undamaged_image": files_summary(&base), "undamaged_state": undamaged, "detail": extra})
                };
                let fts = |extra: &[(&str, String)]| {
                    let mut v = vec![("kind", if single { d0.kind.to_string() } else { "pair".to_string() }), ("region", if single { c0.region.to_string() } else { "pair".into() }), ("file", if d0.file.ends_with(".snap") { "snapshot".to_string() } else if d0.file == "state.wal" { "live-log".into() } else { "rotated-log".into() })];
                    for (k, x) in extra {
                        v.push((k, x.clone()));
                    }
                    feats(&v)
                };
                write_dir_files(&dir.join("rec"), &files);
                let mark = alloc_mark();
                let res = {
                    use futures::FutureExt;
                    std::panic::AssertUnwindSafe(recover(&dir.join("rec"), &files, FlushStrategy::Always, rotation, T0 + 30)).catch_unwind().await.map_err(|e| {
                        e.downcast_ref::<String>().cloned().or_else(|| e.downcast_ref::<&str>().map(|s| s.to_string())).unwrap_or_else(|| "panic".into())
                    })
                };
                let peak = alloc_peak_since(mark);
                let r = match res {
                    Err(p) => {
                        run.violation_lazy("C07.nopanic", fts(&[]), || (wit(json!({"panic": p})), format!("recovery panicked: {p}")));
                        continue;
                    }
                    Ok(Err(e)) => {
                        // refusing to open is a safe outcome for damaged data, but the statement says recovery completes
                        run.violation_lazy("C07.completes", fts(&[]), || (wit(json!({"error": e})), format!("recovery of a damaged directory returned an error: {e}")));
                        continue;
                    }
                    Ok(Ok(r)) => r,
                };
                let mut reported = !r.stats.corruption_events.is_empty() || r.stats.entries_failed > 0 || r.stats.data_loss_detected;
                if !reported && single && dl[0].1.report_required {
                    // files recovery did not need to read (an older snapshot) are reported by the integrity check
                    if let Ok(rep) = r.mgr.verify_integrity().await {
                        reported = rep.corrupted_snapshots > 0 || rep.corrupted_wal_files > 0;
                    }
                }
                distinct.outcome(&(c0.region, d0.kind, reported, r.map == undamaged, single));
                let damaged_size: usize = files.values().map(|b| b.len()).sum();
                // proportional = an affine bound: 8 x the bytes read plus a fixed 4 MiB. The fixed part covers the
                // deserialiser's capped pre-allocation (serde reserves at most 1 MiB of elements for a claimed
                // collection length; the hash table rounds that up to ~2.1 MiB of buckets), which does not grow
                // with the claimed length. An allocation taken from an unchecked length prefix exceeds it.
                if peak > (8 * damaged_size + (4 << 20)) as isize {
                    run.violation_lazy("C07.mem", fts(&[]), || (wit(json!({"peak_live_bytes": peak, "total_file_bytes": damaged_size})), format!("recovery held {peak} live bytes for {damaged_size} bytes of files")));
                }
                // genuine: every recovered value was written for that key by this history
                for (k, v) in &r.map {
                    if !genuine.get(k).map(|s| s.contains(v)).unwrap_or(false) {
                        run.violation_lazy("C07.genuine", fts(&[]), || (wit(json!({"recovered": r.map, "key": k, "value": v, "values_written_for_key": genuine.get(k)})), format!("recovered {k}={v} was never written for that key")));
                    }
                }
                if single {
                    if c0.report_required && !reported {
                        // which part of the snapshot?
                        let sub = if c0.in_snapshot {
                            match &snap {
                                Some((n, hl, _, _)) if *n == d0.file => if d0.off < 4 { "header-length" } else if d0.off < *hl { "header" } else { "payload" },
                                _ => "older-snapshot",
                            }
                        } else {
                            "-"
                        };
                        run.violation_lazy("C07.report", fts(&[("part", sub.into())]), || (wit(json!({"recovered": r.map, "stats": format!("{:?}", r.stats)})), format!("{} at {}+{} ({}) not reported: no corruption event, no failed entry", d0.kind, d0.file, d0.off, c0.region)));
                    }
                    if c0.in_snapshot {
                        // the log's records are all intact: whichever snapshot recovery ends up using (the damaged one if
                        // the damage is harmless, an older one, or none), every log record it does not cover is honoured
                        let mut acceptable: Vec<Model> = vec![undamaged.clone(), fold(&Model::new(), 0, &all)];
                        for (n, m, cov_id) in snapshots_all(&base) {
                            if n != d0.file {
                                acceptable.push(fold(&m, cov_id, &all));
                            }
                        }
                        if !acceptable.contains(&r.map) {
                            run.violation_lazy("C07.before", fts(&[("shape", "intact-log-records-not-honoured-after-snapshot-damage".into())]), || (wit(json!({"recovered": r.map, "acceptable": acceptable})), format!("snapshot damaged, log intact: recovered {:?} is neither the undamaged state nor an intact snapshot (or none) plus every log record", r.map)));
                        }
                    }
                    if !c0.in_snapshot {
                        // before / after
                        if c0.framing_intact && c0.report_required && c0.region == "record-payload" {
                            // exactly the damaged record is dropped, everything else honoured
                            let surv: Vec<&Rec> = recs.iter().enumerate().filter(|(i, _)| Some(*i) != c0.rec).map(|(_, r)| r).collect();
                            let want = fold(&snap_base, covered, &surv);
                            if r.map != want {
                                let later_lost = c0.rec.map(|d| recs.iter().enumerate().any(|(i, rr)| i > d && rr.id > covered)).unwrap_or(false);
                                let clause = if later_lost && r.map == fold(&snap_base, covered, &recs.iter().take(c0.rec.unwrap_or(0)).collect::<Vec<_>>()) { "C07.after" } else { "C07.before" };
                                run.violation_lazy(clause, fts(&[]), || (wit(json!({"recovered": r.map, "expected": want, "damaged_record_index": c0.rec})), format!("framing intact, record {:?} damaged: recovered {:?}, expected {:?}", c0.rec, r.map, want)));
                            }
                        } else if let Some(from) = c0.lost_from.or(if c0.region == "truncate" || c0.region == "shift" || c0.region == "length-prefix" { c0.rec } else { None }) {
                            // records before `from` honoured; any subset of later records of the same file may be lost,
                            // records of later files are honoured (their framing is untouched)
                            let same_file_later: Vec<usize> = recs.iter().enumerate().filter(|(i, rr)| *i >= from && rr.file == d0.file).map(|(i, _)| i).collect();
                            let mut okk = false;
                            for mask in 0..(1u32 << same_file_later.len().min(12)) {
                                let surv: Vec<&Rec> = recs.iter().enumerate().filter(|(i, _)| match same_file_later.iter().position(|x| x == i) { Some(p) => mask >> p & 1 == 1, None => true }).map(|(_, r)| r).collect();
                                if fold(&snap_base, covered, &surv) == r.map {
                                    okk = true;
                                    break;
                                }
                            }
                            if !okk {
                                run.violation_lazy("C07.before", fts(&[]), || (wit(json!({"recovered": r.map, "records_before_damage": from})), format!("records before the damage (replay index < {from}) or in untouched files are not honoured: recovered {:?}", r.map)));
                            }
                        } else if r.map != undamaged && c0.region != "intact-record-reordered" {
                            run.violation_lazy("C07.before", fts(&[]), || (wit(json!({"recovered": r.map, "expected": undamaged})), format!("damage outside every record changed the state: {:?} vs {:?}", r.map, undamaged)));
                        }
                    }
                }
                drop(r);
            }
            let mut s = samples.lock().unwrap();
            if s.len() < 3 && run.shard().0 == 0 {
                s.push(json!({"history": ops.iter().enumerate().map(|(i, o)| o.json(i)).collect::<Vec<_>>(), "files": base.iter().map(|(n, b)| json!([n, b.len()])).collect::<Vec<_>>(), "damage_sites": dmg.len(),
                              "example_damage": dmg.get(dmg.len() / 2).map(|(d, c)| json!({"file": d.file, "kind": d.kind, "offset": d.off, "param": d.param, "region": c.region}))}));
            }
        });
        let _ = std::fs::remove_dir_all(&dir);
    });
    let _ = std::fs::remove_dir_all(&root);
    if budget.was_hit() {
        run.cap_hit(format!("wall-clock budget hit in worker {:?}", run.shard()));
    }
    if run.is_child() {
        run.finish(cov(vec![("_distinct", distinct.export()), ("damages", json!(damages_n.load(Ordering::Relaxed))), ("images", json!(images_n.load(Ordering::Relaxed))), ("samples", json!(samples.lock().unwrap().clone())), ("budget_hit", json!(budget.was_hit()))]), vec![]);
    }
    let covs = parent.unwrap_or_default();
    let mut smp = Vec::new();
    for c in &covs {
        if let Some(d) = c.get("_distinct") {
            distinct.import(d);
        }
        if let Some(a) = c.get("samples").and_then(|v| v.as_array()) {
            smp.extend(a.iter().cloned());
        }
    }
    smp.truncate(4);
    let any_budget = covs.iter().any(|c| c.get("budget_hit").and_then(|v| v.as_bool()).unwrap_or(false));
    let coverage = cov(vec![
        ("evaluations", json!(distinct.evaluations())),
        ("distinct_nontrivial", json!(distinct.distinct())),
        ("rule", json!("evaluation = one recovery of a damaged directory; distinct = distinct (damage region, damage kind, reported?, state unchanged?) outcomes")),
        ("samples", json!(smp)),
        ("exhaustive", json!(!any_budget)),
        ("bounds", json!({"base_histories": hists.len(), "damaged_recoveries": sum_cov(&covs, "damages"), "pairs_on_small_images": pairs,
                           "menu": ["flip x8", "set 00/FF", "delete byte", "insert 00/80/FF", "truncate", "length prefix := 0,1,len-1,len+1,rest+1,2^31,2^32-1", "duplicate/move record to every boundary", "transplant foreign record at every boundary", "append 1,3,4,5,64 bytes"]})),
    ]);
    run.finish(
        coverage,
        vec![
            "reading of 'reports the damage': required when the damage leaves a malformed or unverifiable record/snapshot behind; a cut exactly at a record boundary and a duplicated/moved intact record are not required to be reported".into(),
            "a duplicated or moved intact record may let an older genuinely written value win; allowed by the statement and not judged".into(),
            "peak memory is measured on the recovering thread with a counting global allocator".into(),
        ],
    );
}
