//! C08 — signatures verify only for the exact message and key that produced them (ship build).
//!
//! Bounded-exhaustive enumeration over the real crate, built with debug assertions OFF (the debug
//! build replaces ML-DSA by a keyless digest shim; a start-up self-check refuses to run on it):
//! for every identity origin and every verifying entry point — the positive case, every
//! single-bit flip of message / signature / public key (both tiers: every bit; only the multi-key
//! delegated lists use the declared sub-set of `flip_bits` in the quick tier),
//! every ordered pair of distinct identities, structural damage (wrong lengths), the pinned-key
//! validity-window grid, every delegated key list over 3 keys, every t-of-n threshold signature
//! list over a 6-symbol alphabet, and all/any composites.
//!
//! Clauses: `C08.accept` (a genuine signature verifies), `C08.reject` (every altered / foreign case
//! is refused: `Ok(false)` or `Err`), `C08.nopanic`.
use saorsa_core::auth::{CompositeWriteAuth, DelegatedWriteAuth, PubKey, Sig, SingleWriteAuth, ThresholdWriteAuth, WriteAuth};
use saorsa_core::identity::node_identity::{IdentityData, NodeIdentity};
use saorsa_core::identity::secure_node_identity::SecureNodeIdentity;
use saorsa_core::key_derivation::{DerivationPath, DerivedKey, HierarchicalKeyDerivation, MasterSeed};
use saorsa_core::quantum_crypto::ant_quic_integration::{MlDsaPublicKey, MlDsaSecretKey, MlDsaSignature, ml_dsa_sign, ml_dsa_verify};
use saorsa_core::security::{GenericIpNodeID, IPv4NodeID, IPv6NodeID, NodeIpAddress};
use saorsa_core::upgrade::{PinnedKey, SignatureVerifier};
use serde_json::{Value, json};
use std::net::{Ipv4Addr, Ipv6Addr};
use std::sync::Mutex;
use std::sync::atomic::{AtomicU64, Ordering};
use std::time::{Duration, Instant, SystemTime, UNIX_EPOCH};
use vh::core::*;

const SIG_LEN: usize = 3309;
const PK_LEN: usize = 1952;

// ---------------------------------------------------------------------------------------------
// verdicts

#[derive(Clone, Copy, PartialEq, Eq, Hash, Debug)]
enum V {
    True,
    False,
    Err,
    Panic,
}
impl V {
    fn s(&self) -> &'static str {
        match self {
            V::True => "accepted",
            V::False => "Ok(false)",
            V::Err => "Err",
            V::Panic => "panic",
        }
    }
}
fn v_of<E>(r: Result<Result<bool, E>, String>) -> V {
    match r {
        Err(_) => V::Panic,
        Ok(Err(_)) => V::Err,
        Ok(Ok(true)) => V::True,
        Ok(Ok(false)) => V::False,
    }
}
fn v_unit<E>(r: Result<Result<(), E>, String>) -> V {
    match r {
        Err(_) => V::Panic,
        Ok(Err(_)) => V::Err,
        Ok(Ok(())) => V::True,
    }
}

struct Cx<'a> {
    run: &'a Run,
    distinct: &'a Distinct,
    samples: Mutex<Vec<Value>>,
    hist: Mutex<std::collections::BTreeMap<String, u64>>,
    skipped: AtomicU64,
}
impl Cx<'_> {
    fn tally(&self, entry: &str, what: &str, v: V) {
        self.distinct.eval();
        self.distinct.outcome(&(entry, what, v));
        *self.hist.lock().unwrap().entry(format!("{entry} | {what} | {}", v.s())).or_insert(0) += 1;
    }
    /// every altered / foreign case must be refused
    fn must_reject(&self, entry: &str, mutated: &str, v: V, wit: impl FnOnce() -> Value) {
        self.tally(entry, mutated, v);
        match v {
            V::True => self.run.violation_lazy("C08.reject", feats(&[("entry", entry.into()), ("mutated", mutated.into())]), || {
                let w = wit();
                (w, format!("{entry} accepted a case with altered/foreign {mutated}"))
            }),
            V::Panic => self.run.violation_lazy("C08.nopanic", feats(&[("entry", entry.into()), ("mutated", mutated.into())]), || {
                let w = wit();
                (w, format!("{entry} panicked on altered {mutated}"))
            }),
            _ => {}
        }
    }
    /// the genuine case must verify
    fn must_accept(&self, entry: &str, origin: &str, v: V, wit: impl FnOnce() -> Value) {
        self.tally(entry, &format!("genuine[{origin}]"), v);
        if v != V::True {
            let shape = match v {
                V::False => "verify-false",
                V::Err => "verify-error",
                _ => "panic",
            };
            let clause = if v == V::Panic { "C08.nopanic" } else { "C08.accept" };
            self.run.violation_lazy(clause, feats(&[("entry", entry.into()), ("origin", origin.into()), ("shape", shape.into())]), || {
                let w = wit();
                (w, format!("{entry}: genuine signature of a {origin} identity gave {}", v.s()))
            });
        }
    }
    fn sample(&self, v: Value) {
        let mut s = self.samples.lock().unwrap();
        if s.len() < 5 {
            s.push(v);
        }
    }
}

// ---------------------------------------------------------------------------------------------
// helpers

fn b64(data: &[u8]) -> String {
    const T: &[u8; 64] = b"ABCDEFGHIJKLMNOPQRSTUVWXYZabcdefghijklmnopqrstuvwxyz0123456789+/";
    let mut out = String::with_capacity(data.len().div_ceil(3) * 4);
    for c in data.chunks(3) {
        let b = [c[0], *c.get(1).unwrap_or(&0), *c.get(2).unwrap_or(&0)];
        let n = ((b[0] as u32) << 16) | ((b[1] as u32) << 8) | b[2] as u32;
        out.push(T[(n >> 18) as usize & 63] as char);
        out.push(T[(n >> 12) as usize & 63] as char);
        out.push(if c.len() > 1 { T[(n >> 6) as usize & 63] as char } else { '=' });
        out.push(if c.len() > 2 { T[n as usize & 63] as char } else { '=' });
    }
    out
}
fn flip(data: &[u8], bit: usize) -> Vec<u8> {
    let mut v = data.to_vec();
    v[bit / 8] ^= 1 << (bit % 8);
    v
}
/// Bit positions flipped in a buffer of `len` bytes.
/// full: every bit. reduced (quick tier): every bit of the first 64 and of the last 64 bytes, plus
/// one bit (bit `i mod 8` of byte i) of every byte in between. Buffers <= 128 bytes: every bit.
fn flip_bits(len: usize, full: bool) -> Vec<usize> {
    if full || len <= 128 {
        return (0..len * 8).collect();
    }
    let mut v: Vec<usize> = (0..64 * 8).collect();
    for i in 64..len - 64 {
        v.push(i * 8 + (i % 8));
    }
    v.extend((len - 64) * 8..len * 8);
    v
}
fn message(len: usize) -> Vec<u8> {
    (0..len).map(|i| (i * 7 + 3) as u8).collect()
}
fn now_secs() -> u64 {
    SystemTime::now().duration_since(UNIX_EPOCH).map(|d| d.as_secs()).unwrap_or(0)
}
fn sig_from(bytes: &[u8]) -> Option<MlDsaSignature> {
    MlDsaSignature::from_bytes(bytes).ok()
}
fn hexs(b: &[u8]) -> String {
    hex::encode(b)
}
fn block_on<F: std::future::Future>(f: F) -> F::Output {
    futures::executor::block_on(f)
}
thread_local! {
    static RT: tokio::runtime::Runtime = tokio::runtime::Builder::new_current_thread().enable_all().build().unwrap();
}

// ---------------------------------------------------------------------------------------------
// identities

enum Kind {
    Node(NodeIdentity),
    Secure(SecureNodeIdentity),
    Derived(DerivedKey),
}
struct Ident {
    origin: &'static str,
    label: String,
    how: Value,
    kind: Kind,
}
impl Ident {
    fn entry(&self) -> &'static str {
        match self.kind {
            Kind::Node(_) => "NodeIdentity::verify",
            Kind::Secure(_) => "SecureNodeIdentity::verify",
            Kind::Derived(_) => "ml_dsa_verify(DerivedKey)",
        }
    }
    fn pk(&self) -> &MlDsaPublicKey {
        match &self.kind {
            Kind::Node(n) => n.public_key(),
            Kind::Secure(n) => n.public_key(),
            Kind::Derived(d) => &d.public_key,
        }
    }
    fn sk_bytes(&self) -> Vec<u8> {
        match &self.kind {
            Kind::Node(n) => n.secret_key_bytes().to_vec(),
            Kind::Secure(n) => n.export().secret_key,
            Kind::Derived(d) => d.secret_key.as_bytes().to_vec(),
        }
    }
    fn sign(&self, m: &[u8]) -> Result<MlDsaSignature, String> {
        let r = catch(|| match &self.kind {
            Kind::Node(n) => n.sign(m).map_err(|e| e.to_string()),
            Kind::Secure(n) => n.sign(m).map_err(|e| e.to_string()),
            Kind::Derived(d) => ml_dsa_sign(&d.secret_key, m).map_err(|e| e.to_string()),
        });
        match r {
            Ok(x) => x,
            Err(p) => Err(format!("panic: {p}")),
        }
    }
    fn verify(&self, m: &[u8], s: &MlDsaSignature) -> V {
        match &self.kind {
            Kind::Node(n) => v_of(catch(|| n.verify(m, s))),
            Kind::Secure(n) => v_of(catch(|| n.verify(m, s))),
            Kind::Derived(d) => v_of(catch(|| ml_dsa_verify(&d.public_key, m, s))),
        }
    }
}

fn seeds() -> Vec<[u8; 32]> {
    let mut s2 = [0u8; 32];
    for (i, b) in s2.iter_mut().enumerate() {
        *b = i as u8;
    }
    vec![[0x42; 32], s2, *blake3::hash(b"vh-c08-seed-3").as_bytes()]
}
/// seeds for SecureNodeIdentity::from_seed must pass its entropy screen (>= 8 distinct byte values)
fn secure_seeds() -> Vec<[u8; 32]> {
    let mut s1 = [0u8; 32];
    for (i, b) in s1.iter_mut().enumerate() {
        *b = i as u8;
    }
    vec![s1, *blake3::hash(b"vh-c08-seed-3").as_bytes(), *blake3::hash(b"vh-c08-seed-4").as_bytes()]
}
const PATHS: [&str; 3] = ["m/0'/1", "m", "m/44'/0'/0'/0/5"];
const MASTER: [u8; 32] = [7u8; 32];

fn build_identities(run: &Run, thorough: bool) -> Vec<Ident> {
    let mut out = Vec::new();
    let mut push = |origin: &'static str, label: String, how: Value, k: Result<Result<Kind, String>, String>| match k {
        Ok(Ok(kind)) => out.push(Ident { origin, label, how, kind }),
        Ok(Err(e)) => run.violation(
            "C08.accept",
            feats(&[("entry", "constructor".into()), ("origin", origin.into()), ("shape", "construct-error".into())]),
            json!({"construct": how, "error": e}),
            format!("cannot construct {label}: {e}"),
        ),
        Err(p) => run.violation(
            "C08.nopanic",
            feats(&[("entry", "constructor".into()), ("origin", origin.into())]),
            json!({"construct": how, "panic": p}),
            format!("constructing {label} panicked: {p}"),
        ),
    };
    let n_gen = 2;
    let mut first_export: Option<IdentityData> = None;
    for i in 0..n_gen {
        let k = catch(|| NodeIdentity::generate().map_err(|e| e.to_string()));
        if let Ok(Ok(n)) = &k {
            if first_export.is_none() {
                first_export = Some(n.export());
            }
        }
        push("generate", format!("NodeIdentity::generate() #{i}"), json!({"call": "NodeIdentity::generate()", "index": i}), k.map(|r| r.map(Kind::Node)));
    }
    if let Some(d) = first_export {
        let k = catch(|| NodeIdentity::import(&d).map_err(|e| e.to_string()));
        push("import(export)", "NodeIdentity::import(&generate#0.export())".into(), json!({"call": "NodeIdentity::import(&id0.export())"}), k.map(|r| r.map(Kind::Node)));
    }
    for (i, s) in seeds().iter().enumerate() {
        if i > 0 && !thorough {
            break;
        }
        let k = catch(|| NodeIdentity::from_seed(s).map_err(|e| e.to_string()));
        push("from_seed", format!("NodeIdentity::from_seed({})", hexs(s)), json!({"call": "NodeIdentity::from_seed(&seed)", "seed_hex": hexs(s)}), k.map(|r| r.map(Kind::Node)));
    }
    for (i, p) in PATHS.iter().enumerate() {
        if i > 0 && !thorough {
            break;
        }
        let k = catch(|| -> Result<Kind, String> {
            let ms = MasterSeed::from_entropy(&MASTER).map_err(|e| e.to_string())?;
            let mut h = HierarchicalKeyDerivation::new(ms);
            let path = DerivationPath::from_string(p).map_err(|e| e.to_string())?;
            Ok(Kind::Derived(h.derive_key(&path).map_err(|e| e.to_string())?))
        });
        push(
            "derivation-path",
            format!("HierarchicalKeyDerivation(master=07*32).derive_key({p})"),
            json!({"call": "HierarchicalKeyDerivation::new(MasterSeed::from_entropy(&[7u8;32])).derive_key(&DerivationPath::from_string(path))", "path": p, "sign_with": "ml_dsa_sign(&key.secret_key, msg)", "verify_with": "ml_dsa_verify(&key.public_key, msg, &sig)"}),
            k,
        );
    }
    {
        let k = catch(|| SecureNodeIdentity::generate().map_err(|e| e.to_string()));
        push("secure-generate", "SecureNodeIdentity::generate()".into(), json!({"call": "SecureNodeIdentity::generate()"}), k.map(|r| r.map(Kind::Secure)));
    }
    for (i, s) in secure_seeds().iter().enumerate() {
        if i > 0 && !thorough {
            break;
        }
        let k = catch(|| SecureNodeIdentity::from_seed(s).map_err(|e| e.to_string()));
        push("secure-from_seed", format!("SecureNodeIdentity::from_seed({})", hexs(s)), json!({"call": "SecureNodeIdentity::from_seed(&seed)", "seed_hex": hexs(s)}), k.map(|r| r.map(Kind::Secure)));
    }
    out
}

// ---------------------------------------------------------------------------------------------
// work groups: (name, number of cases, case runner)

struct Group<'a> {
    name: String,
    n: usize,
    f: Box<dyn Fn(usize) + Sync + 'a>,
}

/// A plain generated key pair with its raw bytes (for the entry points that take raw keys).
struct Pair {
    pk: MlDsaPublicKey,
    sk: MlDsaSecretKey,
}
fn gen_pair() -> Pair {
    let n = NodeIdentity::generate().expect("generate");
    Pair { pk: n.public_key().clone(), sk: MlDsaSecretKey::from_bytes(n.secret_key_bytes()).expect("sk") }
}
fn raw_sign(p: &Pair, m: &[u8]) -> Vec<u8> {
    ml_dsa_sign(&p.sk, m).expect("sign").as_bytes().to_vec()
}

// ---- IP-bound node ids --------------------------------------------------------------------------

#[derive(Clone, Debug)]
enum IpMut {
    Ip(usize),
    Salt(usize),
    Ts(usize),
    NodeId(usize),
    Key(usize),
    Sig(usize),
    Structural(&'static str),
    /// coordinated forgery without the secret key: alter one bound field and recompute the public node id
    /// (SHA-256 of ip || key || salt || timestamp) consistently, keeping the old signature
    RestampIp(usize),
    RestampSalt(usize),
    RestampTs(usize),
}
impl IpMut {
    fn kind(&self) -> &'static str {
        match self {
            IpMut::Ip(_) => "ip-bit",
            IpMut::Salt(_) => "salt-bit",
            IpMut::Ts(_) => "timestamp-bit",
            IpMut::NodeId(_) => "node-id-bit",
            IpMut::Key(_) => "public-key-bit",
            IpMut::Sig(_) => "signature-bit",
            IpMut::Structural(s) => s,
            IpMut::RestampIp(_) => "ip-bit+node-id-recomputed",
            IpMut::RestampSalt(_) => "salt-bit+node-id-recomputed",
            IpMut::RestampTs(_) => "timestamp-bit+node-id-recomputed",
        }
    }
}
const IP_STRUCT: [&str; 9] = [
    "node-id-empty",
    "node-id-truncated",
    "salt-empty",
    "salt-extended",
    "signature-truncated",
    "signature-extended",
    "signature-empty",
    "public-key-truncated",
    "public-key-empty",
];
trait FlipIp: NodeIpAddress {
    fn flip_bit(&self, bit: usize) -> Self;
    fn bits() -> usize;
}
impl FlipIp for Ipv4Addr {
    fn flip_bit(&self, bit: usize) -> Self {
        let mut o = self.octets();
        o[bit / 8] ^= 1 << (bit % 8);
        Ipv4Addr::from(o)
    }
    fn bits() -> usize {
        32
    }
}
impl FlipIp for Ipv6Addr {
    fn flip_bit(&self, bit: usize) -> Self {
        let mut o = self.octets();
        o[bit / 8] ^= 1 << (bit % 8);
        Ipv6Addr::from(o)
    }
    fn bits() -> usize {
        128
    }
}
fn ip_muts<A: FlipIp>(full: bool, small_only: bool) -> Vec<IpMut> {
    let mut m: Vec<IpMut> = Vec::new();
    m.extend((0..A::bits()).map(IpMut::Ip));
    m.extend((0..128).map(IpMut::Salt));
    m.extend((0..64).map(IpMut::Ts));
    m.extend((0..256).map(IpMut::NodeId));
    m.extend(IP_STRUCT.iter().map(|s| IpMut::Structural(*s)));
    m.extend((0..A::bits()).map(IpMut::RestampIp));
    m.extend((0..128).map(IpMut::RestampSalt));
    m.extend((0..64).map(IpMut::RestampTs));
    if !small_only {
        m.extend(flip_bits(PK_LEN, full).into_iter().map(IpMut::Key));
        m.extend(flip_bits(SIG_LEN, full).into_iter().map(IpMut::Sig));
    }
    m
}
fn apply_ip<A: FlipIp>(g: &GenericIpNodeID<A>, m: &IpMut) -> GenericIpNodeID<A> {
    let mut x = g.clone();
    match m {
        IpMut::Ip(b) => x.ip_addr = g.ip_addr.flip_bit(*b),
        IpMut::Salt(b) => x.salt = flip(&g.salt, *b),
        IpMut::Ts(b) => x.timestamp_secs ^= 1u64 << b,
        IpMut::NodeId(b) => x.node_id = flip(&g.node_id, *b),
        IpMut::Key(b) => x.public_key = flip(&g.public_key, *b),
        IpMut::Sig(b) => x.signature = flip(&g.signature, *b),
        IpMut::RestampIp(_) | IpMut::RestampSalt(_) | IpMut::RestampTs(_) => {
            match m {
                IpMut::RestampIp(b) => x.ip_addr = g.ip_addr.flip_bit(*b),
                IpMut::RestampSalt(b) => x.salt = flip(&g.salt, *b),
                IpMut::RestampTs(b) => x.timestamp_secs ^= 1u64 << b,
                _ => {}
            }
            use sha2::{Digest, Sha256};
            let mut h = Sha256::new();
            h.update(x.ip_addr.octets_vec());
            h.update(&x.public_key);
            h.update(&x.salt);
            h.update(x.timestamp_secs.to_le_bytes());
            x.node_id = h.finalize().to_vec();
        }
        IpMut::Structural(s) => match *s {
            "node-id-empty" => x.node_id.clear(),
            "node-id-truncated" => {
                x.node_id.pop();
            }
            "salt-empty" => x.salt.clear(),
            "salt-extended" => x.salt.push(0),
            "signature-truncated" => {
                x.signature.pop();
            }
            "signature-extended" => x.signature.push(0),
            "signature-empty" => x.signature.clear(),
            "public-key-truncated" => {
                x.public_key.pop();
            }
            "public-key-empty" => x.public_key.clear(),
            _ => unreachable!(),
        },
    }
    x
}
fn ip_json<A: FlipIp>(g: &GenericIpNodeID<A>) -> Value {
    json!({"ip": format!("{:?}", g.ip_addr), "node_id_hex": hexs(&g.node_id), "salt_hex": hexs(&g.salt), "timestamp_secs": g.timestamp_secs,
           "public_key_hex": hexs(&g.public_key), "signature_hex": hexs(&g.signature)})
}

// ---------------------------------------------------------------------------------------------

fn main() {
    let run = Run::new("C08", "exploration");
    quiet_panics();
    let distinct = Distinct::default();
    let thorough = run.tier == Tier::Thorough;
    let budget = Budget::new(Duration::from_secs(run.tier.pick(50, 1700)));
    // ---- start-up self-check: the real ML-DSA path must be active --------------------------------
    let a = gen_pair();
    let b = gen_pair();
    let c = gen_pair();
    let d = gen_pair();
    {
        let m = b"vh-c08 self-check";
        let s = ml_dsa_sign(&a.sk, m).expect("sign");
        let own = ml_dsa_verify(&a.pk, m, &s).unwrap_or(false);
        let other = ml_dsa_verify(&b.pk, m, &s).unwrap_or(false);
        // a signature anybody can compute without the secret key (the debug shim's construction)
        let mut forged = [0u8; SIG_LEN];
        let pd = blake3::hash(a.pk.as_bytes());
        let md = blake3::hash(m);
        forged[..32].copy_from_slice(pd.as_bytes());
        forged[32..64].copy_from_slice(md.as_bytes());
        let mut h = blake3::Hasher::new();
        h.update(pd.as_bytes());
        h.update(md.as_bytes());
        h.update(&(m.len() as u64).to_le_bytes());
        h.update(m);
        h.finalize_xof().fill(&mut forged[64..]);
        let keyless = ml_dsa_verify(&a.pk, m, &MlDsaSignature::from_bytes(&forged).unwrap()).unwrap_or(false);
        if cfg!(debug_assertions) || !own || other || keyless {
            run.machinery_error(format!(
                "real ML-DSA path not active (debug_assertions={}, own-key verify={own}, other-key verify={other}, keyless shim signature verifies={keyless}); build with --profile ship",
                cfg!(debug_assertions)
            ));
            run.finish(cov(vec![("evaluations", json!(0)), ("distinct_nontrivial", json!(0)), ("exhaustive", json!(false))]), vec![]);
        }
    }

    let cx = Cx { run: &run, distinct: &distinct, samples: Mutex::new(Vec::new()), hist: Mutex::new(Default::default()), skipped: AtomicU64::new(0) };

    // ---- per-verification cost -------------------------------------------------------------------
    let (verify_us, sign_us) = {
        let m = message(32);
        let t = Instant::now();
        let mut sigs = Vec::new();
        for _ in 0..20 {
            sigs.push(ml_dsa_sign(&a.sk, &m).unwrap());
        }
        let sign_us = t.elapsed().as_micros() as f64 / 20.0;
        let t = Instant::now();
        let mut ok = 0;
        for i in 0..200 {
            if ml_dsa_verify(&a.pk, &m, &sigs[i % 20]).unwrap_or(false) {
                ok += 1;
            }
        }
        assert_eq!(ok, 200);
        (t.elapsed().as_micros() as f64 / 200.0, sign_us)
    };

    // measured: ~160 us per verification, so both tiers flip EVERY bit (26 472 signature bits, 15 616 key bits);
    // tiers differ in identities per origin (1 / 3) and message lengths (1 / 6). Only the multi-key delegated
    // lists (one verification per listed key per case) use the reduced set of `flip_bits` in the quick tier.
    let full = true;
    let full_multi = thorough;
    let msg_lens: Vec<usize> = run.tier.pick(vec![32], vec![0, 1, 31, 32, 33, 1024]);
    let idents = build_identities(&run, thorough);

    // ---- base level (sequential, simplest first): positive case of every identity x message --------
    // sigs[i][j] = signature of identity i over message j (None if signing failed / does not verify)
    let msgs: Vec<Vec<u8>> = msg_lens.iter().map(|&l| message(l)).collect();
    let mut sigs: Vec<Vec<Option<MlDsaSignature>>> = Vec::new();
    for id in &idents {
        let mut row = Vec::new();
        for m in &msgs {
            let wit_base = || json!({"identity": id.label, "construct": id.how, "public_key_hex": hexs(id.pk().as_bytes()), "message_hex": hexs(m)});
            match id.sign(m) {
                Err(e) => {
                    cx.tally("sign", &format!("genuine[{}]", id.origin), V::Err);
                    let shape = if e.starts_with("panic") { "sign-panic" } else { "sign-error" };
                    run.violation_lazy("C08.accept", feats(&[("entry", id.entry().into()), ("origin", id.origin.into()), ("shape", shape.into())]), || {
                        let mut w = wit_base();
                        w["then"] = json!("identity.sign(message)");
                        w["observed"] = json!(e);
                        (w, format!("{}: sign() fails: {e}", id.label))
                    });
                    row.push(None);
                }
                Ok(s) => {
                    let v = id.verify(m, &s);
                    cx.must_accept(id.entry(), id.origin, v, || {
                        let mut w = wit_base();
                        w["then"] = json!("sig = identity.sign(message); identity.verify(message, &sig)");
                        w["signature_hex"] = json!(hexs(s.as_bytes()));
                        w["observed"] = json!(v.s());
                        w
                    });
                    cx.sample(json!({"entry": id.entry(), "identity": id.label, "message_len": m.len(), "case": "genuine", "observed": v.s()}));
                    row.push(if v == V::True { Some(s) } else { None });
                }
            }
        }
        sigs.push(row);
    }
    let base_done = !budget.exceeded();

    // ---- fixed data used by the entry-point families (declared before `groups`, which borrows them) ----
    let v4 = Ipv4Addr::new(203, 0, 113, 7);
    let v6: Ipv6Addr = "2001:db8:85a3::8a2e:370:7334".parse().unwrap();
    let dir = format!("/dev/shm/vh-c08-{}", std::process::id());
    let _ = std::fs::create_dir_all(&dir);
    let file_len = run.tier.pick(64usize, 1024usize);
    let file = message(file_len);
    let file_sig = raw_sign(&a, &file);
    let file_sig_b64 = b64(&file_sig);
    let file_sum = SignatureVerifier::calculate_checksum(&file);
    let pk_a_b64 = b64(a.pk.as_bytes());
    let pk_b_b64 = b64(b.pk.as_bytes());
    let pinned = |id: &str, key: &str, vf: u64, vu: u64| PinnedKey { key_id: id.into(), public_key: key.into(), valid_from: vf, valid_until: vu };
    let verifier = SignatureVerifier::new(vec![pinned("key-A", &pk_a_b64, 0, 0), pinned("key-B", &pk_b_b64, 0, 0)]);
    let vfile = |ver: &SignatureVerifier, name: &str, content: &[u8], sum: &str, key_id: &str, sig: &str| -> V {
        let path = format!("{dir}/{name}");
        if std::fs::write(&path, content).is_err() {
            return V::Panic;
        }
        let r = catch(|| RT.with(|rt| rt.block_on(ver.verify_file(std::path::Path::new(&path), sum, key_id, sig))));
        let _ = std::fs::remove_file(&path);
        v_unit(r)
    };
    let record = message(run.tier.pick(32, 33));
    let other_record = {
        let mut r = record.clone();
        r[0] ^= 1;
        r
    };
    let keys = [&a, &b, &c, &d];
    let names = ["A", "B", "C", "D"];
    let gsig: Vec<Vec<u8>> = keys.iter().map(|p| raw_sign(p, &record)).collect(); // genuine signatures by A,B,C,D over `record`
    let wsig_a = raw_sign(&a, &other_record); // A's signature over a different record
    let fsig_a = flip(&gsig[0], 8 * 100 + 3); // A's signature with one bit flipped

    // ---- groups -----------------------------------------------------------------------------------
    let mut groups: Vec<Group> = Vec::new();

    // (1) cross-key: every ordered pair of identities with different public keys, every message
    {
        let mut pairs = Vec::new();
        for i in 0..idents.len() {
            for j in 0..idents.len() {
                if i != j && idents[i].pk().as_bytes() != idents[j].pk().as_bytes() {
                    for k in 0..msgs.len() {
                        if sigs[i][k].is_some() {
                            pairs.push((i, j, k));
                        }
                    }
                }
            }
        }
        let (idents, sigs, msgs, cx) = (&idents, &sigs, &msgs, &cx);
        groups.push(Group {
            name: "cross-key pairs".into(),
            n: pairs.len(),
            f: Box::new(move |x| {
                let (i, j, k) = pairs[x];
                let s = sigs[i][k].as_ref().unwrap();
                let v = idents[j].verify(&msgs[k], s);
                cx.must_reject(idents[j].entry(), "foreign-key", v, || {
                    json!({"signer": idents[i].label, "signer_construct": idents[i].how, "verifier": idents[j].label, "verifier_construct": idents[j].how,
                           "message_hex": hexs(&msgs[k]), "signature_hex": hexs(s.as_bytes()), "verifier_public_key_hex": hexs(idents[j].pk().as_bytes()), "observed": v.s()})
                });
            }),
        });
    }

    // (2) per identity x message: every bit of the message, of the signature, of the public key
    for (i, id) in idents.iter().enumerate() {
        for (k, m) in msgs.iter().enumerate() {
            let Some(s) = sigs[i][k].as_ref() else {
                cx.skipped.fetch_add(1, Ordering::Relaxed);
                continue;
            };
            let cx = &cx;
            let mbits = flip_bits(m.len(), true); // message: always every bit
            let sbits = flip_bits(SIG_LEN, full);
            let kbits = flip_bits(PK_LEN, full);
            let wit = move |what: &str, bit: usize, v: V| {
                json!({"identity": id.label, "construct": id.how, "public_key_hex": hexs(id.pk().as_bytes()), "message_hex": hexs(m), "signature_hex": hexs(s.as_bytes()),
                       "mutation": format!("flip bit {} of byte {} of the {what}", bit % 8, bit / 8), "observed": v.s()})
            };
            groups.push(Group {
                name: format!("{} msg-bits len={}", id.label, m.len()),
                n: mbits.len(),
                f: Box::new(move |x| {
                    let bit = mbits[x];
                    let v = id.verify(&flip(m, bit), s);
                    cx.must_reject(id.entry(), "message-bit", v, || wit("message", bit, v));
                }),
            });
            groups.push(Group {
                name: format!("{} sig-bits len={}", id.label, m.len()),
                n: sbits.len(),
                f: Box::new(move |x| {
                    let bit = sbits[x];
                    let s2 = sig_from(&flip(s.as_bytes(), bit)).unwrap();
                    let v = id.verify(m, &s2);
                    cx.must_reject(id.entry(), "signature-bit", v, || wit("signature", bit, v));
                }),
            });
            // public key: through the raw verify for every origin, and through import(altered key).verify for NodeIdentity
            let via_import = matches!(id.kind, Kind::Node(_));
            let skb = id.sk_bytes();
            groups.push(Group {
                name: format!("{} pk-bits len={}", id.label, m.len()),
                n: kbits.len(),
                f: Box::new(move |x| {
                    let bit = kbits[x];
                    let pkb = flip(id.pk().as_bytes(), bit);
                    if via_import {
                        let v = match catch(|| NodeIdentity::import(&IdentityData { secret_key: skb.clone(), public_key: pkb.clone() })) {
                            Err(_) => V::Panic,
                            Ok(Err(_)) => V::Err,
                            Ok(Ok(n)) => v_of(catch(|| n.verify(m, s))),
                        };
                        cx.must_reject("NodeIdentity::import+verify", "public-key-bit", v, || wit("public key (IdentityData.public_key, then import().verify())", bit, v));
                    } else {
                        let v = match MlDsaPublicKey::from_bytes(&pkb) {
                            Err(_) => V::Err,
                            Ok(pk) => v_of(catch(|| ml_dsa_verify(&pk, m, s))),
                        };
                        cx.must_reject("ml_dsa_verify", "public-key-bit", v, || wit("public key (ml_dsa_verify with the altered key)", bit, v));
                    }
                }),
            });
        }
    }

    // (3) IP-bound node ids (v4 and v6), generic + wrappers
    let ip_owners: Vec<(&str, &Pair)> = if thorough { vec![("A", &a), ("B", &b)] } else { vec![("A", &a)] };
    fn ip_family<'a, A: FlipIp + PartialEq>(groups: &mut Vec<Group<'a>>, cx: &'a Cx<'a>, entry: &'static str, owner: &str, ip: A, p: &Pair, foreign: &Pair, full: bool) {
        let g = match catch(|| GenericIpNodeID::generate(ip.clone(), &p.sk, &p.pk)) {
            Ok(Ok(g)) => g,
            _ => {
                cx.run.violation("C08.accept", feats(&[("entry", entry.into()), ("origin", "generate".into()), ("shape", "construct-error".into())]), json!({"ip": format!("{ip:?}")}), format!("{entry}: generate failed"));
                return;
            }
        };
        let v = v_of(catch(|| g.verify()));
        cx.must_accept(entry, "generate", v, || ip_json(&g));
        cx.sample(json!({"entry": entry, "case": "genuine", "ip": format!("{ip:?}"), "observed": v.s()}));
        if v != V::True {
            return;
        }
        // signed with p's secret key but carrying the foreign public key
        if let Ok(Ok(fg)) = catch(|| GenericIpNodeID::generate(ip.clone(), &p.sk, &foreign.pk)) {
            let v = v_of(catch(|| fg.verify()));
            cx.must_reject(entry, "foreign-key", v, || ip_json(&fg));
        }
        let muts = ip_muts::<A>(full, false);
        let owner = owner.to_string();
        groups.push(Group {
            name: format!("{entry} owner {owner}"),
            n: muts.len(),
            f: Box::new(move |x| {
                let m = &muts[x];
                let y = apply_ip(&g, m);
                let v = v_of(catch(|| y.verify()));
                cx.must_reject(entry, m.kind(), v, || json!({"genuine": ip_json(&g), "mutation": format!("{m:?}"), "observed": v.s()}));
            }),
        });
    }
    for (name, p) in &ip_owners {
        ip_family(&mut groups, &cx, "GenericIpNodeID<Ipv4Addr>::verify", name, v4, p, &d, full);
        ip_family(&mut groups, &cx, "GenericIpNodeID<Ipv6Addr>::verify", name, v6, p, &d, full);
    }
    // wrappers: positive + ip / salt / timestamp / node-id bits + structural damage + one bit per 64 bytes of key and signature
    {
        let cx = &cx;
        if let Ok(Ok(w4)) = catch(|| IPv4NodeID::generate(v4, &a.sk, &a.pk)) {
            let v = v_of(catch(|| w4.verify()));
            cx.must_accept("IPv4NodeID::verify", "generate", v, || json!({"ip": "203.0.113.7"}));
            let mut muts = ip_muts::<Ipv4Addr>(false, true);
            muts.extend((0..PK_LEN).step_by(64).map(|i| IpMut::Key(i * 8)));
            muts.extend((0..SIG_LEN).step_by(64).map(|i| IpMut::Sig(i * 8 + 7)));
            groups.push(Group {
                name: "IPv4NodeID wrapper".into(),
                n: muts.len(),
                f: Box::new(move |x| {
                    let g = GenericIpNodeID { node_id: w4.node_id.clone(), ip_addr: w4.ipv4_addr, public_key: w4.public_key.clone(), signature: w4.signature.clone(), timestamp_secs: w4.timestamp_secs, salt: w4.salt.clone() };
                    let y = apply_ip(&g, &muts[x]);
                    let w = IPv4NodeID { node_id: y.node_id, ipv4_addr: y.ip_addr, public_key: y.public_key, signature: y.signature, timestamp_secs: y.timestamp_secs, salt: y.salt };
                    let v = v_of(catch(|| w.verify()));
                    cx.must_reject("IPv4NodeID::verify", muts[x].kind(), v, || json!({"genuine": ip_json(&g), "mutation": format!("{:?}", muts[x]), "observed": v.s()}));
                }),
            });
        }
        if let Ok(Ok(w6)) = catch(|| IPv6NodeID::generate(v6, &a.sk, &a.pk)) {
            let v = v_of(catch(|| w6.verify()));
            cx.must_accept("IPv6NodeID::verify", "generate", v, || json!({"ip": "2001:db8:85a3::8a2e:370:7334"}));
            let mut muts = ip_muts::<Ipv6Addr>(false, true);
            muts.extend((0..PK_LEN).step_by(64).map(|i| IpMut::Key(i * 8)));
            muts.extend((0..SIG_LEN).step_by(64).map(|i| IpMut::Sig(i * 8 + 7)));
            groups.push(Group {
                name: "IPv6NodeID wrapper".into(),
                n: muts.len(),
                f: Box::new(move |x| {
                    let g = GenericIpNodeID { node_id: w6.node_id.clone(), ip_addr: w6.ipv6_addr, public_key: w6.public_key.clone(), signature: w6.signature.clone(), timestamp_secs: w6.timestamp_secs, salt: w6.salt.clone() };
                    let y = apply_ip(&g, &muts[x]);
                    let w = IPv6NodeID { node_id: y.node_id, ipv6_addr: y.ip_addr, public_key: y.public_key, signature: y.signature, timestamp_secs: y.timestamp_secs, salt: y.salt };
                    let v = v_of(catch(|| w.verify()));
                    cx.must_reject("IPv6NodeID::verify", muts[x].kind(), v, || json!({"genuine": ip_json(&g), "mutation": format!("{:?}", muts[x]), "observed": v.s()}));
                }),
            });
        }
    }

    // (4) update packages: SignatureVerifier::verify_signature / verify_file
    {
        let cx = &cx;
        let upd_wit = |extra: Value| json!({"file_hex": hexs(&file), "sha256": file_sum, "pinned": {"key-A": "base64(public key A), valid_from 0, valid_until 0", "key-B": "base64(public key B)"}, "public_key_A_hex": hexs(a.pk.as_bytes()), "signature_hex": hexs(&file_sig), "case": extra});
        let v = v_of(catch(|| verifier.verify_signature("key-A", &file, &file_sig_b64)));
        cx.must_accept("SignatureVerifier::verify_signature", "generate", v, || upd_wit(json!("verify_signature(\"key-A\", file, base64(signature))")));
        let v = vfile(&verifier, "genuine", &file, &file_sum, "key-A", &file_sig_b64);
        cx.must_accept("SignatureVerifier::verify_file", "generate", v, || upd_wit(json!("verify_file(path, sha256, \"key-A\", base64(signature))")));
        cx.sample(json!({"entry": "SignatureVerifier::verify_file", "case": "genuine", "file_len": file_len, "observed": v.s()}));
        // upper-case checksum: same checksum value; recorded, not judged
        let v = vfile(&verifier, "upper", &file, &file_sum.to_uppercase(), "key-A", &file_sig_b64);
        cx.tally("SignatureVerifier::verify_file", "checksum-uppercase(not judged)", v);

        // key ids
        for (kid, what) in [("key-B", "foreign-key"), ("key-X", "unpinned-key-id"), ("", "unpinned-key-id"), ("key-a", "unpinned-key-id")] {
            let v = v_of(catch(|| verifier.verify_signature(kid, &file, &file_sig_b64)));
            cx.must_reject("SignatureVerifier::verify_signature", what, v, || upd_wit(json!({"key_id": kid})));
            let v = vfile(&verifier, "kid", &file, &file_sum, kid, &file_sig_b64);
            cx.must_reject("SignatureVerifier::verify_file", what, v, || upd_wit(json!({"key_id": kid})));
        }
        // structural damage of the three strings
        let sig_structs: Vec<(&str, String)> = vec![
            ("signature-empty", String::new()),
            ("signature-truncated", file_sig_b64[..file_sig_b64.len() - 4].to_string()),
            ("signature-extended", format!("{file_sig_b64}AAAA")),
            ("signature-not-base64", format!("*{}", &file_sig_b64[1..])),
            ("signature-zero", b64(&[0u8; SIG_LEN])),
        ];
        for (what, s) in &sig_structs {
            let v = v_of(catch(|| verifier.verify_signature("key-A", &file, s)));
            cx.must_reject("SignatureVerifier::verify_signature", what, v, || upd_wit(json!({"signature_b64": s})));
            let v = vfile(&verifier, "sstruct", &file, &file_sum, "key-A", s);
            cx.must_reject("SignatureVerifier::verify_file", what, v, || upd_wit(json!({"signature_b64": s})));
        }
        let sum_structs: Vec<(&str, String)> = vec![
            ("checksum-empty", String::new()),
            ("checksum-truncated", file_sum[..63].to_string()),
            ("checksum-prefix-8", file_sum[..8].to_string()),
            ("checksum-extended", format!("{file_sum}0")),
            ("checksum-of-other-file", SignatureVerifier::calculate_checksum(b"other")),
        ];
        for (what, s) in &sum_structs {
            let v = vfile(&verifier, "cstruct", &file, s, "key-A", &file_sig_b64);
            cx.must_reject("SignatureVerifier::verify_file", what, v, || upd_wit(json!({"sha256_presented": s})));
        }
        for (what, k) in [("pinned-key-empty", String::new()), ("pinned-key-truncated", pk_a_b64[..pk_a_b64.len() - 4].to_string()), ("pinned-key-not-base64", format!("*{}", &pk_a_b64[1..]))] {
            let ver = SignatureVerifier::new(vec![pinned("key-A", &k, 0, 0)]);
            let v = v_of(catch(|| ver.verify_signature("key-A", &file, &file_sig_b64)));
            cx.must_reject("SignatureVerifier::verify_signature", what, v, || upd_wit(json!({"pinned_public_key_b64": k})));
        }
        // validity window grid (the subject reads the wall clock: a case is judged only if the second did not change across the call)
        for (entry_i, entry) in ["SignatureVerifier::verify_signature", "SignatureVerifier::verify_file"].iter().enumerate() {
            for vf_off in [i64::MIN, -1, 0, 1, 3600] {
                for vu_off in [i64::MIN, i64::MIN + 1, -1, 0, 1, 3600] {
                    let mut tries = 0;
                    loop {
                        tries += 1;
                        let t0 = now_secs();
                        let abs = |off: i64| -> u64 {
                            if off == i64::MIN {
                                0
                            } else if off == i64::MIN + 1 {
                                1
                            } else {
                                (t0 as i64 + off) as u64
                            }
                        };
                        let (vf, vu) = (abs(vf_off), abs(vu_off));
                        let ver = SignatureVerifier::new(vec![pinned("key-A", &pk_a_b64, vf, vu)]);
                        let v = if entry_i == 0 { v_of(catch(|| ver.verify_signature("key-A", &file, &file_sig_b64))) } else { vfile(&ver, "window", &file, &file_sum, "key-A", &file_sig_b64) };
                        if now_secs() != t0 {
                            if tries < 5 {
                                continue;
                            }
                            cx.skipped.fetch_add(1, Ordering::Relaxed);
                            break;
                        }
                        let w = || upd_wit(json!({"now": t0, "valid_from": vf, "valid_until": vu, "note": "valid_until 0 = no expiry"}));
                        if t0 < vf || (vu != 0 && t0 > vu) {
                            cx.must_reject(entry, if t0 < vf { "key-not-yet-valid" } else { "key-expired" }, v, w);
                        } else if vu != 0 && t0 == vu {
                            // "expires at valid_until": inclusive or exclusive is not fixed by the statement — recorded, not judged
                            cx.tally(entry, "now==valid_until(not judged)", v);
                        } else {
                            cx.must_accept(entry, "generate", v, w);
                        }
                        break;
                    }
                }
            }
        }
    }
    {
        let cx = &cx;
        let (verifier, file, file_sig, file_sig_b64, file_sum, a, vfile) = (&verifier, &file, &file_sig, &file_sig_b64, &file_sum, &a, &vfile);
        let uw = move |mutation: String, v: V| json!({"file_hex": hexs(file), "sha256": file_sum, "public_key_A_hex": hexs(a.pk.as_bytes()), "signature_hex": hexs(file_sig), "pinned": "key-A = base64(public key A), always valid", "mutation": mutation, "observed": v.s()});
        let fbits = flip_bits(file.len(), true);
        groups.push(Group {
            name: "update: message bits via verify_signature".into(),
            n: fbits.len(),
            f: Box::new(move |x| {
                let v = v_of(catch(|| verifier.verify_signature("key-A", &flip(file, x), file_sig_b64)));
                cx.must_reject("SignatureVerifier::verify_signature", "message-bit", v, || uw(format!("flip bit {} of byte {} of the message", x % 8, x / 8), v));
            }),
        });
        groups.push(Group {
            name: "update: file bits via verify_file (stale and recomputed checksum)".into(),
            n: fbits.len() * 2,
            f: Box::new(move |x| {
                let (bit, recomputed) = (x / 2, x % 2 == 1);
                let content = flip(file, bit);
                let sum = if recomputed { SignatureVerifier::calculate_checksum(&content) } else { file_sum.clone() };
                let v = vfile(verifier, &format!("f{x}"), &content, &sum, "key-A", file_sig_b64);
                cx.must_reject("SignatureVerifier::verify_file", if recomputed { "file-bit+checksum-recomputed" } else { "file-bit" }, v, || uw(format!("flip bit {} of byte {} of the file; checksum {}", bit % 8, bit / 8, if recomputed { "recomputed over the altered file" } else { "of the original file" }), v));
            }),
        });
        groups.push(Group {
            name: "update: checksum bits".into(),
            n: 256,
            f: Box::new(move |x| {
                // flip one bit of the 32-byte checksum value = change one hex digit by one bit
                let mut cs: Vec<u8> = file_sum.bytes().collect();
                let digit = (cs[x / 4] as char).to_digit(16).unwrap() ^ (1 << (x % 4));
                cs[x / 4] = std::char::from_digit(digit, 16).unwrap() as u8;
                let sum = String::from_utf8(cs).unwrap();
                let v = vfile(verifier, &format!("c{x}"), file, &sum, "key-A", file_sig_b64);
                cx.must_reject("SignatureVerifier::verify_file", "checksum-bit", v, || uw(format!("checksum presented = {sum}"), v));
            }),
        });
        let sbits = flip_bits(SIG_LEN, full);
        groups.push(Group {
            name: "update: signature bits".into(),
            n: sbits.len(),
            f: Box::new(move |x| {
                let bit = sbits[x];
                let v = v_of(catch(|| verifier.verify_signature("key-A", file, &b64(&flip(file_sig, bit)))));
                cx.must_reject("SignatureVerifier::verify_signature", "signature-bit", v, || uw(format!("flip bit {} of byte {} of the signature before base64", bit % 8, bit / 8), v));
            }),
        });
        let kbits = flip_bits(PK_LEN, full);
        groups.push(Group {
            name: "update: pinned key bits".into(),
            n: kbits.len(),
            f: Box::new(move |x| {
                let bit = kbits[x];
                let ver = SignatureVerifier::new(vec![PinnedKey { key_id: "key-A".into(), public_key: b64(&flip(a.pk.as_bytes(), bit)), valid_from: 0, valid_until: 0 }]);
                let v = v_of(catch(|| ver.verify_signature("key-A", file, file_sig_b64)));
                cx.must_reject("SignatureVerifier::verify_signature", "public-key-bit", v, || uw(format!("flip bit {} of byte {} of the pinned public key before base64", bit % 8, bit / 8), v));
            }),
        });
    }

    // (5) write authorisation
    let pkv = |p: &Pair| PubKey::new(p.pk.as_bytes().to_vec());
    let wa_wit = |extra: Value| json!({"record_hex": hexs(&record), "public_keys_hex": {"A": hexs(a.pk.as_bytes()), "B": hexs(b.pk.as_bytes()), "C": hexs(c.pk.as_bytes()), "D": hexs(d.pk.as_bytes())},
        "signatures": "gX = ml_dsa_sign(secret X, record); fA = gA with bit 3 of byte 100 flipped; wA = ml_dsa_sign(secret A, record with bit 0 of byte 0 flipped)", "gA_hex": hexs(&gsig[0]), "case": extra});
    {
        let cx = &cx;
        // Single
        let single = SingleWriteAuth::new(pkv(&a));
        let v = v_of(catch(|| block_on(single.verify(&record, &[Sig::new(gsig[0].clone())]))));
        cx.must_accept("SingleWriteAuth::verify", "generate", v, || wa_wit(json!("SingleWriteAuth::new(A).verify(record, [gA])")));
        cx.sample(json!({"entry": "SingleWriteAuth::verify", "case": "genuine", "observed": v.s()}));
        let bad: Vec<(&str, Vec<Sig>)> = vec![
            ("no-signature", vec![]),
            ("foreign-key", vec![Sig::new(gsig[1].clone())]),
            ("foreign-key", vec![Sig::new(gsig[3].clone())]),
            ("other-record-signature", vec![Sig::new(wsig_a.clone())]),
            ("signature-truncated", vec![Sig::new(gsig[0][..SIG_LEN - 1].to_vec())]),
            ("signature-extended", vec![Sig::new([gsig[0].clone(), vec![0]].concat())]),
            ("signature-empty", vec![Sig::new(vec![])]),
            ("signature-zero", vec![Sig::new(vec![0; SIG_LEN])]),
            ("foreign-key", vec![Sig::new(gsig[1].clone()), Sig::new(gsig[2].clone())]),
        ];
        for (what, sigs) in &bad {
            let v = v_of(catch(|| block_on(single.verify(&record, sigs))));
            cx.must_reject("SingleWriteAuth::verify", what, v, || wa_wit(json!({"auth": "Single(A)", "case": what, "sigs_hex": sigs.iter().map(|s| hexs(s.as_bytes())).collect::<Vec<_>>()})));
            let del = DelegatedWriteAuth::new(vec![pkv(&a)]);
            let v = v_of(catch(|| block_on(del.verify(&record, sigs))));
            cx.must_reject("DelegatedWriteAuth::verify", what, v, || wa_wit(json!({"auth": "Delegated([A])", "case": what, "sigs_hex": sigs.iter().map(|s| hexs(s.as_bytes())).collect::<Vec<_>>()})));
        }
        for (what, k) in [("public-key-truncated", a.pk.as_bytes()[..PK_LEN - 1].to_vec()), ("public-key-empty", vec![]), ("public-key-zero", vec![0; PK_LEN])] {
            let v = v_of(catch(|| block_on(SingleWriteAuth::new(PubKey::new(k.clone())).verify(&record, &[Sig::new(gsig[0].clone())]))));
            cx.must_reject("SingleWriteAuth::verify", what, v, || wa_wit(json!({"auth_key_hex": hexs(&k)})));
            let v = v_of(catch(|| block_on(DelegatedWriteAuth::new(vec![PubKey::new(k.clone())]).verify(&record, &[Sig::new(gsig[0].clone())]))));
            cx.must_reject("DelegatedWriteAuth::verify", what, v, || wa_wit(json!({"auth_key_hex": hexs(&k)})));
        }
        // Delegated: every ordered list of 0..3 distinct keys out of {A,B,C} x signer in {A,B,C,D}
        let mut lists: Vec<Vec<usize>> = vec![vec![]];
        for i in 0..3 {
            lists.push(vec![i]);
            for j in 0..3 {
                if j != i {
                    lists.push(vec![i, j]);
                    for k in 0..3 {
                        if k != i && k != j {
                            lists.push(vec![i, j, k]);
                        }
                    }
                }
            }
        }
        for l in &lists {
            let auth = DelegatedWriteAuth::new(l.iter().map(|&i| pkv(keys[i])).collect());
            let lname: Vec<&str> = l.iter().map(|&i| names[i]).collect();
            for signer in 0..4 {
                let v = v_of(catch(|| block_on(auth.verify(&record, &[Sig::new(gsig[signer].clone())]))));
                let w = || wa_wit(json!({"auth": format!("Delegated({lname:?})"), "sigs": format!("[g{}]", names[signer])}));
                if l.contains(&signer) {
                    cx.must_accept("DelegatedWriteAuth::verify", "generate", v, w);
                } else {
                    cx.must_reject("DelegatedWriteAuth::verify", if l.is_empty() { "empty-key-list" } else { "foreign-key" }, v, w);
                }
            }
            for (what, s) in [("signature-bit", &fsig_a), ("other-record-signature", &wsig_a)] {
                let v = v_of(catch(|| block_on(auth.verify(&record, &[Sig::new(s.clone())]))));
                cx.must_reject("DelegatedWriteAuth::verify", what, v, || wa_wit(json!({"auth": format!("Delegated({lname:?})"), "sigs": what})));
            }
        }
    }
    {
        // bit flips through Single(A), Delegated([A]), Delegated([B,A]) (signer A listed second), Delegated([A,B,C])
        let cx = &cx;
        let (record, gsig, a, b, c) = (&record, &gsig, &a, &b, &c);
        let ww = move |auth: &str, mutation: String, v: V| json!({"auth": auth, "record_hex": hexs(record), "public_key_A_hex": hexs(a.pk.as_bytes()), "public_key_B_hex": hexs(b.pk.as_bytes()), "public_key_C_hex": hexs(c.pk.as_bytes()), "signature_gA_hex": hexs(&gsig[0]), "mutation": mutation, "observed": v.s()});
        let rbits = flip_bits(record.len(), true);
        let sbits = flip_bits(SIG_LEN, full);
        let kbits = flip_bits(PK_LEN, full);
        // reduced sets for the multi-key lists (each evaluation costs one verification per listed key)
        let sbits_small = flip_bits(SIG_LEN, full_multi);
        let kbits_small = flip_bits(PK_LEN, full_multi);
        type Mk = Box<dyn Fn(Option<Vec<u8>>) -> (Box<dyn WriteAuth>, &'static str) + Send + Sync>;
        let pk = |p: &Pair| p.pk.as_bytes().to_vec();
        let (pa, pb, pc) = (pk(a), pk(b), pk(c));
        let mks: Vec<(Mk, bool)> = vec![
            (Box::new({ let pa = pa.clone(); move |k| (Box::new(SingleWriteAuth::new(PubKey::new(k.unwrap_or(pa.clone())))) as Box<dyn WriteAuth>, "SingleWriteAuth::verify") }), true),
            (Box::new({ let pa = pa.clone(); move |k| (Box::new(DelegatedWriteAuth::new(vec![PubKey::new(k.unwrap_or(pa.clone()))])) as Box<dyn WriteAuth>, "DelegatedWriteAuth::verify") }), true),
            (Box::new({ let (pa, pb) = (pa.clone(), pb.clone()); move |k| (Box::new(DelegatedWriteAuth::new(vec![PubKey::new(pb.clone()), PubKey::new(k.unwrap_or(pa.clone()))])) as Box<dyn WriteAuth>, "DelegatedWriteAuth::verify") }), false),
            (Box::new({ let (pa, pb, pc) = (pa.clone(), pb.clone(), pc.clone()); move |k| (Box::new(DelegatedWriteAuth::new(vec![PubKey::new(k.unwrap_or(pa.clone())), PubKey::new(pb.clone()), PubKey::new(pc.clone())])) as Box<dyn WriteAuth>, "DelegatedWriteAuth::verify") }), false),
        ];
        let labels = ["Single(A)", "Delegated([A])", "Delegated([B,A])", "Delegated([A,B,C])"];
        for (mi, (mk, big)) in mks.into_iter().enumerate() {
            let mk = std::sync::Arc::new(mk);
            let label = labels[mi];
            let (auth, entry) = mk(None);
            let auth: std::sync::Arc<Box<dyn WriteAuth>> = std::sync::Arc::new(auth);
            let sb = if big { sbits.clone() } else { sbits_small.clone() };
            let kb = if big { kbits.clone() } else { kbits_small.clone() };
            let rb = rbits.clone();
            let a1 = auth.clone();
            groups.push(Group {
                name: format!("{label}: record bits"),
                n: rb.len(),
                f: Box::new(move |x| {
                    let v = v_of(catch(|| block_on(a1.verify(&flip(record, rb[x]), &[Sig::new(gsig[0].clone())]))));
                    cx.must_reject(entry, "message-bit", v, || ww(label, format!("flip bit {} of byte {} of the record", rb[x] % 8, rb[x] / 8), v));
                }),
            });
            let a2 = auth.clone();
            groups.push(Group {
                name: format!("{label}: signature bits"),
                n: sb.len(),
                f: Box::new(move |x| {
                    let v = v_of(catch(|| block_on(a2.verify(record, &[Sig::new(flip(&gsig[0], sb[x]))]))));
                    cx.must_reject(entry, "signature-bit", v, || ww(label, format!("flip bit {} of byte {} of the signature", sb[x] % 8, sb[x] / 8), v));
                }),
            });
            let mk2 = mk.clone();
            let pa2 = pa.clone();
            groups.push(Group {
                name: format!("{label}: key bits"),
                n: kb.len(),
                f: Box::new(move |x| {
                    let (auth, _) = mk2(Some(flip(&pa2, kb[x])));
                    let v = v_of(catch(|| block_on(auth.verify(record, &[Sig::new(gsig[0].clone())]))));
                    cx.must_reject(entry, "public-key-bit", v, || ww(label, format!("flip bit {} of byte {} of authorised key A", kb[x] % 8, kb[x] / 8), v));
                }),
            });
        }
    }
    {
        // Threshold t-of-n, n <= 3: every signature list of length 0..=n+1 over {g1..gn, fA, xD, wA}
        // Reference: valid(s) = index of the listed key under which s verifies over the record (known by construction).
        // must reject when fewer than t distinct listed keys have a valid signature in the list;
        // must accept when the list is exactly >= t distinct genuine signatures and nothing else; otherwise not judged.
        let cx = &cx;
        let (record, gsig, fsig_a, wsig_a, wa_wit) = (&record, &gsig, &fsig_a, &wsig_a, &wa_wit);
        for n in 1..=3usize {
            for t in 1..=n {
                let auth = match ThresholdWriteAuth::new(t, n, (0..n).map(|i| pkv(keys[i])).collect()) {
                    Ok(a) => a,
                    Err(e) => {
                        run.machinery_error(format!("ThresholdWriteAuth::new({t},{n}) failed: {e}"));
                        continue;
                    }
                };
                // alphabet: (name, bytes, Some(key index) if valid under a listed key)
                let mut alpha: Vec<(String, &Vec<u8>, Option<usize>)> = (0..n).map(|i| (format!("g{}", names[i]), &gsig[i], Some(i))).collect();
                alpha.push(("fA(bit-flipped gA)".into(), fsig_a, None));
                alpha.push(("gD(foreign)".into(), &gsig[3], None));
                alpha.push(("wA(other record)".into(), wsig_a, None));
                let k = alpha.len();
                for len in 0..=n + 1 {
                    for code in 0..k.pow(len as u32) {
                        let mut cde = code;
                        let mut idx = Vec::new();
                        for _ in 0..len {
                            idx.push(cde % k);
                            cde /= k;
                        }
                        let sigs: Vec<Sig> = idx.iter().map(|&i| Sig::new(alpha[i].1.clone())).collect();
                        let mut valid_keys: Vec<usize> = idx.iter().filter_map(|&i| alpha[i].2).collect();
                        valid_keys.sort();
                        let all_genuine_distinct = {
                            let l = valid_keys.len();
                            let mut dd = valid_keys.clone();
                            dd.dedup();
                            l == len && dd.len() == len
                        };
                        valid_keys.dedup();
                        let v = v_of(catch(|| block_on(auth.verify(record, &sigs))));
                        let lnames: Vec<&str> = idx.iter().map(|&i| alpha[i].0.as_str()).collect();
                        let w = || wa_wit(json!({"auth": format!("ThresholdWriteAuth::new({t}, {n}, [{}])", names[..n].join(",")), "sigs": lnames, "distinct_listed_keys_with_valid_signature": valid_keys.len(), "threshold": t, "observed": v.s()}));
                        if valid_keys.len() < t {
                            // shape from the witness: was the bare count enough?
                            let shape = if len < t {
                                "count-short"
                            } else if len > n {
                                "count-over-total"
                            } else {
                                "count-met-valid-short"
                            };
                            cx.tally("ThresholdWriteAuth::verify", shape, v);
                            match v {
                                V::True => run.violation_lazy("C08.reject", feats(&[("entry", "ThresholdWriteAuth::verify".into()), ("mutated", shape.into())]), || (w(), format!("ThresholdWriteAuth {t}-of-{n} accepted {lnames:?}: only {} listed key(s) signed the record", valid_keys.len()))),
                                V::Panic => run.violation_lazy("C08.nopanic", feats(&[("entry", "ThresholdWriteAuth::verify".into()), ("mutated", shape.into())]), || (w(), "ThresholdWriteAuth::verify panicked".into())),
                                _ => {}
                            }
                        } else if all_genuine_distinct {
                            cx.must_accept("ThresholdWriteAuth::verify", "generate", v, w);
                        } else {
                            cx.tally("ThresholdWriteAuth::verify", "enough-valid-plus-extras(not judged)", v);
                        }
                    }
                }
            }
        }
        // Composite all/any: reference = AND / OR of the children's expectations
        // child expectation: Single(K): first signature is gK; Delegated(L): first signature is gX with X in L.
        #[derive(Clone)]
        enum Child {
            S(usize),
            D(Vec<usize>),
        }
        let mkc = |c: &Child| -> Box<dyn WriteAuth> {
            match c {
                Child::S(i) => Box::new(SingleWriteAuth::new(pkv(keys[*i]))),
                Child::D(l) => Box::new(DelegatedWriteAuth::new(l.iter().map(|&i| pkv(keys[i])).collect())),
            }
        };
        let cname = |c: &Child| match c {
            Child::S(i) => format!("Single({})", names[*i]),
            Child::D(l) => format!("Delegated({:?})", l.iter().map(|&i| names[i]).collect::<Vec<_>>()),
        };
        let configs: Vec<Vec<Child>> = vec![
            vec![],
            vec![Child::S(0)],
            vec![Child::S(0), Child::S(1)],
            vec![Child::S(0), Child::S(0)],
            vec![Child::S(0), Child::D(vec![0, 1])],
            vec![Child::S(0), Child::D(vec![1, 2])],
            vec![Child::D(vec![0, 1]), Child::D(vec![1, 2])],
            vec![Child::S(1), Child::S(2), Child::D(vec![0])],
        ];
        // signature lists: first element decides for Single/Delegated; (name, first signer if genuine)
        let siglists: Vec<(String, Vec<Sig>, Option<usize>)> = {
            let mut v: Vec<(String, Vec<Sig>, Option<usize>)> = vec![("[]".into(), vec![], None)];
            for i in 0..4 {
                v.push((format!("[g{}]", names[i]), vec![Sig::new(gsig[i].clone())], Some(i)));
            }
            v.push(("[fA]".into(), vec![Sig::new(fsig_a.clone())], None));
            v.push(("[wA]".into(), vec![Sig::new(wsig_a.clone())], None));
            v.push(("[gA,gB]".into(), vec![Sig::new(gsig[0].clone()), Sig::new(gsig[1].clone())], Some(0)));
            v.push(("[gB,gA]".into(), vec![Sig::new(gsig[1].clone()), Sig::new(gsig[0].clone())], Some(1)));
            v.push(("[fA,gA]".into(), vec![Sig::new(fsig_a.clone()), Sig::new(gsig[0].clone())], None));
            v
        };
        for cfg in &configs {
            for all in [true, false] {
                let children: Vec<Box<dyn WriteAuth>> = cfg.iter().map(mkc).collect();
                let comp = if all { CompositeWriteAuth::all(children) } else { CompositeWriteAuth::any(children) };
                let entry = if all { "CompositeWriteAuth::all" } else { "CompositeWriteAuth::any" };
                for (sname, sigs, first) in &siglists {
                    let exp: Vec<bool> = cfg
                        .iter()
                        .map(|c| match (c, first) {
                            (_, None) => false,
                            (Child::S(i), Some(f)) => i == f,
                            (Child::D(l), Some(f)) => l.contains(f),
                        })
                        .collect();
                    let v = v_of(catch(|| block_on(comp.verify(record, sigs))));
                    let w = || wa_wit(json!({"auth": format!("{entry}({:?})", cfg.iter().map(cname).collect::<Vec<_>>()), "sigs": sname, "children_expected": exp, "observed": v.s()}));
                    if cfg.is_empty() {
                        // a composite of zero methods is not covered by the statement — recorded, not judged
                        cx.tally(entry, "no-children(not judged)", v);
                    } else if sigs.len() > 1 && first.is_none() {
                        // [altered, genuine]: which signature a single-writer check must look at is not fixed — not judged
                        cx.tally(entry, "genuine-not-first(not judged)", v);
                    } else {
                        let expected = if all { exp.iter().all(|&b| b) } else { exp.iter().any(|&b| b) };
                        if expected {
                            cx.must_accept(entry, "generate", v, w);
                        } else {
                            cx.must_reject(entry, if first.is_some() { "foreign-key" } else if sigs.is_empty() { "no-signature" } else { "altered-signature" }, v, w);
                        }
                    }
                }
            }
        }
    }

    // ---- run all groups on all cores ------------------------------------------------------------
    const CHUNK: usize = 128;
    let mut chunks: Vec<(usize, usize, usize)> = Vec::new();
    for (gi, g) in groups.iter().enumerate() {
        let mut s = 0;
        while s < g.n {
            chunks.push((gi, s, (s + CHUNK).min(g.n)));
            s += CHUNK;
        }
    }
    // interleave the groups (all first chunks, then all second chunks, ...): if the wall-clock cap is hit on a loaded
    // machine every family has been covered in part instead of the first families in full
    chunks.sort_by_key(|&(gi, s, _)| (s, gi));
    let done_cases = AtomicU64::new(0);
    let total_cases: u64 = groups.iter().map(|g| g.n as u64).sum();
    par_for(chunks.len(), |ci| {
        if budget.exceeded() {
            return;
        }
        let (gi, s, e) = chunks[ci];
        for x in s..e {
            (groups[gi].f)(x);
        }
        done_cases.fetch_add((e - s) as u64, Ordering::Relaxed);
    });
    let done_cases = done_cases.into_inner();
    let _ = std::fs::remove_dir_all(&dir);
    if budget.was_hit() {
        run.cap_hit(format!("wall-clock budget: {done_cases} of {total_cases} enumerated flip/list cases evaluated (positive cases, key lists, threshold lists and composites completed first)"));
        if !base_done {
            run.machinery_error("not even the positive cases completed");
        }
    }

    let group_sizes: Vec<Value> = groups.iter().map(|g| json!({"group": g.name, "cases": g.n})).collect();
    drop(groups);
    let hist = cx.hist.lock().unwrap().clone();
    let samples = cx.samples.lock().unwrap().clone();
    let skipped = cx.skipped.load(Ordering::Relaxed);
    let coverage = cov(vec![
        ("evaluations", json!(distinct.evaluations())),
        ("distinct_nontrivial", json!(distinct.distinct())),
        ("rule", json!("evaluation = one call of a verifying entry point on one enumerated case; distinct = distinct (entry point, kind of case, observed verdict) triples")),
        ("samples", json!(samples)),
        ("exhaustive", json!(!budget.was_hit())),
        ("outcome_histogram", json!(hist)),
        (
            "bounds",
            json!({
                "flip_set": "every single bit of message, signature (26472) and public key (15616) for every identity x message and every entry point",
                "flip_set_multi_key_delegated_lists": if full_multi { "every bit" } else { "every bit of the first and last 64 bytes + bit (i mod 8) of every byte i in between (signature 4205 flips, key 2848 flips)" },
                "identities": idents.iter().map(|i| i.label.clone()).collect::<Vec<_>>(),
                "message_lengths": msg_lens,
                "identity_message_pairs_without_usable_signature_or_unjudged_window_cases": skipped,
                "groups": group_sizes,
                "enumerated_cases_in_groups": total_cases,
                "evaluated_cases_in_groups": done_cases,
                "measured_verify_us": verify_us,
                "measured_sign_us": sign_us,
                "update_file_len": file_len,
            }),
        ),
    ]);
    run.finish(
        coverage,
        vec![
            "built with debug assertions off (profile ship); start-up self-check: cross-key signature refused and the keyless debug-shim signature refused".into(),
            "refused = Ok(false) or Err; both count as verification failure".into(),
            "identities whose own signature does not verify (C08.accept) have no flip enumeration: every altered case is trivially refused".into(),
            "validity window: now == valid_until is recorded but not judged (inclusive/exclusive expiry is not fixed by the statement); a window case is judged only when the wall-clock second did not change across the call".into(),
            "upper-case checksum strings are recorded, not judged (same checksum value)".into(),
            "ThresholdWriteAuth: must-reject when fewer than t distinct listed keys have a valid signature over the record in the list; must-accept only for lists of >= t distinct genuine signatures and nothing else; in between is not judged".into(),
            "Single/Delegated with several signatures where the first is not genuine, and composites of zero methods, are recorded but not judged".into(),
            "SecureNodeIdentity::from_seed is judged only for sign/verify consistency (it ignores the seed; determinism is not part of C08)".into(),
            "ML-DSA signing is randomised: signature bytes differ between runs, verdicts do not".into(),
        ],
    );
}
