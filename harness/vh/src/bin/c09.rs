//! C09 — a peer record verifies only if its owner signed exactly it, cached or not (ship build).
//!
//! Real `PeerDHTRecord` / `SignatureCache`, built with debug assertions OFF (start-up self-check).
//!   A. field-level mutation alphabet of three genuine records (every field, signature kept) and every
//!      single-bit flip of every field byte that enters the signable encoding  -> `C09.sig`
//!   B. records whose user id is not the one derived from the embedded key, validly signed by the
//!      key's owner                                                            -> `C09.id`
//!   C. differential `verify_cached` == `verify_signature`:
//!      every two-presentation history [G, M] / [M, G] for every mutation M of A/B (capacities 1, 16), and a
//!      BFS over presentation histories of a 9-record alphabet to ONE cache:
//!      capacities 1 and 16 to a fix-point (state = observable probe vector), capacities 2 and 3 over
//!      all histories up to the depth bound without merging (eviction order is the map's) -> `C09.cache`
//!   D. construction grid name x endpoints x ttl                               -> `C09.bounds`
use saorsa_core::NetworkAddress;
use saorsa_core::peer_record::{EndpointId, MAX_ENDPOINTS_PER_PEER, MAX_TTL_SECONDS, NatType, PeerDHTRecord, PeerEndpoint, SignatureCache, UserId};
use saorsa_core::quantum_crypto::ant_quic_integration::{MlDsaPublicKey, MlDsaSecretKey, MlDsaSignature, generate_ml_dsa_keypair, ml_dsa_sign, ml_dsa_verify};
use serde_json::{Value, json};
use std::sync::Mutex;
use std::sync::atomic::{AtomicU64, Ordering};
use std::time::Duration;
use vh::core::*;

const TS: u64 = 1_700_000_000;
const SIG_LEN: usize = 3309;

struct Id {
    name: &'static str,
    pk: MlDsaPublicKey,
    sk: MlDsaSecretKey,
}
fn new_id(name: &'static str) -> Id {
    let (pk, sk) = generate_ml_dsa_keypair().expect("keypair");
    Id { name, pk, sk }
}
impl Id {
    fn uid(&self) -> UserId {
        UserId::from_public_key(&self.pk)
    }
}

fn endpoint(i: u32) -> PeerEndpoint {
    let endpoint_id: EndpointId = serde_json::from_value(json!({"uuid": format!("00000000-0000-4000-8000-{:012x}", i + 1)})).expect("uuid");
    PeerEndpoint {
        endpoint_id,
        external_address: format!("192.168.1.{}:8080", i + 1).parse::<NetworkAddress>().expect("addr"),
        nat_type: NatType::FullCone,
        coordinator_nodes: vec!["coordinator1".to_string()],
        device_info: Some("test-device".to_string()),
        last_updated: TS,
    }
}

fn genuine(id: &Id, seq: u64, name: Option<&str>, n_ep: u32, ttl: u32, ts: u64) -> PeerDHTRecord {
    let mut r = PeerDHTRecord::new(id.uid(), id.pk.clone(), seq, name.map(|s| s.to_string()), (0..n_ep).map(endpoint).collect(), ttl).expect("genuine record");
    r.timestamp = ts;
    r.sign(&id.sk).expect("sign");
    r
}

fn direct(r: &PeerDHTRecord) -> Result<bool, String> {
    catch(|| r.verify_signature().is_ok())
}
fn cached(c: &mut SignatureCache, r: &PeerDHTRecord) -> Result<bool, String> {
    catch(|| c.verify_cached(r).is_ok())
}

fn rec_json(r: &PeerDHTRecord, ids: &[&Id]) -> Value {
    let key = ids.iter().find(|i| i.pk.as_bytes() == r.public_key.as_bytes()).map(|i| format!("public key of {}", i.name)).unwrap_or_else(|| format!("altered key, blake3 {}", &blake3::hash(r.public_key.as_bytes()).to_hex()[..16]));
    let uid = ids.iter().find(|i| i.uid() == r.user_id).map(|i| format!("UserId::from_public_key({})", i.name)).unwrap_or_else(|| format!("0x{}", hex::encode(r.user_id.hash)));
    json!({"version": r.version, "user_id": uid, "public_key": key, "sequence_number": r.sequence_number, "name": r.name,
           "endpoints": serde_json::to_value(&r.endpoints).unwrap_or(Value::Null), "ttl": r.ttl, "timestamp": r.timestamp,
           "signature_blake3": blake3::hash(r.signature.as_bytes()).to_hex()[..16].to_string()})
}

/// Field-level mutation alphabet: (field, description, mutated record). The signature is kept.
fn field_mutations(g: &PeerDHTRecord, other: &Id) -> Vec<(&'static str, String, PeerDHTRecord)> {
    let mut out: Vec<(&'static str, String, PeerDHTRecord)> = Vec::new();
    let mut m = |field: &'static str, desc: &str, f: &dyn Fn(&mut PeerDHTRecord)| {
        let mut r = g.clone();
        f(&mut r);
        out.push((field, desc.to_string(), r));
    };
    for v in [0u8, 2, 255] {
        m("version", &format!("version := {v}"), &|r| r.version = v);
    }
    m("user_id", "user_id: flip bit 0 of byte 0", &|r| r.user_id.hash[0] ^= 1);
    m("user_id", "user_id: flip bit 7 of byte 31", &|r| r.user_id.hash[31] ^= 0x80);
    m("user_id", "user_id := other identity's id", &|r| r.user_id = other.uid());
    m("user_id", "user_id := 00..00", &|r| r.user_id = UserId::from_bytes([0; 32]));
    m("public_key", "public_key := other identity's key (user_id kept)", &|r| r.public_key = other.pk.clone());
    m("public_key", "public_key and user_id := other identity's", &|r| {
        r.public_key = other.pk.clone();
        r.user_id = other.uid();
    });
    m("sequence_number", "sequence_number + 1", &|r| r.sequence_number = r.sequence_number.wrapping_add(1));
    m("sequence_number", "sequence_number - 1", &|r| r.sequence_number = r.sequence_number.wrapping_sub(1));
    m("sequence_number", "sequence_number := u64::MAX", &|r| r.sequence_number = u64::MAX);
    match &g.name {
        Some(n) => {
            m("name", "name := None", &|r| r.name = None);
            m("name", "name: last character changed", &|r| {
                let mut s = n.clone();
                s.pop();
                s.push('#');
                r.name = Some(s)
            });
            m("name", "name: one character appended", &|r| r.name = Some(format!("{n}x")));
            m("name", "name: first character removed", &|r| r.name = Some(n[1..].to_string()));
            m("name", "name: upper-cased", &|r| r.name = Some(n.to_uppercase()));
        }
        None => {
            m("name", "name := Some(\"a\")", &|r| r.name = Some("a".into()));
            m("name", "name := Some(\"\\0\")", &|r| r.name = Some("\0".into()));
        }
    }
    m("endpoints.address", "endpoint 0: IP address changed", &|r| r.endpoints[0].external_address = "192.168.1.200:8080".parse().unwrap());
    m("endpoints.address", "endpoint 0: port + 1", &|r| r.endpoints[0].external_address = "192.168.1.1:8081".parse().unwrap());
    m("endpoints.address", "endpoint 0: IPv6 address", &|r| r.endpoints[0].external_address = "[2001:db8::1]:8080".parse().unwrap());
    m("endpoints.address", "endpoint 0: four_words := None/Some(other)", &|r| {
        let fw = &mut r.endpoints[0].external_address.four_words;
        *fw = if fw.is_some() { None } else { Some("a.b.c.d".into()) };
    });
    for nt in [NatType::NoNat, NatType::RestrictedCone, NatType::PortRestricted, NatType::Symmetric, NatType::Unknown] {
        m("endpoints.nat_type", &format!("endpoint 0: nat_type := {nt:?}"), &|r| r.endpoints[0].nat_type = nt);
    }
    m("endpoints.coordinators", "endpoint 0: coordinator added", &|r| r.endpoints[0].coordinator_nodes.push("evil".into()));
    m("endpoints.coordinators", "endpoint 0: coordinators cleared", &|r| r.endpoints[0].coordinator_nodes.clear());
    m("endpoints.coordinators", "endpoint 0: coordinator renamed", &|r| r.endpoints[0].coordinator_nodes[0] = "coordinator2".into());
    m("endpoints.device_info", "endpoint 0: device_info := None", &|r| r.endpoints[0].device_info = None);
    m("endpoints.device_info", "endpoint 0: device_info changed", &|r| r.endpoints[0].device_info = Some("test-devicf".into()));
    m("endpoints.last_updated", "endpoint 0: last_updated + 1", &|r| r.endpoints[0].last_updated += 1);
    m("endpoints.last_updated", "endpoint 0: last_updated - 1", &|r| r.endpoints[0].last_updated -= 1);
    m("endpoints.endpoint_id", "endpoint 0: endpoint_id changed", &|r| r.endpoints[0].endpoint_id = endpoint(77).endpoint_id);
    m("endpoints.count", "endpoint appended (copy of endpoint 0)", &|r| {
        let e = r.endpoints[0].clone();
        r.endpoints.push(e)
    });
    m("endpoints.count", "endpoint appended (new)", &|r| r.endpoints.push(endpoint(9)));
    m("endpoints.count", "last endpoint removed", &|r| {
        r.endpoints.pop();
    });
    if g.endpoints.len() >= 2 {
        m("endpoints.order", "endpoints 0 and 1 swapped", &|r| r.endpoints.swap(0, 1));
    }
    m("timestamp", "timestamp + 1", &|r| r.timestamp += 1);
    m("timestamp", "timestamp - 1", &|r| r.timestamp -= 1);
    m("timestamp", "timestamp := 0", &|r| r.timestamp = 0);
    m("ttl", "ttl + 1", &|r| r.ttl += 1);
    m("ttl", "ttl - 1", &|r| r.ttl -= 1);
    m("ttl", "ttl := 0", &|r| r.ttl = 0);
    m("ttl", "ttl := MAX + 1", &|r| r.ttl = MAX_TTL_SECONDS + 1);
    m("signature", "signature: flip bit 0 of byte 0", &|r| r.signature.0[0] ^= 1);
    m("signature", "signature: flip bit 7 of the last byte", &|r| r.signature.0[SIG_LEN - 1] ^= 0x80);
    m("signature", "signature := zeros", &|r| r.signature = MlDsaSignature(Box::new([0u8; SIG_LEN])));
    m("signature", "signature := other identity's signature over the same bytes", &|r| {
        let msg = r.create_signable_message().unwrap();
        r.signature = ml_dsa_sign(&other.sk, &msg).unwrap()
    });
    out
}

/// Bit-level family: every single-bit flip of every field byte that enters the signable encoding.
/// Returns (field, bit index within the field, mutated record); None when the flipped bytes are not a
/// presentable value of the field (non-UTF-8 name, endpoint bytes that do not decode canonically).
#[derive(Clone, Copy, Debug)]
enum BitField {
    Version,
    UserId,
    PublicKey,
    Sequence,
    Name,
    Endpoints,
    Timestamp,
    Ttl,
    Signature,
}
fn bit_cases(g: &PeerDHTRecord) -> Vec<(BitField, usize)> {
    let mut v = Vec::new();
    let mut add = |f: BitField, bytes: usize| v.extend((0..bytes * 8).map(|b| (f, b)));
    add(BitField::Version, 1);
    add(BitField::UserId, 32);
    add(BitField::PublicKey, 1952);
    add(BitField::Sequence, 8);
    add(BitField::Name, g.name.as_ref().map(|n| n.len()).unwrap_or(0));
    add(BitField::Endpoints, postcard::to_stdvec(&g.endpoints).map(|b| b.len()).unwrap_or(0));
    add(BitField::Timestamp, 8);
    add(BitField::Ttl, 4);
    add(BitField::Signature, SIG_LEN);
    v
}
fn apply_bit(g: &PeerDHTRecord, f: BitField, bit: usize) -> Option<PeerDHTRecord> {
    let mut r = g.clone();
    let (byte, mask) = (bit / 8, 1u8 << (bit % 8));
    match f {
        BitField::Version => r.version ^= mask,
        BitField::UserId => r.user_id.hash[byte] ^= mask,
        BitField::PublicKey => r.public_key.0[byte] ^= mask,
        BitField::Sequence => r.sequence_number ^= 1u64 << bit,
        BitField::Name => {
            let mut b = g.name.clone()?.into_bytes();
            b[byte] ^= mask;
            r.name = Some(String::from_utf8(b).ok()?);
        }
        BitField::Endpoints => {
            let mut b = postcard::to_stdvec(&g.endpoints).ok()?;
            b[byte] ^= mask;
            let eps: Vec<PeerEndpoint> = postcard::from_bytes(&b).ok()?;
            if postcard::to_stdvec(&eps).ok()? != b {
                return None;
            }
            r.endpoints = eps;
        }
        BitField::Timestamp => r.timestamp ^= 1u64 << bit,
        BitField::Ttl => r.ttl ^= 1u32 << bit,
        BitField::Signature => r.signature.0[byte] ^= mask,
    }
    Some(r)
}

fn field_name(f: BitField) -> &'static str {
    match f {
        BitField::Version => "version",
        BitField::UserId => "user_id",
        BitField::PublicKey => "public_key",
        BitField::Sequence => "sequence_number",
        BitField::Name => "name",
        BitField::Endpoints => "endpoints",
        BitField::Timestamp => "timestamp",
        BitField::Ttl => "ttl",
        BitField::Signature => "signature",
    }
}

/// How a presented record relates to an earlier-presented record with the opposite direct verdict (witness-derived).
fn collision_class(r: &PeerDHTRecord, earlier: &[(&PeerDHTRecord, bool)], direct_now: bool) -> &'static str {
    let mut best = "none";
    for (e, d) in earlier {
        if *d == direct_now {
            continue;
        }
        let c = if e.user_id == r.user_id && e.sequence_number == r.sequence_number && e.timestamp == r.timestamp {
            "same user_id+sequence+timestamp"
        } else if e.user_id == r.user_id && e.sequence_number == r.sequence_number {
            "same user_id+sequence"
        } else if e.user_id == r.user_id {
            "same user_id"
        } else {
            "none"
        };
        let rank = |s: &str| match s {
            "same user_id+sequence+timestamp" => 3,
            "same user_id+sequence" => 2,
            "same user_id" => 1,
            _ => 0,
        };
        if rank(c) > rank(best) {
            best = c;
        }
    }
    best
}

fn main() {
    let run = Run::new("C09", "model_checking");
    quiet_panics();
    let distinct = Distinct::default();
    let thorough = run.tier == Tier::Thorough;
    let budget = Budget::new(Duration::from_secs(run.tier.pick(50, 1700)));

    let i1 = new_id("I1");
    let i2 = new_id("I2");
    let ids = [&i1, &i2];

    // ---- start-up self-check: real ML-DSA path ------------------------------------------------------
    {
        let m = b"vh-c09 self-check";
        let s = ml_dsa_sign(&i1.sk, m).expect("sign");
        let own = ml_dsa_verify(&i1.pk, m, &s).unwrap_or(false);
        let other = ml_dsa_verify(&i2.pk, m, &s).unwrap_or(false);
        let mut forged = [0u8; SIG_LEN];
        let pd = blake3::hash(i1.pk.as_bytes());
        let md = blake3::hash(m);
        forged[..32].copy_from_slice(pd.as_bytes());
        forged[32..64].copy_from_slice(md.as_bytes());
        let mut h = blake3::Hasher::new();
        h.update(pd.as_bytes());
        h.update(md.as_bytes());
        h.update(&(m.len() as u64).to_le_bytes());
        h.update(m);
        h.finalize_xof().fill(&mut forged[64..]);
        let keyless = ml_dsa_verify(&i1.pk, m, &MlDsaSignature::from_bytes(&forged).unwrap()).unwrap_or(false);
        if cfg!(debug_assertions) || !own || other || keyless {
            run.machinery_error(format!(
                "real ML-DSA path not active (debug_assertions={}, own-key verify={own}, other-key verify={other}, keyless shim signature verifies={keyless}); build with --profile ship",
                cfg!(debug_assertions)
            ));
            run.finish(cov(vec![("states", json!(0)), ("transitions", json!(0)), ("exhaustive", json!(false))]), vec![]);
        }
    }

    let executions = AtomicU64::new(0); // histories executed on a real cache / records presented to verify_signature
    let sample_hist: Mutex<Vec<Value>> = Mutex::new(Vec::new());

    // genuine records
    let g1 = genuine(&i1, 1, Some("alice"), 1, 300, TS);
    let g2 = genuine(&i1, 2, None, 2, 600, TS + 60);
    let g3 = genuine(&i2, 1, Some("bob"), 1, 300, TS);
    let recipe = json!({
        "I1,I2": "two generate_ml_dsa_keypair() identities",
        "endpoint(i)": "PeerEndpoint{endpoint_id: uuid 00000000-0000-4000-8000-<i+1 as 12 hex>, external_address: \"192.168.1.<i+1>:8080\".parse(), nat_type: FullCone, coordinator_nodes: [\"coordinator1\"], device_info: Some(\"test-device\"), last_updated: 1700000000}",
        "G1": "PeerDHTRecord::new(UserId::from_public_key(I1), I1.pk, 1, Some(\"alice\"), [endpoint(0)], 300); timestamp := 1700000000; sign(I1.sk)",
        "G2": "PeerDHTRecord::new(UserId::from_public_key(I1), I1.pk, 2, None, [endpoint(0), endpoint(1)], 600); timestamp := 1700000060; sign(I1.sk)",
        "G3": "PeerDHTRecord::new(UserId::from_public_key(I2), I2.pk, 1, Some(\"bob\"), [endpoint(0)], 300); timestamp := 1700000000; sign(I2.sk)",
    });

    // ---- A. genuine verifies; every field-level mutation and every field-byte bit flip is refused (C09.sig) ------
    let gens: Vec<(&str, &PeerDHTRecord, &Id)> = vec![("G1", &g1, &i2), ("G2", &g2, &i2), ("G3", &g3, &i1)];
    for (n, g, _) in &gens {
        distinct.eval();
        executions.fetch_add(1, Ordering::Relaxed);
        let d = direct(g);
        distinct.outcome(&("genuine", *n, format!("{d:?}")));
        match d {
            Ok(true) => {}
            Ok(false) => run.violation("C09.sig", feats(&[("entry", "PeerDHTRecord::verify_signature".into()), ("shape", "genuine-refused".into())]), json!({"recipe": recipe, "record": n, "fields": rec_json(g, &ids)}), format!("genuine record {n} does not verify")),
            Err(p) => run.violation("C09.nopanic", feats(&[("entry", "PeerDHTRecord::verify_signature".into())]), json!({"recipe": recipe, "record": n, "panic": p}), format!("verify_signature panicked on genuine {n}")),
        }
    }
    // (name of base record, field, description, record)
    let mut muts: Vec<(&str, &'static str, String, PeerDHTRecord)> = Vec::new();
    for (n, g, other) in &gens {
        for (field, desc, r) in field_mutations(g, other) {
            muts.push((n, field, desc, r));
        }
    }
    let base_of = |n: &str| -> &PeerDHTRecord { gens.iter().find(|(m, _, _)| *m == n).map(|(_, g, _)| *g).unwrap() };
    let judge_mut = |base: &str, field: &str, desc: &str, r: &PeerDHTRecord, kind: &str| {
        distinct.eval();
        executions.fetch_add(1, Ordering::Relaxed);
        let g = base_of(base);
        // a mutation that leaves the signable bytes and the signature unchanged is a field the signature does not cover
        let same_bytes = catch(|| r.create_signable_message().ok() == g.create_signable_message().ok()).unwrap_or(false) && r.signature.as_bytes() == g.signature.as_bytes();
        let d = direct(r);
        distinct.outcome(&(kind.to_string(), field.to_string(), format!("{d:?}"), same_bytes));
        let wit = || json!({"recipe": recipe, "base": base, "mutation": desc, "presented": rec_json(r, &ids), "call": "presented.verify_signature()", "observed": format!("{d:?}")});
        match d {
            Ok(false) => {}
            Ok(true) => run.violation_lazy("C09.sig", feats(&[("entry", "PeerDHTRecord::verify_signature".into()), ("shape", if same_bytes { "field-not-covered".into() } else { "altered-accepted".into() }), ("field", field.into())]), || (wit(), format!("{base} with {desc} still verifies"))),
            Err(_) => run.violation_lazy("C09.nopanic", feats(&[("entry", "PeerDHTRecord::verify_signature".into()), ("field", field.into())]), || (wit(), format!("verify_signature panicked on {base} with {desc}"))),
        }
    };
    for (base, field, desc, r) in &muts {
        judge_mut(base, field, desc, r, "field-mutation");
    }
    // bit-level
    let bit_bases: Vec<&str> = if thorough { vec!["G1", "G2", "G3"] } else { vec!["G1"] };
    let mut bit_list: Vec<(&str, BitField, usize)> = Vec::new();
    for b in &bit_bases {
        for (f, bit) in bit_cases(base_of(b)) {
            bit_list.push((b, f, bit));
        }
    }
    let unrealisable = AtomicU64::new(0);
    let bit_done = AtomicU64::new(0);
    // for [G, M] cache histories of the bit-level family (thorough)
    let pair_judge = |cap: usize, first: (&str, &PeerDHTRecord), second: (&str, &PeerDHTRecord)| {
        executions.fetch_add(1, Ordering::Relaxed);
        let mut c = SignatureCache::new(cap);
        let d1 = direct(first.1).unwrap_or(false);
        let d2 = direct(second.1).unwrap_or(false);
        let c1 = cached(&mut c, first.1);
        let c2 = cached(&mut c, second.1);
        for (step, (cv, dv)) in [(c1.clone(), d1), (c2.clone(), d2)].into_iter().enumerate() {
            distinct.eval();
            distinct.outcome(&("pair", step, format!("{cv:?}"), dv));
            let r = if step == 0 { first.1 } else { second.1 };
            let earlier: Vec<(&PeerDHTRecord, bool)> = if step == 0 { vec![] } else { vec![(first.1, d1)] };
            let wit = || json!({"recipe": recipe, "cache": format!("SignatureCache::new({cap})"), "presented_in_order": [first.0, second.0], "records": {"first": rec_json(first.1, &ids), "second": rec_json(second.1, &ids)},
                                 "verify_cached_verdicts": [format!("{c1:?}"), format!("{c2:?}")], "verify_signature_verdicts": [d1, d2], "failing_step": step});
            match cv {
                Err(_) => run.violation_lazy("C09.nopanic", feats(&[("entry", "SignatureCache::verify_cached".into())]), || (wit(), "verify_cached panicked".into())),
                Ok(cv) if cv != dv => {
                    let shape = if cv { "forged-accepted-from-cache" } else { "genuine-refused-from-cache" };
                    let coll = collision_class(r, &earlier, dv);
                    run.violation_lazy("C09.cache", feats(&[("entry", "SignatureCache::verify_cached".into()), ("shape", shape.into()), ("collides", coll.into())]), || (wit(), format!("capacity {cap}: after {}, verify_cached({}) = {cv} but verify_signature = {dv}", first.0, second.0)));
                }
                _ => {}
            }
        }
    };
    par_for(bit_list.len().div_ceil(64), |ci| {
        if budget.exceeded() {
            return;
        }
        for x in ci * 64..((ci + 1) * 64).min(bit_list.len()) {
            let (base, f, bit) = bit_list[x];
            match apply_bit(base_of(base), f, bit) {
                None => {
                    unrealisable.fetch_add(1, Ordering::Relaxed);
                }
                Some(r) => {
                    let desc = format!("{}: flip bit {} of byte {}", field_name(f), bit % 8, bit / 8);
                    judge_mut(base, field_name(f), &desc, &r, "bit-flip");
                    if thorough {
                        pair_judge(16, (base, base_of(base)), (&desc, &r));
                    }
                }
            }
            bit_done.fetch_add(1, Ordering::Relaxed);
        }
    });

    run.info_n("ms_until_end_of_A_sig_mutations", run.elapsed().as_millis() as u64);
    // ---- B. user id / key binding (C09.id) ----------------------------------------------------------------
    // records signed by the owner of the embedded key whose user_id is NOT UserId::from_public_key(key)
    let mut id_cases: Vec<(String, PeerDHTRecord)> = Vec::new();
    {
        let mut mk = |desc: &str, signer: &Id, uid: UserId| {
            let mut r = PeerDHTRecord::new(uid, signer.pk.clone(), 1, Some("alice".into()), vec![endpoint(0)], 300).expect("record");
            r.timestamp = TS;
            r.sign(&signer.sk).expect("sign");
            id_cases.push((desc.to_string(), r));
        };
        mk("user_id = id of I1, key = I2, signed by I2 (impersonation)", &i2, i1.uid());
        mk("user_id = id of I2, key = I1, signed by I1 (impersonation)", &i1, i2.uid());
        mk("user_id = 00..00, key = I1, signed by I1", &i1, UserId::from_bytes([0; 32]));
        let mut u = i1.uid();
        u.hash[0] ^= 1;
        mk("user_id = id of I1 with bit 0 flipped, key = I1, signed by I1", &i1, u);
        let mut u = i1.uid();
        u.hash[31] ^= 0x80;
        mk("user_id = id of I1 with last bit flipped, key = I1, signed by I1", &i1, u);
    }
    for (desc, r) in &id_cases {
        distinct.eval();
        executions.fetch_add(1, Ordering::Relaxed);
        let d = direct(r);
        distinct.outcome(&("id-binding", desc.clone(), format!("{d:?}")));
        let wit = || json!({"recipe": recipe, "construct": format!("PeerDHTRecord::new(user_id, key, 1, Some(\"alice\"), [endpoint(0)], 300); timestamp := {TS}; sign(secret of the key's owner) — {desc}"), "presented": rec_json(r, &ids), "call": "verify_signature()", "observed": format!("{d:?}")});
        match d {
            Ok(false) => {}
            Ok(true) => run.violation_lazy("C09.id", feats(&[("entry", "PeerDHTRecord::verify_signature".into()), ("shape", "foreign-user-id-signed-by-key-owner".into())]), || (wit(), format!("verify_signature accepts a record whose user_id is not derived from its key: {desc}"))),
            Err(_) => run.violation_lazy("C09.nopanic", feats(&[("entry", "PeerDHTRecord::verify_signature".into()), ("field", "user_id".into())]), || (wit(), "panic".into())),
        }
    }

    run.info_n("ms_until_end_of_B_id_binding", run.elapsed().as_millis() as u64);
    // ---- C1. two-presentation histories for the whole field-mutation alphabet ------------------------------------
    let pair_caps = [16usize, 1];
    let mut pair_jobs: Vec<(usize, usize, bool)> = Vec::new(); // (mutation index or id-case index + muts.len(), cap, genuine first)
    for i in 0..muts.len() + id_cases.len() {
        for &cap in &pair_caps {
            for gf in [true, false] {
                pair_jobs.push((i, cap, gf));
            }
        }
    }
    // sequential (cheap): the first witness per signature is then the first mutation of the alphabet, on every run
    for j in 0..pair_jobs.len() {
        if budget.exceeded() {
            break;
        }
        let (i, cap, genuine_first) = pair_jobs[j];
        let (gname, gr, mname, mr): (&str, &PeerDHTRecord, String, &PeerDHTRecord) = if i < muts.len() {
            let (b, _, d, r) = &muts[i];
            (b, base_of(b), format!("{b} with {d}"), r)
        } else {
            let (d, r) = &id_cases[i - muts.len()];
            ("G1", &g1, d.clone(), r)
        };
        if genuine_first {
            pair_judge(cap, (gname, gr), (&mname, mr));
        } else {
            pair_judge(cap, (&mname, mr), (gname, gr));
        }
    }

    run.info_n("ms_until_end_of_C1_pairs", run.elapsed().as_millis() as u64);
    // ---- C2. BFS over presentation histories of a 9-record alphabet to one cache -----------------------------
    let f1 = {
        let mut r = g1.clone();
        r.name = Some("mallory".into());
        r
    };
    let f2 = {
        // attacker I2 claims G1's (user_id, sequence, timestamp) with its own key and a valid signature of its own
        let mut r = PeerDHTRecord::new(i1.uid(), i2.pk.clone(), 1, Some("alice".into()), vec![endpoint(5)], 300).expect("f2");
        r.timestamp = TS;
        r.sign(&i2.sk).expect("sign");
        r
    };
    let f3 = {
        let mut r = g2.clone();
        r.ttl += 1;
        r
    };
    let f4 = {
        let mut r = g3.clone();
        r.endpoints[0].external_address = "192.168.1.1:8081".parse().unwrap();
        r
    };
    let f5 = {
        let mut r = g1.clone();
        r.timestamp += 1;
        r
    };
    let f6 = {
        let mut r = g2.clone();
        r.signature.0[1000] ^= 0x10;
        r
    };
    let alpha: Vec<(&str, &str, &PeerDHTRecord)> = vec![
        ("G1", "genuine", &g1),
        ("G2", "genuine", &g2),
        ("G3", "genuine (other identity)", &g3),
        ("F1", "G1 with name := \"mallory\", signature kept (same user_id, sequence, timestamp as G1)", &f1),
        ("F2", "user_id, sequence, timestamp of G1; key of I2; endpoint(5); validly signed by I2", &f2),
        ("F3", "G2 with ttl + 1, signature kept (same user_id, sequence, timestamp as G2)", &f3),
        ("F4", "G3 with endpoint port + 1, signature kept (same user_id, sequence, timestamp as G3)", &f4),
        ("F5", "G1 with timestamp + 1, signature kept (collides with nothing)", &f5),
        ("F6", "G2 with bit 4 of signature byte 1000 flipped (same signable bytes as G2)", &f6),
    ];
    // direct verdicts: pure function of the record, evaluated three times (must agree)
    let mut dverd: Vec<bool> = Vec::new();
    for (n, _, r) in &alpha {
        let v: Vec<Result<bool, String>> = (0..3).map(|_| direct(r)).collect();
        if v[0] != v[1] || v[1] != v[2] || v[0].is_err() {
            run.machinery_error(format!("verify_signature of alphabet record {n} is not a stable boolean: {v:?}"));
        }
        dverd.push(v[0].clone().unwrap_or(false));
    }
    let alpha_json: Vec<Value> = alpha.iter().enumerate().map(|(i, (n, d, r))| json!({"name": n, "what": d, "verify_signature": dverd[i], "fields": rec_json(r, &ids)})).collect();

    let depth_nomerge = run.tier.pick(4, 6);
    let depth_fix = 14;
    // merge check: two-step probes (present p, then ask q). thorough: all 81 pairs; quick: p, q in {G1, F1, G2, F6}
    let two_step: Vec<usize> = if thorough { (0..9).collect() } else { vec![0, 3, 1, 8] };
    let replay = |cap: usize, h: &[usize]| -> (SignatureCache, Vec<Result<bool, String>>) {
        let mut c = SignatureCache::new(cap);
        let verdicts = h.iter().map(|&i| cached(&mut c, alpha[i].2)).collect();
        (c, verdicts)
    };
    let judge_last = |cap: usize, h: &[usize], verdicts: &[Result<bool, String>]| {
        let Some(&last) = h.last() else { return };
        distinct.eval();
        let cv = &verdicts[h.len() - 1];
        let dv = dverd[last];
        distinct.outcome(&(alpha[last].0, format!("{cv:?}"), dv));
        let wit = || json!({"recipe": recipe, "alphabet": alpha_json, "cache": format!("SignatureCache::new({cap})"), "presented_in_order": h.iter().map(|&i| alpha[i].0).collect::<Vec<_>>(),
                             "verify_cached_verdicts": verdicts.iter().map(|v| format!("{v:?}")).collect::<Vec<_>>(), "verify_signature_of_last": dv});
        match cv {
            Err(_) => run.violation_lazy("C09.nopanic", feats(&[("entry", "SignatureCache::verify_cached".into())]), || (wit(), "verify_cached panicked".into())),
            Ok(cv) if *cv != dv => {
                let shape = if *cv { "forged-accepted-from-cache" } else { "genuine-refused-from-cache" };
                let earlier: Vec<(&PeerDHTRecord, bool)> = h[..h.len() - 1].iter().map(|&i| (alpha[i].2, dverd[i])).collect();
                let coll = collision_class(alpha[last].2, &earlier, dv);
                run.violation_lazy("C09.cache", feats(&[("entry", "SignatureCache::verify_cached".into()), ("shape", shape.into()), ("collides", coll.into())]), || {
                    (wit(), format!("capacity {cap}: history {:?}: verify_cached({}) = {cv} but verify_signature = {dv}", h.iter().map(|&i| alpha[i].0).collect::<Vec<_>>(), alpha[last].0))
                });
            }
            _ => {}
        }
    };
    let mut bfs_reports: Vec<Value> = Vec::new();
    let mut states = 0u64;
    let mut transitions = 0u64;
    let mut all_fix = true;
    for cap in [16usize, 1, 2, 3] {
        let merging = cap == 1 || cap >= alpha.len();
        let depth = if merging { depth_fix } else { depth_nomerge };
        let stats = bfs(
            alpha.len(),
            depth,
            &budget,
            |h: &[usize]| {
                executions.fetch_add(1, Ordering::Relaxed);
                let (_c, verdicts) = replay(cap, h);
                judge_last(cap, h, &verdicts);
                if !merging {
                    // eviction order is the map's: no observable canonical form; every history is its own state
                    let canon: Vec<u8> = h.iter().map(|&i| i as u8).collect();
                    return Some((canon, 0));
                }
                // canon = what the cache would answer for each alphabet record if it were presented next
                // (observable; each probe on its own replayed copy). Capacity >= alphabet: nothing is ever evicted, so a
                // key's presence only matters through these answers. Capacity 1: the cache holds exactly the last missed key.
                let mut canon: Vec<u8> = Vec::new();
                for p in 0..alpha.len() {
                    let (mut c, _) = replay(cap, h);
                    executions.fetch_add(1, Ordering::Relaxed);
                    canon.push(match cached(&mut c, alpha[p].2) {
                        Ok(true) => 1,
                        Ok(false) => 0,
                        Err(_) => 2,
                    });
                }
                let obs = {
                    let mut o: Vec<u8> = Vec::new();
                    for &p in &two_step {
                        for &q in &two_step {
                            let (mut c, _) = replay(cap, h);
                            executions.fetch_add(1, Ordering::Relaxed);
                            let _ = cached(&mut c, alpha[p].2);
                            o.push(match cached(&mut c, alpha[q].2) {
                                Ok(true) => 1,
                                Ok(false) => 0,
                                Err(_) => 2,
                            });
                        }
                    }
                    hash64(&o)
                };
                Some((canon, obs))
            },
            |x, y| {
                run.machinery_error(format!("capacity {cap}: histories {x:?} and {y:?} give equal one-step probe vectors but different two-step probes (canonicalisation unsound)"));
            },
        );
        states += stats.states;
        transitions += stats.transitions;
        let complete = if merging { stats.fixpoint } else { stats.completed_depth == depth };
        if !complete {
            all_fix = false;
        }
        {
            let mut s = sample_hist.lock().unwrap();
            for h in stats.sample_histories.iter().rev().take(2) {
                s.push(json!({"capacity": cap, "presented": h.iter().map(|&i| alpha[i].0).collect::<Vec<_>>()}));
            }
        }
        bfs_reports.push(json!({"capacity": cap, "mode": if merging { "merge on observable probe vector, run to fix-point" } else { "no merging, all histories to the depth bound (eviction victim chosen by HashMap order: absence of failures not claimed exhaustive)" },
            "depth_bound": depth, "completed_depth": stats.completed_depth, "fixpoint": stats.fixpoint, "states": stats.states, "transitions": stats.transitions, "revisits_compared": stats.revisits, "frontier_sizes": stats.frontier_sizes}));
    }

    run.info_n("ms_until_end_of_C2_bfs", run.elapsed().as_millis() as u64);
    // ---- D. construction bounds (C09.bounds) ----------------------------------------------------------------
    let name_grid: Vec<(String, Option<String>, Option<bool>)> = vec![
        ("None".into(), None, Some(true)),
        ("len 0".into(), Some(String::new()), None), // empty name: not fixed by the statement — must still fail if another argument is out of bounds
        ("len 1".into(), Some("a".into()), Some(true)),
        ("len 255".into(), Some("a".repeat(255)), Some(true)),
        ("len 256".into(), Some("a".repeat(256)), Some(false)),
        ("128 two-byte chars (256 bytes)".into(), Some("é".repeat(128)), None), // bytes vs characters: not judged
        ("len 1000".into(), Some("a".repeat(1000)), Some(false)),
    ];
    let ep_grid = [0usize, 1, 2, MAX_ENDPOINTS_PER_PEER, MAX_ENDPOINTS_PER_PEER + 1, 64];
    let ttl_grid = [0u32, 1, 300, MAX_TTL_SECONDS, MAX_TTL_SECONDS + 1, u32::MAX];
    let mut grid_n = 0u64;
    for (nd, name, name_ok) in &name_grid {
        for &ne in &ep_grid {
            for &ttl in &ttl_grid {
                grid_n += 1;
                distinct.eval();
                executions.fetch_add(1, Ordering::Relaxed);
                let eps: Vec<PeerEndpoint> = (0..ne as u32).map(endpoint).collect();
                let res = catch(|| PeerDHTRecord::new(i1.uid(), i1.pk.clone(), 1, name.clone(), eps.clone(), ttl));
                let others_ok = (1..=16).contains(&ne) && (1..=86_400).contains(&ttl);
                let expect: Option<bool> = match (name_ok, others_ok) {
                    (_, false) => Some(false),
                    (Some(b), true) => Some(*b),
                    (None, true) => None,
                };
                let got = match &res {
                    Ok(Ok(_)) => "Ok",
                    Ok(Err(_)) => "Err",
                    Err(_) => "panic",
                };
                distinct.outcome(&("bounds", nd.clone(), ne, ttl, got));
                let wit = || json!({"call": "PeerDHTRecord::new(user_id, key, 1, name, endpoints, ttl)", "name": nd, "endpoints": ne, "ttl": ttl, "observed": got, "documented": "name <= 255, 1..=16 endpoints, ttl 1..=86400"});
                match (&res, expect) {
                    (Err(_), _) => run.violation_lazy("C09.nopanic", feats(&[("entry", "PeerDHTRecord::new".into())]), || (wit(), "PeerDHTRecord::new panicked".into())),
                    (Ok(Ok(_)), Some(false)) => {
                        let which = if !(1..=16).contains(&ne) { "endpoints" } else if !(1..=86_400).contains(&ttl) { "ttl" } else { "name" };
                        run.violation_lazy("C09.bounds", feats(&[("entry", "PeerDHTRecord::new".into()), ("shape", "out-of-bounds-accepted".into()), ("field", which.into())]), || (wit(), format!("record outside the documented bounds accepted (name {nd}, {ne} endpoints, ttl {ttl})")));
                    }
                    (Ok(Err(_)), Some(true)) => run.violation_lazy("C09.bounds", feats(&[("entry", "PeerDHTRecord::new".into()), ("shape", "in-bounds-refused".into())]), || (wit(), format!("record inside the documented bounds refused (name {nd}, {ne} endpoints, ttl {ttl})"))),
                    _ => {}
                }
                // a record built at the edge of the bounds must sign and verify, directly and through a cache
                if let (Ok(Ok(r)), Some(true)) = (res, expect) {
                    let mut r = r;
                    r.timestamp = TS;
                    let ok = r.sign(&i1.sk).is_ok() && direct(&r) == Ok(true) && cached(&mut SignatureCache::new(4), &r) == Ok(true);
                    distinct.eval();
                    if !ok {
                        run.violation_lazy("C09.sig", feats(&[("entry", "PeerDHTRecord::verify_signature".into()), ("shape", "genuine-refused".into())]), || (wit(), format!("in-bounds record (name {nd}, {ne} endpoints, ttl {ttl}) does not sign+verify")));
                    }
                }
            }
        }
    }

    let bit_done = bit_done.into_inner();
    if budget.was_hit() {
        run.cap_hit(format!("wall-clock budget: bit-level cases {bit_done} of {}; BFS reports list the completed depths", bit_list.len()));
        all_fix = false;
        if states == 0 {
            run.machinery_error("not even depth 1 of the history search completed");
        }
    }
    let executions = executions.into_inner();
    let coverage = cov(vec![
        ("states", json!(states)),
        ("transitions", json!(transitions)),
        ("traces_validated_against_impl", json!(executions)),
        ("samples", json!(sample_hist.lock().unwrap().clone())),
        ("exhaustive", json!(all_fix && !budget.was_hit())),
        ("evaluations", json!(distinct.evaluations())),
        ("distinct_nontrivial", json!(distinct.distinct())),
        ("rule", json!("evaluation = one oracle comparison on the real code (verify_signature of a presented record, verify_cached at the end of a replayed history, or one constructor call); distinct = distinct (family, record/field, observed verdict(s)) tuples; traces = executions of the real code (replayed histories incl. probes, direct verifications, constructor calls)")),
        (
            "bounds",
            json!({
                "field_mutations": muts.len(), "bit_level_cases": bit_list.len(), "bit_level_done": bit_done, "bit_level_not_presentable": unrealisable.into_inner(), "bit_level_bases": bit_bases,
                "id_binding_cases": id_cases.len(), "pair_histories": pair_jobs.len(), "pair_capacities": pair_caps,
                "alphabet": alpha.iter().map(|(n, d, _)| format!("{n}: {d}")).collect::<Vec<_>>(),
                "bfs": bfs_reports, "two_step_merge_check_records": two_step.iter().map(|&i| alpha[i].0).collect::<Vec<_>>(), "construction_grid": grid_n,
            }),
        ),
    ]);
    run.finish(
        coverage,
        vec![
            "built with debug assertions off (profile ship); start-up self-check refuses the keyless debug shim".into(),
            "records are presented as the public-field struct a peer would deserialise; timestamps are fixed (1700000000), keys are fresh per run (verdicts do not depend on them)".into(),
            "verify_signature is a pure function of the record: its verdict per alphabet record is computed once (three agreeing calls) and used as the differential reference at every presentation".into(),
            "capacity 1 and capacity >= alphabet: states merged on the observable one-step probe vector and searched to a fix-point (all history lengths); capacities 2, 3: eviction victim is HashMap order, histories are not merged and absence of failures is claimed only for the histories run".into(),
            "name None <-> Some(\"\") (identical encodings, Some(\"\") refused by the constructor) is not in the mutation alphabet; empty names and names of <= 255 characters but > 255 bytes are not judged in the bounds grid".into(),
            "capacities 2 and 3: which entry is evicted varies from run to run (std HashMap order), so occurrence counts of a signature may differ between runs; the set of signatures and every verdict for capacities 1 and >= 9 do not".into(),
            "bit-level family: flips that yield a non-UTF-8 name or endpoint bytes that do not decode canonically cannot be presented as a record and are counted, not judged".into(),
        ],
    );
}
