//! C10 — global trust is a well-formed distribution that moves with reported behaviour.
//!
//! Family A: explicit-state BFS over operation histories on a real `EigenTrustEngine` (rebuilt by replay for
//! every history; `compute_global_trust()` after EVERY operation of the replay, `get_trust` for every node of the
//! computed map and for one never-mentioned identity at the end).
//! Family B: parametrised large-n bases (ring / in-star / out-star / clique / chain / no-edge, n up to 600, 0-2
//! anchors given to the constructor) x every 1-operation extension on every node class; complete over that family.
//!
//! Reference oracle = a BTreeMap of what was said (per-edge report sequence, per-node multiset of statistic
//! updates, anchor set); no model of the trust computation.
//!
//! Readings (weakest):
//! * "success / failure / corrupted / violation report for a peer" = the statistics reports that the production
//!   callers make (`P2PNode::report_peer_success` -> `update_node_stats(CorrectResponse)` etc.). The effect of the
//!   pairwise `update_local_trust(x, p, ±)` on p is tallied in the evidence, not judged.
//! * monotonicity compares p's score only when p was already part of the computation and has a score in BOTH maps
//!   (a peer that becomes known through the report itself has no score "without the report").
//! * `compute_global_trust()` returning through its internal 2 s timeout (cached map) is detected on a paused clock,
//!   where it is a deterministic behaviour of the subject, and reported as `C10.completes`.
//! * comparison clauses (`equal`, `mono-*`, `severity`) with a margin below 1e-3 are confirmed on fresh engines: the
//!   subject's `diff < 1e-4` stopping test can flip with HashMap iteration order in rare borderline states.
//! * `C10.query` is judged right after a computation for the nodes of the computed map and for a never-mentioned id.
//! * all-zero maps are accepted by `C10.sum`, except when no negative report and no anchor ever existed.
use futures::FutureExt;
use saorsa_core::adaptive::trust::{EigenTrustEngine, NodeStatisticsUpdate};
use saorsa_core::adaptive::{NodeId, TrustProvider};
use serde_json::{Value, json};
use std::collections::{BTreeMap, BTreeSet, HashSet};
use std::panic::AssertUnwindSafe;
use std::sync::Mutex;
use std::sync::atomic::{AtomicU64, Ordering};
use std::time::Duration;
use vh::core::*;

const TOL_MONO: f64 = 1e-12;
const TOL_SUM: f64 = 1e-9;
/// `C10.equal` tolerance. DESIGN says 1e-12; summation order inside the engine follows `HashMap` iteration order and
/// the map digests are quantised to 1e-10, so 1e-9 is the level at which every difference is guaranteed to be seen.
const TOL_EQUAL: f64 = 1e-9;
const UNKNOWN: u32 = 0xFFFF_FF00;

fn nid(i: u32) -> NodeId {
    let mut b = [0x5Au8; 32];
    b[..4].copy_from_slice(&i.to_le_bytes());
    NodeId::from_bytes(b)
}
fn idx(n: &NodeId) -> u32 {
    u32::from_le_bytes([n.hash[0], n.hash[1], n.hash[2], n.hash[3]])
}

#[derive(Clone, Copy, Debug, PartialEq, Eq, Hash, PartialOrd, Ord)]
enum Stat {
    Correct,
    Failed,
    Unavailable,
    Corrupted,
    Violation,
    Uptime(u64),
    Storage(u64),
    Bandwidth(u64),
    Compute(u64),
}
impl Stat {
    fn update(self) -> NodeStatisticsUpdate {
        match self {
            Stat::Correct => NodeStatisticsUpdate::CorrectResponse,
            Stat::Failed => NodeStatisticsUpdate::FailedResponse,
            Stat::Unavailable => NodeStatisticsUpdate::DataUnavailable,
            Stat::Corrupted => NodeStatisticsUpdate::CorruptedData,
            Stat::Violation => NodeStatisticsUpdate::ProtocolViolation,
            Stat::Uptime(v) => NodeStatisticsUpdate::Uptime(v),
            Stat::Storage(v) => NodeStatisticsUpdate::StorageContributed(v),
            Stat::Bandwidth(v) => NodeStatisticsUpdate::BandwidthContributed(v),
            Stat::Compute(v) => NodeStatisticsUpdate::ComputeContributed(v),
        }
    }
    fn kind(self) -> &'static str {
        match self {
            Stat::Correct => "CorrectResponse",
            Stat::Failed => "FailedResponse",
            Stat::Unavailable => "DataUnavailable",
            Stat::Corrupted => "CorruptedData",
            Stat::Violation => "ProtocolViolation",
            Stat::Uptime(_) => "Uptime",
            Stat::Storage(_) => "StorageContributed",
            Stat::Bandwidth(_) => "BandwidthContributed",
            Stat::Compute(_) => "ComputeContributed",
        }
    }
    fn amount(self) -> Option<u64> {
        match self {
            Stat::Uptime(v) | Stat::Storage(v) | Stat::Bandwidth(v) | Stat::Compute(v) => Some(v),
            _ => None,
        }
    }
    fn negative(self) -> bool {
        matches!(self, Stat::Failed | Stat::Unavailable | Stat::Corrupted | Stat::Violation)
    }
}

#[derive(Clone, Copy, Debug)]
enum Op {
    Stat(u32, Stat),
    Local(u32, u32, bool),
    AddAnchor(u32),
    RemAnchor(u32),
    Remove(u32),
}

type Namer<'a> = &'a (dyn Fn(u32) -> String + Sync);

fn op_json(o: &Op, nm: Namer) -> Value {
    match o {
        Op::Stat(x, s) => match s.amount() {
            Some(a) => json!({"update_node_stats": [nm(*x), s.kind(), a]}),
            None => json!({"update_node_stats": [nm(*x), s.kind()]}),
        },
        Op::Local(x, y, b) => json!({"update_local_trust": [nm(*x), nm(*y), b]}),
        Op::AddAnchor(x) => json!({"add_pre_trusted": nm(*x)}),
        Op::RemAnchor(x) => json!({"remove_pre_trusted": nm(*x)}),
        Op::Remove(x) => json!({"remove_node": nm(*x)}),
    }
}

/// What was said to the engine (reference; also the canonical form of a state).
#[derive(Default, Clone)]
struct Ref {
    /// report sequence per pair since the pair was last wiped by a removal
    edges: BTreeMap<(u32, u32), Vec<bool>>,
    /// sorted multiset of statistic updates per node (never cleared: `remove_node` is documented to touch the
    /// trust matrix and the cache only; keeping them makes the canon finer, never coarser)
    stats: BTreeMap<u32, Vec<Stat>>,
    /// nodes that received a statistic update after their last removal (for `C10.known`, weakest reading)
    stats_known: BTreeSet<u32>,
    anchors: BTreeSet<u32>,
    anchors_ever: bool,
    negative_ever: bool,
}
impl Ref {
    fn apply(&mut self, op: &Op) {
        match *op {
            Op::Stat(x, s) => {
                let v = self.stats.entry(x).or_default();
                v.push(s);
                v.sort();
                self.stats_known.insert(x);
                if s.negative() {
                    self.negative_ever = true;
                }
            }
            Op::Local(x, y, b) => {
                self.edges.entry((x, y)).or_default().push(b);
                if !b {
                    self.negative_ever = true;
                }
            }
            Op::AddAnchor(x) => {
                self.anchors.insert(x);
                self.anchors_ever = true;
            }
            Op::RemAnchor(x) => {
                self.anchors.remove(&x);
            }
            Op::Remove(x) => {
                self.edges.retain(|(a, b), _| *a != x && *b != x);
                self.stats_known.remove(&x);
            }
        }
    }
    fn known(&self) -> BTreeSet<u32> {
        let mut k: BTreeSet<u32> = self.stats_known.clone();
        for (a, b) in self.edges.keys() {
            k.insert(*a);
            k.insert(*b);
        }
        k
    }
    fn canon(&self) -> [u8; 16] {
        let mut h = blake3::Hasher::new();
        for ((a, b), seq) in &self.edges {
            h.update(&a.to_le_bytes());
            h.update(&b.to_le_bytes());
            h.update(&(seq.len() as u32).to_le_bytes());
            for s in seq {
                h.update(&[*s as u8]);
            }
        }
        h.update(b"|stats|");
        for (x, v) in &self.stats {
            h.update(&x.to_le_bytes());
            h.update(&(v.len() as u32).to_le_bytes());
            for s in v {
                h.update(s.kind().as_bytes());
                h.update(&s.amount().unwrap_or(0).to_le_bytes());
            }
        }
        h.update(b"|anchors|");
        for a in &self.anchors {
            h.update(&a.to_le_bytes());
        }
        let mut out = [0u8; 16];
        out.copy_from_slice(&h.finalize().as_bytes()[..16]);
        out
    }
}

type TMap = BTreeMap<u32, f64>;

fn map_json(m: &TMap, nm: Namer) -> Value {
    if m.len() > 12 {
        let sum: f64 = m.values().sum();
        let head: Vec<Value> = m.iter().take(6).map(|(k, v)| json!([nm(*k), v])).collect();
        return json!({"nodes": m.len(), "sum": sum, "first": head});
    }
    Value::Object(m.iter().map(|(k, v)| (nm(*k), json!(v))).collect())
}

fn regime(n: usize) -> &'static str {
    if n > 500 {
        "n>500"
    } else if n > 100 {
        "n>100"
    } else {
        "n<=100"
    }
}

/// Deterministic first-witness selection: parallel workers offer violations with a rank (phase, length,
/// history); the smallest rank per signature is kept and relayed to `Run` at the end in signature order.
#[derive(Default)]
struct Collector {
    m: Mutex<BTreeMap<String, Entry>>,
}
struct Entry {
    rank: Vec<usize>,
    clause: String,
    feats: BTreeMap<String, String>,
    wit: Value,
    what: String,
    count: u64,
}
impl Collector {
    fn offer(&self, clause: &str, feats: BTreeMap<String, String>, rank: &[usize], mk: impl FnOnce() -> (Value, String)) {
        let mut key = clause.to_string();
        for (k, v) in &feats {
            key.push_str(&format!("|{k}={v}"));
        }
        let mut m = self.m.lock().unwrap();
        match m.get_mut(&key) {
            Some(e) => {
                e.count += 1;
                if rank < e.rank.as_slice() {
                    let (wit, what) = mk();
                    e.rank = rank.to_vec();
                    e.wit = wit;
                    e.what = what;
                }
            }
            None => {
                let (wit, what) = mk();
                m.insert(key, Entry { rank: rank.to_vec(), clause: clause.to_string(), feats, wit, what, count: 1 });
            }
        }
    }
    fn flush(self, run: &Run) {
        for (_, e) in self.m.into_inner().unwrap() {
            let mut wit = e.wit;
            if let Value::Object(o) = &mut wit {
                o.insert("occurrences_in_run".into(), json!(e.count));
            }
            run.violation(&e.clause, e.feats.clone(), wit, e.what);
            for _ in 1..e.count.min(2_000_000) {
                run.violation_lazy(&e.clause, e.feats.clone(), || (Value::Null, String::new()));
            }
        }
    }
}

struct Ctx<'a> {
    #[allow(dead_code)]
    run: &'a Run,
    col: &'a Collector,
    distinct: &'a Distinct,
    fallbacks: &'a AtomicU64,
    computes: &'a AtomicU64,
    hist: &'a Mutex<BTreeMap<String, u64>>,
}
impl Ctx<'_> {
    fn tally(&self, k: &str) {
        *self.hist.lock().unwrap().entry(k.to_string()).or_insert(0) += 1;
    }
}

fn panic_msg(e: Box<dyn std::any::Any + Send>) -> String {
    if let Some(s) = e.downcast_ref::<&str>() {
        s.to_string()
    } else if let Some(s) = e.downcast_ref::<String>() {
        s.clone()
    } else {
        "panic".into()
    }
}

/// `compute_global_trust()` on the real engine. The runtime clock is PAUSED: the subject's 2 s
/// `tokio::time::timeout` can then fire only if the internal computation parks with nothing else runnable (tokio
/// auto-advances the virtual clock only when the runtime is idle), never because the machine is loaded. So "the
/// virtual clock moved by >= 2 s across the call" <=> the cached-map fallback was taken, and that is a
/// deterministic property of the subject (the computation cannot finish), reported as `C10.completes`; the
/// clauses that look at the whole returned map carry `path=timeout-fallback` in their signature.
async fn compute(cx: &Ctx<'_>, e: &EigenTrustEngine) -> Result<(TMap, bool), String> {
    let v0 = tokio::time::Instant::now();
    let r = AssertUnwindSafe(e.compute_global_trust()).catch_unwind().await.map_err(panic_msg)?;
    cx.computes.fetch_add(1, Ordering::Relaxed);
    let fell_back = v0.elapsed() >= Duration::from_millis(1900);
    if fell_back {
        cx.fallbacks.fetch_add(1, Ordering::Relaxed);
    }
    Ok((r.iter().map(|(k, v)| (idx(k), *v)).collect(), fell_back))
}

async fn apply(e: &EigenTrustEngine, op: &Op) -> Result<(), String> {
    match *op {
        Op::Stat(x, s) => AssertUnwindSafe(e.update_node_stats(&nid(x), s.update())).catch_unwind().await.map_err(panic_msg),
        Op::Local(x, y, b) => AssertUnwindSafe(e.update_local_trust(&nid(x), &nid(y), b)).catch_unwind().await.map_err(panic_msg),
        Op::AddAnchor(x) => AssertUnwindSafe(e.add_pre_trusted(nid(x))).catch_unwind().await.map_err(panic_msg),
        Op::RemAnchor(x) => AssertUnwindSafe(e.remove_pre_trusted(&nid(x))).catch_unwind().await.map_err(panic_msg),
        Op::Remove(x) => {
            // `TrustProvider::remove_node` spawns the removal; on this current-thread runtime the spawned task runs
            // (to completion: both locks are free) as soon as we yield.
            catch(|| e.remove_node(&nid(x)))?;
            for _ in 0..3 {
                tokio::task::yield_now().await;
            }
            Ok(())
        }
    }
}

fn entry_name(op: &Op) -> String {
    match op {
        Op::Stat(_, s) => format!("update_node_stats({})", s.kind()),
        Op::Local(_, _, true) => "update_local_trust(success)".into(),
        Op::Local(_, _, false) => "update_local_trust(failure)".into(),
        Op::AddAnchor(_) => "add_pre_trusted".into(),
        Op::RemAnchor(_) => "remove_pre_trusted".into(),
        Op::Remove(_) => "remove_node".into(),
    }
}

/// Clauses on one computed map (finite, range, sum, known, query).
fn judge_map(cx: &Ctx<'_>, rank: &[usize], r: &Ref, map: &TMap, fell_back: bool, queried: &[(u32, f64)], nm: Namer, hist: &dyn Fn() -> Value) {
    cx.distinct.eval();
    let reg = regime(map.len());
    let path = if fell_back { "timeout-fallback" } else { "computed" };
    if fell_back {
        cx.tally("compute:timeout-fallback");
        cx.col.offer("C10.completes", feats(&[("entry", "compute_global_trust".into()), ("shape", "internal-computation-never-finishes;2s-timeout-returns-cache".into())]), rank, || {
            (json!({"history": hist(), "returned": map_json(map, nm),
                    "note": "paused-clock runtime: the 2 s timer inside compute_global_trust can only fire when compute_global_trust_internal is parked with nothing runnable; the call returned trust_cache.clone()"}),
             "compute_global_trust() never finishes its computation: after 2 s its timeout returns the cache (including entries of nodes that are no longer part of the computation)".into())
        });
    } else {
        cx.tally("compute:computed");
    }
    let wit = |what: String| {
        let w = json!({"history": hist(), "computed": map_json(map, nm), "note": "replay on a fresh EigenTrustEngine::new(anchors), compute_global_trust() after every operation"});
        (w, what)
    };
    let mut bad = false;
    for (k, v) in map {
        if !v.is_finite() {
            bad = true;
            cx.col.offer("C10.finite", feats(&[("regime", reg.into()), ("path", path.into())]), rank, || wit(format!("score of {} is {v}", nm(*k))));
            break;
        }
    }
    if !bad {
        for (k, v) in map {
            if *v < 0.0 || *v > 1.0 {
                bad = true;
                let shape = if *v < 0.0 { "negative" } else { "above-one" };
                cx.col.offer("C10.range", feats(&[("shape", shape.into()), ("regime", reg.into()), ("path", path.into())]), rank, || wit(format!("score of {} is {v}", nm(*k))));
                break;
            }
        }
    }
    let sum: f64 = map.values().sum();
    let all_zero = map.values().all(|v| *v == 0.0);
    if !bad && !map.is_empty() {
        if all_zero {
            cx.tally("map:all-zero");
            if !r.negative_ever && !r.anchors_ever {
                cx.col.offer("C10.sum", feats(&[("shape", "all-zero-without-any-negative-report-or-anchor".into()), ("regime", reg.into()), ("path", path.into())]), rank, || wit("all scores are 0 although no failure was ever reported and no anchor exists".into()));
            }
        } else if (sum - 1.0).abs() > TOL_SUM {
            cx.col.offer("C10.sum", feats(&[("shape", if sum > 1.0 { "above-one" } else { "below-one" }.into()), ("regime", reg.into()), ("path", path.into())]), rank, || wit(format!("scores sum to {sum}")));
        } else {
            cx.tally("map:distribution");
        }
    } else if map.is_empty() {
        cx.tally("map:empty");
    }
    // every known node has a score
    for k in r.known() {
        if !map.contains_key(&k) {
            cx.col.offer("C10.known", feats(&[("shape", "known-node-without-score".into()), ("regime", reg.into()), ("path", path.into())]), rank, || wit(format!("{} was mentioned to the engine but has no score", nm(k))));
            break;
        }
    }
    // query
    for (k, got) in queried {
        if *k == UNKNOWN {
            if *got != 0.0 {
                cx.col.offer("C10.query", feats(&[("shape", "unknown-peer-nonzero".into())]), rank, || wit(format!("get_trust(never-mentioned id) = {got}")));
            }
        } else if let Some(v) = map.get(k) {
            if v.to_bits() != got.to_bits() && !(v.is_nan() && got.is_nan()) {
                let v = *v;
                cx.col.offer("C10.query", feats(&[("shape", "differs-from-last-computed".into()), ("path", path.into())]), rank, || wit(format!("get_trust({}) = {got}, last computed {v}", nm(*k))));
                break;
            }
        }
    }
}

/// A candidate violation of a comparison clause (monotonicity / severity).
struct CmpViol {
    clause: &'static str,
    feats: BTreeMap<String, String>,
    a: f64,
    b: f64,
    what: String,
}
/// Differences smaller than this are re-checked on fresh engines before they are reported (see `confirm_*`):
/// the subject stops iterating at `diff < 1e-4`, and when `diff` of some iteration equals 1e-4 up to rounding, the
/// HashMap iteration order (random per map) decides whether one more round is made. Such a flip moves every score
/// by ~1e-5 and is not reproducible; a genuine violation reproduces on every fresh engine.
const SMALL: f64 = 1e-3;
const CONFIRMATIONS: usize = 5;

/// Monotonicity clauses for the edge `prev --op--> cur`. Tallies only when `cx` is given (first evaluation).
fn edge_check(cx: Option<&Ctx<'_>>, r_before: &Ref, op: &Op, prev: &TMap, cur: &TMap, nm: Namer) -> Option<CmpViol> {
    let tally = |k: &str| {
        if let Some(cx) = cx {
            cx.tally(k)
        }
    };
    let (p, dir, prior): (u32, i8, String) = match *op {
        Op::Stat(p, Stat::Correct) => (p, 1, if r_before.stats.contains_key(&p) { "some" } else { "none" }.into()),
        Op::Stat(p, s) if s.negative() => (p, -1, if r_before.stats.contains_key(&p) { "some" } else { "none" }.into()),
        Op::Local(_, p, b) => (p, if b { 1 } else { -1 }, String::new()),
        _ => return None,
    };
    let (Some(a), Some(b)) = (prev.get(&p), cur.get(&p)) else {
        tally("edge:peer-not-scored-on-both-sides(not judged)");
        return None;
    };
    let (a, b) = (*a, *b);
    if !a.is_finite() || !b.is_finite() {
        return None;
    }
    let moved = if b > a + TOL_MONO {
        "up"
    } else if b < a - TOL_MONO {
        "down"
    } else {
        "same"
    };
    if !matches!(op, Op::Stat(..)) {
        // pairwise ratings are not the "reports" of the statement (weakest reading): a new rater dilutes everybody, and
        // a changed node set restarts the iteration elsewhere inside its 1e-4 convergence band. Tallied, not judged.
        tally(&format!("pairwise(not judged):{}:{}", entry_name(op), moved));
        return None;
    }
    if !r_before.known().contains(&p) {
        // p had a score only as an anchor the teleport step inserted; the report changes the node set (see above)
        tally("edge:peer-not-in-node-set-before-report(not judged)");
        return None;
    }
    if let Some(cx) = cx {
        cx.distinct.eval();
        cx.distinct.outcome(&(entry_name(op), &prior, moved));
        cx.tally(&format!("edge:{}:{}", entry_name(op), moved));
    }
    let reg = regime(prev.len().max(cur.len()));
    let f = feats(&[("entry", entry_name(op)), ("prior_stats", prior.clone()), ("regime", reg.into())]);
    if dir > 0 && moved == "down" {
        return Some(CmpViol { clause: "C10.mono-success", feats: f, a, b, what: format!("{} lowered {}'s score {a} -> {b}", entry_name(op), nm(p)) });
    }
    if dir < 0 && moved == "up" {
        return Some(CmpViol { clause: "C10.mono-failure", feats: f, a, b, what: format!("{} raised {}'s score {a} -> {b}", entry_name(op), nm(p)) });
    }
    None
}

/// `op` is CorruptedData / ProtocolViolation for p; `with_failure` is the map of the same prefix + a plain failure.
fn severity_check(cx: Option<&Ctx<'_>>, op: &Op, plain: Stat, with_failure: &TMap, with_severe: &TMap, nm: Namer) -> Option<CmpViol> {
    let Op::Stat(p, s) = *op else { return None };
    let (Some(f), Some(c)) = (with_failure.get(&p), with_severe.get(&p)) else { return None };
    let (f, c) = (*f, *c);
    if !f.is_finite() || !c.is_finite() {
        return None;
    }
    let rel = if c < f - TOL_MONO {
        "costs-more"
    } else if c > f + TOL_MONO {
        "costs-less"
    } else {
        "costs-same"
    };
    if let Some(cx) = cx {
        cx.distinct.eval();
        cx.distinct.outcome(&("severity", s.kind(), plain.kind(), rel));
        cx.tally(&format!("severity:{}-vs-{}:{}", s.kind(), plain.kind(), rel));
    }
    if rel == "costs-less" {
        return Some(CmpViol {
            clause: "C10.severity",
            feats: feats(&[("entry", entry_name(op)), ("plain_failure", plain.kind().into()), ("regime", regime(with_severe.len()).into())]),
            a: f,
            b: c,
            what: format!("{} leaves {} at {c}, a plain {} at {f}", s.kind(), nm(p), plain.kind()),
        });
    }
    None
}

fn maps_differ(a: &TMap, b: &TMap, tol: f64) -> Option<(u32, f64, f64)> {
    for (k, v) in a {
        match b.get(k) {
            Some(w) if (v - w).abs() <= tol || (v.is_nan() && w.is_nan()) => {}
            Some(w) => return Some((*k, *v, *w)),
            None => return Some((*k, *v, f64::NAN)),
        }
    }
    for (k, w) in b {
        if !a.contains_key(k) {
            return Some((*k, f64::NAN, *w));
        }
    }
    None
}

fn digest_map(m: &TMap, unknown: f64) -> u64 {
    // 1e-10 grid: every difference >= 1e-10 changes the digest; the merge callback then compares with TOL_EQUAL
    let q: Vec<(u32, i64)> = m.iter().map(|(k, v)| (*k, if v.is_finite() { (v * 1e10).round() as i64 } else { i64::MIN })).collect();
    hash64(&(q, unknown.to_bits()))
}

thread_local! {
    static RT: tokio::runtime::Runtime = tokio::runtime::Builder::new_current_thread().enable_time().start_paused(true).build().expect("runtime");
}
fn block_on<F: std::future::Future>(f: F) -> F::Output {
    RT.with(|rt| rt.block_on(f))
}

struct Replayed {
    r_before: Ref,
    r: Ref,
    prev: TMap,
    cur: TMap,
    recomputed: TMap,
    fell_back: bool,
    queried: Vec<(u32, f64)>,
}

const LAZY: usize = usize::MAX;

/// Fresh engine, replay `ops`, observe. `compute_global_trust()` runs before the first operation when
/// `eager_from == 0`, after operation i (0-based) whenever `i + 1 >= eager_from`, and always after the last one.
async fn replay(cx: &Ctx<'_>, anchors: &[u32], ops: &[Op], eager_from: usize) -> Result<Replayed, (String, String)> {
    let e = EigenTrustEngine::new(anchors.iter().map(|a| nid(*a)).collect::<HashSet<_>>());
    let mut r = Ref::default();
    for a in anchors {
        r.anchors.insert(*a);
        r.anchors_ever = true;
    }
    let mut r_before = r.clone();
    let mut prev = TMap::new();
    let (mut cur, mut fell_back) = if eager_from == 0 || ops.is_empty() { compute(cx, &e).await.map_err(|m| ("compute_global_trust".to_string(), m))? } else { (TMap::new(), false) };
    for (i, op) in ops.iter().enumerate() {
        if i + 1 == ops.len() {
            r_before = r.clone();
        }
        apply(&e, op).await.map_err(|m| (entry_name(op), m))?;
        r.apply(op);
        if i + 1 >= eager_from || i + 1 == ops.len() {
            prev = std::mem::take(&mut cur);
            (cur, fell_back) = compute(cx, &e).await.map_err(|m| ("compute_global_trust".to_string(), m))?;
        }
    }
    let mut queried: Vec<(u32, f64)> = Vec::with_capacity(cur.len() + 1);
    for k in cur.keys() {
        let id = nid(*k);
        queried.push((*k, catch(|| e.get_trust(&id)).map_err(|m| ("get_trust".to_string(), m))?));
    }
    queried.push((UNKNOWN, catch(|| e.get_trust(&nid(UNKNOWN))).map_err(|m| ("get_trust".to_string(), m))?));
    let (recomputed, _) = compute(cx, &e).await.map_err(|m| ("compute_global_trust".to_string(), m))?;
    Ok(Replayed { r_before, r, prev, cur, recomputed, fell_back, queried })
}

/// largest per-node difference; infinite when the key sets differ or a value is not finite
fn max_diff(a: &TMap, b: &TMap) -> f64 {
    if a.len() != b.len() {
        return f64::INFINITY;
    }
    let mut m = 0.0f64;
    for (k, v) in a {
        match b.get(k) {
            Some(w) if v.is_finite() && w.is_finite() => m = m.max((v - w).abs()),
            _ => return f64::INFINITY,
        }
    }
    m
}

fn report_panic(cx: &Ctx<'_>, rank: &[usize], entry: String, msg: String, hist: &dyn Fn() -> Value) {
    cx.col.offer("C10.nopanic", feats(&[("entry", entry.clone())]), rank, || (json!({"history": hist(), "panic": msg}), format!("{entry} panicked: {msg}")));
}

/// All clauses for the history `EigenTrustEngine::new(anchors); ops`, whose last operation is the judged edge.
/// Comparison clauses with a small margin are confirmed on fresh engines before they are reported.
async fn analyse(cx: &Ctx<'_>, rank: &[usize], anchors: &[u32], ops: &[Op], eager_from: usize, nm: Namer<'_>, hist: &dyn Fn() -> Value) -> Option<Replayed> {
    let rp = match replay(cx, anchors, ops, eager_from).await {
        Ok(rp) => rp,
        Err((entry, msg)) => {
            report_panic(cx, rank, entry, msg, hist);
            return None;
        }
    };
    judge_map(cx, rank, &rp.r, &rp.cur, rp.fell_back, &rp.queried, nm, hist);
    let path = if rp.fell_back { "timeout-fallback" } else { "computed" };
    // a second computation on the unchanged engine
    if let Some((k, a, b)) = maps_differ(&rp.cur, &rp.recomputed, TOL_EQUAL) {
        let mut confirmed = max_diff(&rp.cur, &rp.recomputed) >= SMALL;
        if !confirmed {
            confirmed = true;
            for _ in 0..CONFIRMATIONS {
                match replay(cx, anchors, ops, eager_from).await {
                    Ok(x) if maps_differ(&x.cur, &x.recomputed, TOL_EQUAL).is_none() => {
                        confirmed = false;
                        break;
                    }
                    _ => {}
                }
            }
        }
        if confirmed {
            cx.col.offer("C10.equal", feats(&[("shape", "second-computation-on-unchanged-engine-differs".into()), ("path", path.into())]), rank, || {
                (json!({"history": hist(), "first": map_json(&rp.cur, nm), "second": map_json(&rp.recomputed, nm)}), format!("{}: {a} then {b} without any operation in between", nm(k)))
            });
        } else {
            cx.tally("not-reproducible:iteration-count-flips-with-hash-order(second computation)");
        }
    }
    let Some(op) = ops.last() else { return Some(rp) };
    if let Some(v) = edge_check(Some(cx), &rp.r_before, op, &rp.prev, &rp.cur, nm) {
        let mut confirmed = (v.b - v.a).abs() >= SMALL;
        if !confirmed {
            confirmed = true;
            for _ in 0..CONFIRMATIONS {
                let again = match replay(cx, anchors, ops, eager_from).await {
                    Ok(x) => edge_check(None, &x.r_before, op, &x.prev, &x.cur, nm).map(|w| w.clause == v.clause).unwrap_or(false),
                    Err(_) => false,
                };
                if !again {
                    confirmed = false;
                    break;
                }
            }
        }
        if confirmed {
            let Op::Stat(p, _) = *op else { unreachable!() };
            cx.col.offer(v.clause, v.feats.clone(), rank, || {
                (json!({"history": hist(), "peer": nm(p), "score_without_report": v.a, "score_with_report": v.b,
                        "computed_without_report": map_json(&rp.prev, nm), "computed_with_report": map_json(&rp.cur, nm),
                        "note": "last element of history is the report; both maps come from compute_global_trust() on the real engine"}), v.what.clone())
            });
        } else {
            cx.tally("not-reproducible:iteration-count-flips-with-hash-order(monotonicity)");
        }
    }
    if let Op::Stat(p, Stat::Corrupted | Stat::Violation) = *op {
        // siblings: the same prefix with a plain failure (both plain variants) instead of the severe report
        for plain in [Stat::Failed, Stat::Unavailable] {
            let mut sib = ops.to_vec();
            *sib.last_mut().unwrap() = Op::Stat(p, plain);
            let s = match replay(cx, anchors, &sib, LAZY).await {
                Ok(s) => s,
                Err((entry, msg)) => {
                    report_panic(cx, rank, entry, msg, hist);
                    continue;
                }
            };
            if let Some(v) = severity_check(Some(cx), op, plain, &s.cur, &rp.cur, nm) {
                let mut confirmed = (v.b - v.a).abs() >= SMALL;
                if !confirmed {
                    confirmed = true;
                    for _ in 0..CONFIRMATIONS {
                        let again = match (replay(cx, anchors, &sib, LAZY).await, replay(cx, anchors, ops, LAZY).await) {
                            (Ok(x), Ok(y)) => severity_check(None, op, plain, &x.cur, &y.cur, nm).is_some(),
                            _ => false,
                        };
                        if !again {
                            confirmed = false;
                            break;
                        }
                    }
                }
                if confirmed {
                    cx.col.offer(v.clause, v.feats.clone(), rank, || {
                        (json!({"history": hist(), "peer": nm(p), "score_after_plain_failure_instead": v.a, "score_after_this_report": v.b,
                                "note": format!("same prefix, last report replaced by {} for the comparison", plain.kind())}), v.what.clone())
                    });
                } else {
                    cx.tally("not-reproducible:iteration-count-flips-with-hash-order(severity)");
                }
            }
        }
    }
    Some(rp)
}

/// Two histories that made the same statements: maps must agree (merge callback of the BFS, family B order test).
async fn judge_same_statements(cx: &Ctx<'_>, rank: &[usize], anchors: &[u32], ha: &[Op], hb: &[Op], nm: Namer<'_>, describe: &dyn Fn() -> Value) {
    let (Ok(ra), Ok(rb)) = (replay(cx, anchors, ha, LAZY).await, replay(cx, anchors, hb, LAZY).await) else { return };
    cx.distinct.eval();
    let Some((k, x, y)) = maps_differ(&ra.cur, &rb.cur, TOL_EQUAL) else { return };
    let mut confirmed = max_diff(&ra.cur, &rb.cur) >= SMALL;
    if !confirmed {
        // sample both histories on fresh engines; if any pair of samples agrees the difference is the iteration-count flip
        let (mut sa, mut sb) = (vec![ra.cur.clone()], vec![rb.cur.clone()]);
        for _ in 0..CONFIRMATIONS {
            if let (Ok(a2), Ok(b2)) = (replay(cx, anchors, ha, LAZY).await, replay(cx, anchors, hb, LAZY).await) {
                sa.push(a2.cur);
                sb.push(b2.cur);
            }
        }
        confirmed = !sa.iter().any(|a| sb.iter().any(|b| maps_differ(a, b, TOL_EQUAL).is_none()));
    }
    if confirmed {
        let path = if ra.fell_back || rb.fell_back { "timeout-fallback" } else { "computed" };
        cx.col.offer("C10.equal", feats(&[("shape", "same-reports-different-order-different-scores".into()), ("path", path.into())]), rank, || {
            (json!({"histories": describe(), "computed_1": map_json(&ra.cur, nm), "computed_2": map_json(&rb.cur, nm)}), format!("{}: {x} vs {y} for histories that made the same statements", nm(k)))
        });
    } else {
        cx.tally("not-reproducible:iteration-count-flips-with-hash-order(merge)");
    }
}

fn bfs_name(i: u32) -> String {
    match i {
        0 => "A".into(),
        1 => "B".into(),
        2 => "C".into(),
        3 => "P".into(),
        UNKNOWN => "U(never mentioned)".into(),
        _ => format!("n{i}"),
    }
}

fn stat_alphabet(amounts: &[u64]) -> Vec<Stat> {
    let mut v = vec![Stat::Correct, Stat::Failed, Stat::Unavailable, Stat::Corrupted, Stat::Violation];
    for &a in amounts {
        v.push(Stat::Uptime(a));
        v.push(Stat::Storage(a));
        v.push(Stat::Bandwidth(a));
        v.push(Stat::Compute(a));
    }
    v
}

fn alphabet(nodes: &[u32], anchor_capable: &[u32], amounts: &[u64]) -> Vec<Op> {
    let mut ops = Vec::new();
    for &x in nodes {
        for s in stat_alphabet(amounts) {
            ops.push(Op::Stat(x, s));
        }
    }
    for &b in &[true, false] {
        for &x in nodes {
            for &y in nodes {
                ops.push(Op::Local(x, y, b));
            }
        }
    }
    for &x in anchor_capable {
        ops.push(Op::AddAnchor(x));
    }
    for &x in anchor_capable {
        ops.push(Op::RemAnchor(x));
    }
    for &x in nodes {
        ops.push(Op::Remove(x));
    }
    ops
}

/// One BFS over `ops` to `depth`. Returns stats.
fn run_bfs(cx: &Ctx<'_>, phase: usize, ops: &[Op], depth: usize, budget: &Budget) -> BfsStats {
    let nm: Namer = &bfs_name;
    let mk_rank = |h: &[usize]| {
        let mut v = vec![phase, h.len()];
        v.extend_from_slice(h);
        v
    };
    bfs(
        ops.len(),
        depth,
        budget,
        |h: &[usize]| {
            let hops: Vec<Op> = h.iter().map(|&i| ops[i]).collect();
            let rank = mk_rank(h);
            let hist = || json!(hops.iter().map(|o| op_json(o, nm)).collect::<Vec<_>>());
            block_on(async {
                let rp = analyse(cx, &rank, &[], &hops, 0, nm, &hist).await?;
                // outcome for coverage: the scores (1e-6) in rank order
                let mut order: Vec<(u32, i64)> = rp.cur.iter().map(|(k, v)| (*k, (v * 1e6).round() as i64)).collect();
                order.sort_by_key(|x| (-(x.1), x.0));
                cx.distinct.outcome(&("map", order));
                let unk = rp.queried.last().map(|x| x.1).unwrap_or(0.0);
                Some((rp.r.canon(), digest_map(&rp.cur, unk)))
            })
        },
        |a, b| {
            // two different histories reached the same canonical state with different digests: compare with tolerance
            let ha: Vec<Op> = a.iter().map(|&i| ops[i]).collect();
            let hb: Vec<Op> = b.iter().map(|&i| ops[i]).collect();
            cx.tally("merge:digest-differs-recompared");
            let describe = || json!({"history_1": ha.iter().map(|o| op_json(o, nm)).collect::<Vec<_>>(), "history_2": hb.iter().map(|o| op_json(o, nm)).collect::<Vec<_>>()});
            block_on(judge_same_statements(cx, &mk_rank(b), &[], &ha, &hb, nm, &describe));
        },
    )
}

// ---- family B -------------------------------------------------------------------------------------------------

#[derive(Clone, Copy, Debug, PartialEq)]
enum Shape {
    Ring,
    StarIn,
    StarOut,
    Chain,
    NoEdge,
    Clique,
}
fn base_ops(shape: Shape, n: u32) -> Vec<Op> {
    let mut v = Vec::new();
    match shape {
        Shape::Ring => (0..n).for_each(|i| v.push(Op::Local(i, (i + 1) % n, true))),
        Shape::StarIn => {
            if n == 1 {
                v.push(Op::Stat(0, Stat::Uptime(1)));
            }
            (1..n).for_each(|i| v.push(Op::Local(i, 0, true)))
        }
        Shape::StarOut => {
            if n == 1 {
                v.push(Op::Stat(0, Stat::Uptime(1)));
            }
            (1..n).for_each(|i| v.push(Op::Local(0, i, true)))
        }
        Shape::Chain => {
            if n == 1 {
                v.push(Op::Stat(0, Stat::Uptime(1)));
            }
            (0..n.saturating_sub(1)).for_each(|i| v.push(Op::Local(i, i + 1, true)))
        }
        // known through a failed rating: in the node set, no effective edge, no statistics
        Shape::NoEdge => (0..n).for_each(|i| v.push(Op::Local(i, (i + 1) % n, false))),
        Shape::Clique => {
            if n == 1 {
                v.push(Op::Local(0, 0, true));
            }
            for i in 0..n {
                for j in 0..n {
                    if i != j {
                        v.push(Op::Local(i, j, true));
                    }
                }
            }
        }
    }
    v
}

struct Base {
    shape: Shape,
    n: u32,
    anchors: Vec<u32>,
    rep: u32,
}

fn main() {
    let run = Run::new("C10", "model_checking");
    quiet_panics();
    let distinct = Distinct::default();
    let col = Collector::default();
    let fallbacks = AtomicU64::new(0);
    let computes = AtomicU64::new(0);
    let hist = Mutex::new(BTreeMap::new());
    let cx = Ctx { run: &run, col: &col, distinct: &distinct, fallbacks: &fallbacks, computes: &computes, hist: &hist };
    let budget = Budget::new(Duration::from_secs(run.tier.pick(45, 1700)));
    let big = 1u64 << 40;

    // ---- family A: BFS ------------------------------------------------------------------------------------------
    // A1: nodes A,B,C + P, anchors P and A addable/removable (0-2 anchors), all 9 statistic variants, amounts {1, 2^40}
    let ops_a1 = alphabet(&[0, 1, 2, 3], &[3, 0], &[1, big]);
    let depth_a1 = run.tier.pick(3, 4);
    let st1 = run_bfs(&cx, 0, &ops_a1, depth_a1, &budget);
    let wall_a1 = run.elapsed().as_secs_f64();
    // A2 (deeper, smaller alphabet): quick nodes A + P, thorough A,B + P; anchor P, amounts {2^40}
    let a2_nodes: Vec<u32> = run.tier.pick(vec![0, 3], vec![0, 1, 3]);
    let ops_a2 = alphabet(&a2_nodes, &[3], &[big]);
    let depth_a2 = run.tier.pick(4, 5);
    let st2 = run_bfs(&cx, 1, &ops_a2, depth_a2, &budget);
    let wall_a2 = run.elapsed().as_secs_f64() - wall_a1;
    if st1.completed_depth == 0 {
        run.machinery_error("BFS did not complete depth 1");
    }

    // ---- family B: large n ----------------------------------------------------------------------------------------
    // quick keeps both sides of each threshold (n > 100, n > 500); thorough adds the second neighbours
    let ns: Vec<u32> = run.tier.pick(vec![1, 2, 3, 100, 101, 500, 501, 600], vec![1, 2, 3, 99, 100, 101, 102, 499, 500, 501, 502, 600]);
    let shapes = [Shape::Ring, Shape::StarIn, Shape::StarOut, Shape::Chain, Shape::NoEdge, Shape::Clique];
    let clique_max = run.tier.pick(101, 501);
    let mut bases: Vec<Base> = Vec::new();
    for &shape in &shapes {
        for &n in ns.iter() {
            // cliques (n^2 statements): quick 1,2,3 and both sides of the n > 100 threshold (100, 101);
            // thorough additionally 99, 102 and both sides of the n > 500 threshold (500, 501)
            if shape == Shape::Clique && (n > clique_max || (run.tier == Tier::Quick && (n == 99 || n == 102)) || (n > 102 && n != 500 && n != 501)) {
                continue;
            }
            for anchors in [vec![], vec![0u32], vec![0u32, n]] {
                // node classes: first, second, middle, last, the external anchor (id n), a brand-new id (n+1)
                let mut reps: Vec<u32> = vec![0, 1.min(n - 1), n / 2, n - 1, n + 1];
                if anchors.len() == 2 {
                    reps.push(n);
                }
                reps.sort();
                reps.dedup();
                for rep in reps {
                    bases.push(Base { shape, n, anchors: anchors.clone(), rep });
                }
            }
        }
    }
    // heavy first
    bases.sort_by_key(|b| std::cmp::Reverse(if b.shape == Shape::Clique { b.n as u64 * b.n as u64 } else { b.n as u64 }));
    let fam_done = AtomicU64::new(0);
    let fam_skipped = AtomicU64::new(0);
    let fam_samples: Mutex<Vec<Value>> = Mutex::new(Vec::new());
    let big_name = |i: u32| if i == UNKNOWN { "U(never mentioned)".to_string() } else { format!("n{i}") };
    let nm: Namer = &big_name;
    par_for(bases.len(), |bi| {
        let b = &bases[bi];
        let bops = base_ops(b.shape, b.n);
        let p = b.rep;
        // partners for pairwise ratings: first, middle, last node and p itself
        let mut partners = vec![0, b.n / 2, b.n - 1, p];
        partners.sort();
        partners.dedup();
        let mut exts: Vec<Op> = stat_alphabet(&[1, big]).into_iter().map(|s| Op::Stat(p, s)).collect();
        for &q in &partners {
            for s in [true, false] {
                exts.push(Op::Local(q, p, s));
                if q != p {
                    exts.push(Op::Local(p, q, s));
                }
            }
        }
        exts.extend([Op::AddAnchor(p), Op::RemAnchor(p), Op::Remove(p)]);
        let describe = |ext: Option<&Op>| {
            json!({"base": {"shape": format!("{:?}", b.shape), "n": b.n, "constructor_anchors": b.anchors.iter().map(|a| nm(*a)).collect::<Vec<_>>(),
                            "built_by": match b.shape { Shape::NoEdge => "update_local_trust(n_i, n_{i+1 mod n}, false) for all i", Shape::Ring => "update_local_trust(n_i, n_{i+1 mod n}, true)", Shape::StarIn => "update_local_trust(n_i, n0, true) for i>=1", Shape::StarOut => "update_local_trust(n0, n_i, true) for i>=1", Shape::Chain => "update_local_trust(n_i, n_{i+1}, true) for i<n-1", Shape::Clique => "update_local_trust(n_i, n_j, true) for all i != j" }},
                   "then": ext.map(|o| op_json(o, nm))})
        };
        // insertion-order independence of the base (once per base: only for the first representative)
        if p == 0 {
            if budget.exceeded() {
                fam_skipped.fetch_add(1, Ordering::Relaxed);
                return;
            }
            let mut rev = bops.clone();
            rev.reverse();
            let rank = vec![2, b.n as usize, bi];
            let d = || json!({"history_1": describe(None), "history_2": "the same statements in reverse order"});
            block_on(judge_same_statements(&cx, &rank, &b.anchors, &bops, &rev, nm, &d));
        }
        for (ei, ext) in exts.iter().enumerate() {
            if budget.exceeded() {
                fam_skipped.fetch_add(1, Ordering::Relaxed);
                continue;
            }
            let mut h = bops.clone();
            h.push(*ext);
            let rank = vec![2, b.n as usize, bi, ei];
            let hist = || describe(Some(ext));
            // compute on the base, apply the extension, compute again (same engine)
            if let Some(rp) = block_on(analyse(&cx, &rank, &b.anchors, &h, bops.len(), nm, &hist)) {
                let pscore = rp.cur.get(&p).map(|v| (v * 1e9).round() as i64);
                cx.distinct.outcome(&("family", format!("{:?}", b.shape), b.n, b.anchors.len(), entry_name(ext), pscore));
            }
            fam_done.fetch_add(1, Ordering::Relaxed);
            if ei == 0 && bi % 97 == 0 {
                let mut s = fam_samples.lock().unwrap();
                if s.len() < 3 {
                    s.push(describe(Some(ext)));
                }
            }
        }
    });
    let fam_done = fam_done.into_inner();
    let wall_b = run.elapsed().as_secs_f64() - wall_a1 - wall_a2;
    let fam_skipped = fam_skipped.into_inner();

    if budget.was_hit() {
        run.cap_hit(format!(
            "wall-clock budget: BFS A1 completed depth {} of {}, A2 depth {} of {}, family B extensions done {} skipped {}",
            st1.completed_depth, depth_a1, st2.completed_depth, depth_a2, fam_done, fam_skipped
        ));
    }
    col.flush(&run);

    let mut samples: Vec<Value> = st1.sample_histories.iter().take(4).map(|h| json!(h.iter().map(|&i| op_json(&ops_a1[i], &bfs_name)).collect::<Vec<_>>())).collect();
    samples.extend(fam_samples.into_inner().unwrap());
    let states = st1.states + st2.states + fam_done;
    let transitions = st1.transitions + st2.transitions + fam_done;
    let coverage = cov(vec![
        ("states", json!(states)),
        ("transitions", json!(transitions)),
        ("traces_validated_against_impl", json!(transitions)),
        ("samples", json!(samples)),
        ("exhaustive", json!(!budget.was_hit())),
        ("evaluations", json!(distinct.evaluations())),
        ("distinct_nontrivial", json!(distinct.distinct())),
        ("rule", json!("evaluation = one clause group on a computed map (map clauses / one monotonicity edge / one severity pair); distinct = distinct (score order + 1e-6-rounded scores) of computed maps, distinct (entry, prior, direction) of edges, distinct family outcomes")),
        ("outcome_histogram", json!(hist.into_inner().unwrap())),
        ("bounds", json!({
            "A1": {"nodes": ["A","B","C","P"], "anchor_capable": ["P","A"], "amounts": [1, big], "alphabet_ops": ops_a1.len(), "depth": depth_a1, "completed_depth": st1.completed_depth,
                   "states": st1.states, "transitions": st1.transitions, "revisits_compared": st1.revisits, "frontier_sizes": st1.frontier_sizes, "fixpoint": st1.fixpoint},
            "wall_s": {"A1": wall_a1, "A2": wall_a2, "B": wall_b},
            "A2": {"nodes": a2_nodes.iter().map(|i| bfs_name(*i)).collect::<Vec<_>>(), "anchor_capable": ["P"], "amounts": [big], "alphabet_ops": ops_a2.len(), "depth": depth_a2, "completed_depth": st2.completed_depth,
                   "states": st2.states, "transitions": st2.transitions, "revisits_compared": st2.revisits, "frontier_sizes": st2.frontier_sizes, "fixpoint": st2.fixpoint},
            "B": {"n": ns, "shapes": ["Ring","StarIn","StarOut","Chain","NoEdge","Clique"], "clique_n": run.tier.pick(vec![1, 2, 3, 100, 101], vec![1, 2, 3, 99, 100, 101, 102, 500, 501]), "constructor_anchors": ["none","n0","n0 + external"],
                  "base_x_class": bases.len(), "extensions_done": fam_done, "extensions_skipped": fam_skipped},
            "compute_global_trust_calls": computes.load(Ordering::Relaxed),
            "compute_global_trust_calls_that_returned_through_the_2s_timeout": fallbacks.load(Ordering::Relaxed),
        })),
    ]);
    run.finish(
        coverage,
        vec![
            "every transition is an execution of the real EigenTrustEngine rebuilt by replay on a paused-clock current-thread runtime; compute_global_trust() runs after every operation of the replay".into(),
            "paused clock: the subject's 2 s timeout can fire only when its internal computation is parked with nothing runnable, never from machine load; a fallback is therefore a deterministic behaviour of the subject and is reported as C10.completes (map-level clauses then carry path=timeout-fallback), not as a machinery error".into(),
            "success/failure/corrupted/violation reports = update_node_stats variants (what P2PNode::report_peer_* call); the effect of update_local_trust on the rated peer is tallied, not judged (a new rater dilutes every score; a changed node set moves the result inside the iteration's 1e-4 convergence band)".into(),
            "monotonicity is judged only when the peer was already part of the computation (mentioned in a live pair or statistics) and has a score both with and without the report".into(),
            "all-zero maps are accepted unless no failure was ever reported and no anchor ever existed".into(),
            "get_trust is compared right after a computation, for nodes of the computed map and one never-mentioned identity; stale cache entries of nodes that dropped out of the map and the constructor's 0.9 for never-computed anchors are not judged".into(),
            "C10.equal: same statements in a different order (canonical state = per-pair report sequence, per-node multiset of statistic updates, anchor set; remove_node wipes the pairs touching the node) must give maps equal within 1e-9; time decay is uniform and normalised away (wall-clock elapsed < 1 h)".into(),
            "verdict tolerances 1e-12 (monotonicity) / 1e-9 (sum, equal) are far above HashMap-order summation noise (~1e-16); a comparison that fails by less than 1e-3 is reported only if it reproduces on 5 further fresh engines (the subject's diff < 1e-4 stopping test can flip with HashMap iteration order when diff equals 1e-4 up to rounding; such flips are tallied as not-reproducible)".into(),
        ],
    );
}
