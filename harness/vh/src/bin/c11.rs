//! C11 — unvouched identities gain no meaningful trust; anchors keep a floor.
//!
//! Family E: ALL directed graphs (self-loops allowed, unit weights = one successful `update_local_trust`) on
//! a anchors + h honest + s Sybil nodes, a in {1,2}, h in {0,1,2}, s in {1,2,3}, |V| <= 5 (quick) / <= 6 (thorough),
//! with no edge from outside S into S; one representative per orbit of the node permutations inside each class
//! (exact symmetry reduction: the subject treats identities uniformly). Node statistics: none, or the same two
//! updates for every node ("equal").
//! Family P: parametrised Sybil sets s in {1,2,5,20,99,100,101,500,501,1000} x internal pattern x a in {1,2,10,50}
//! x honest graph x outward Sybil ratings x statistics.
//!
//! Every graph is built on a fresh real `EigenTrustEngine::new(anchors)` and evaluated by one
//! `compute_global_trust()`. Oracle (no model of the algorithm): shares of the returned map.
//!   C11.sybil  : sum over S / total <= (|S|/|V|)/7, and < 0.001 when |V| <= 100
//!   C11.anchor : every anchor / total >= 0.4 / a
//! |V| and |S| count the identities the engine has heard of (anchors, and nodes that made or received a statement or
//! have statistics): an identity that never appears is not part of the population (weakest reading; it is the
//! same engine state as the smaller configuration, which is enumerated too).
use futures::FutureExt;
use saorsa_core::adaptive::NodeId;
use saorsa_core::adaptive::trust::{EigenTrustEngine, NodeStatisticsUpdate};
use serde_json::{Value, json};
use std::collections::{BTreeMap, BTreeSet, HashSet};
use std::panic::AssertUnwindSafe;
use std::sync::Mutex;
use std::sync::atomic::{AtomicU64, Ordering};
use std::time::Duration;
use vh::core::*;

const ALPHA: f64 = 0.4; // "anchor weight" of the statement (EigenTrustEngine::new sets alpha = 0.4)
const BAND: f64 = 1e-9; // verdicts keep this distance from the thresholds (summation-order noise is ~1e-16)

fn nid(i: u32) -> NodeId {
    let mut b = [0xC1u8; 32];
    b[..4].copy_from_slice(&i.to_le_bytes());
    NodeId::from_bytes(b)
}
fn idx(n: &NodeId) -> u32 {
    u32::from_le_bytes([n.hash[0], n.hash[1], n.hash[2], n.hash[3]])
}

#[derive(Default)]
struct Collector {
    m: Mutex<BTreeMap<String, Entry>>,
}
struct Entry {
    rank: Vec<u64>,
    clause: String,
    feats: BTreeMap<String, String>,
    wit: Value,
    what: String,
    count: u64,
}
impl Collector {
    /// keeps, per signature, the witness with the smallest rank (so the reported witness does not depend on thread timing)
    fn offer(&self, clause: &str, feats: BTreeMap<String, String>, rank: &[u64], mk: impl FnOnce() -> (Value, String)) {
        let mut key = clause.to_string();
        for (k, v) in &feats {
            key.push_str(&format!("|{k}={v}"));
        }
        let mut m = self.m.lock().unwrap();
        match m.get_mut(&key) {
            Some(e) => {
                e.count += 1;
                if rank < e.rank.as_slice() {
                    let (wit, what) = mk();
                    e.rank = rank.to_vec();
                    e.wit = wit;
                    e.what = what;
                }
            }
            None => {
                let (wit, what) = mk();
                m.insert(key, Entry { rank: rank.to_vec(), clause: clause.to_string(), feats, wit, what, count: 1 });
            }
        }
    }
    fn flush(self, run: &Run) {
        for (_, e) in self.m.into_inner().unwrap() {
            let mut wit = e.wit;
            if let Value::Object(o) = &mut wit {
                o.insert("occurrences_in_run".into(), json!(e.count));
            }
            run.violation(&e.clause, e.feats.clone(), wit, e.what);
            for _ in 1..e.count.min(2_000_000) {
                run.violation_lazy(&e.clause, e.feats.clone(), || (Value::Null, String::new()));
            }
        }
    }
}

struct Ctx<'a> {
    run: &'a Run,
    col: &'a Collector,
    distinct: &'a Distinct,
    computes: &'a AtomicU64,
    fallbacks: &'a AtomicU64,
    hist: &'a Mutex<BTreeMap<String, u64>>,
}
impl Ctx<'_> {
    fn tally(&self, k: &str) {
        *self.hist.lock().unwrap().entry(k.to_string()).or_insert(0) += 1;
    }
}

thread_local! {
    static RT: tokio::runtime::Runtime = tokio::runtime::Builder::new_current_thread().enable_time().start_paused(true).build().expect("runtime");
}
fn block_on<F: std::future::Future>(f: F) -> F::Output {
    RT.with(|rt| rt.block_on(f))
}

fn panic_msg(e: Box<dyn std::any::Any + Send>) -> String {
    if let Some(s) = e.downcast_ref::<&str>() {
        s.to_string()
    } else if let Some(s) = e.downcast_ref::<String>() {
        s.clone()
    } else {
        "panic".into()
    }
}

/// One configuration: nodes 0..a anchors, a..a+h honest, a+h..n Sybils.
#[derive(Clone, Copy, Debug)]
struct Classes {
    a: u32,
    h: u32,
    s: u32,
}
impl Classes {
    fn n(&self) -> u32 {
        self.a + self.h + self.s
    }
    fn is_sybil(&self, i: u32) -> bool {
        i >= self.a + self.h
    }
    fn name(&self, i: u32) -> String {
        if i < self.a {
            format!("P{}", i)
        } else if i < self.a + self.h {
            format!("H{}", i - self.a)
        } else {
            format!("S{}", i - self.a - self.h)
        }
    }
}

/// Build the graph on a fresh engine, compute once, judge. `edges` must contain no edge from outside S into S.
fn eval_graph(cx: &Ctx<'_>, cl: Classes, edges: &[(u32, u32)], neg_edges: &[(u32, u32)], equal_stats: bool, rank: &[u64], describe: &dyn Fn() -> Value) {
    debug_assert!(edges.iter().all(|(i, j)| !cl.is_sybil(*j) || cl.is_sybil(*i)));
    let n = cl.n();
    // population the engine has heard of
    let mut heard: BTreeSet<u32> = (0..cl.a).collect();
    if equal_stats {
        heard.extend(0..n);
    }
    let mut has_out: BTreeSet<u32> = BTreeSet::new();
    for (i, j) in edges {
        heard.insert(*i);
        heard.insert(*j);
        has_out.insert(*i);
    }
    for (i, j) in neg_edges {
        heard.insert(*i);
        heard.insert(*j);
    }
    let v_eff = heard.len();
    let s_eff = heard.iter().filter(|i| cl.is_sybil(**i)).count();
    cx.distinct.eval();
    if edges.is_empty() && !equal_stats {
        cx.tally("trivial:nothing-said(empty map)");
        return;
    }
    let res: Result<(BTreeMap<u32, f64>, bool), (String, String)> = block_on(async {
        let e = EigenTrustEngine::new((0..cl.a).map(nid).collect::<HashSet<_>>());
        for (i, j) in edges {
            AssertUnwindSafe(e.update_local_trust(&nid(*i), &nid(*j), true)).catch_unwind().await.map_err(|m| ("update_local_trust".to_string(), panic_msg(m)))?;
        }
        // failure-only statements (local trust exactly 0): they vouch for nobody
        for (i, j) in neg_edges {
            AssertUnwindSafe(e.update_local_trust(&nid(*i), &nid(*j), false)).catch_unwind().await.map_err(|m| ("update_local_trust".to_string(), panic_msg(m)))?;
        }
        if equal_stats {
            for i in 0..n {
                for u in [NodeStatisticsUpdate::CorrectResponse, NodeStatisticsUpdate::Uptime(3600)] {
                    AssertUnwindSafe(e.update_node_stats(&nid(i), u)).catch_unwind().await.map_err(|m| ("update_node_stats".to_string(), panic_msg(m)))?;
                }
            }
        }
        // paused clock: the subject's 2 s timeout fires only if the internal computation is parked with nothing runnable
        let v0 = tokio::time::Instant::now();
        let r = AssertUnwindSafe(e.compute_global_trust()).catch_unwind().await.map_err(|m| ("compute_global_trust".to_string(), panic_msg(m)))?;
        let fell_back = v0.elapsed() >= Duration::from_millis(1900);
        Ok((r.iter().map(|(k, v)| (idx(k), *v)).collect(), fell_back))
    });
    cx.computes.fetch_add(1, Ordering::Relaxed);
    let (map, fell_back) = match res {
        Ok(x) => x,
        Err((entry, msg)) => {
            cx.col.offer("C11.nopanic", feats(&[("entry", entry.clone())]), rank, || (json!({"graph": describe(), "panic": msg}), format!("{entry} panicked: {msg}")));
            return;
        }
    };
    if fell_back {
        // The returned map is then `trust_cache.clone()`. On a fresh engine the cache holds only the anchors' 0.9
        // before the call and every entry of the computed vector (which contains every anchor) afterwards, so it
        // IS the computed vector iff its key set is the heard-of population. Anything else cannot be judged.
        cx.fallbacks.fetch_add(1, Ordering::Relaxed);
        let keys: BTreeSet<u32> = map.keys().copied().collect();
        if keys != heard {
            cx.run.machinery_error(format!("compute_global_trust returned through its 2 s timeout with a cache that is not the computed vector (keys {keys:?}, expected {heard:?})"));
            return;
        }
    }
    let total: f64 = map.values().sum();
    if !total.is_finite() || total <= 0.0 || map.values().any(|v| !v.is_finite() || *v < 0.0) {
        // well-formedness is C10's business; shares are undefined here
        cx.tally("not-judged:map-not-a-positive-finite-vector");
        return;
    }
    let regime = if v_eff > 500 {
        "n>500"
    } else if v_eff > 100 {
        "n>100"
    } else {
        "n<=100"
    };
    // a non-Sybil identity the engine has heard of that makes no statement (a node that only records statistics, or an anchor)
    let dangling_outside = heard.iter().any(|i| !cl.is_sybil(*i) && !has_out.contains(i));
    let dang = if dangling_outside { "yes" } else { "no" };
    let sybil_share: f64 = map.iter().filter(|(k, _)| cl.is_sybil(**k)).map(|(_, v)| *v).sum::<f64>() / total;
    let min_anchor = (0..cl.a).map(|i| map.get(&i).copied().unwrap_or(0.0) / total).fold(f64::INFINITY, f64::min);
    cx.distinct.outcome(&((sybil_share * 1e6).round() as i64, (min_anchor * 1e6).round() as i64));
    let wit = |what: String| {
        let scores: Value = if map.len() <= 12 {
            Value::Object(map.iter().map(|(k, v)| (cl.name(*k), json!(v))).collect())
        } else {
            json!({"nodes": map.len(), "total": total, "first_anchor": map.get(&0), "first_sybil": map.get(&(cl.a + cl.h))})
        };
        (json!({"graph": describe(), "population_heard_of": v_eff, "sybils_heard_of": s_eff, "sybil_share": sybil_share, "min_anchor_share": min_anchor, "scores": scores,
                "build": "EigenTrustEngine::new(anchors); update_local_trust(from, to, true) per edge; compute_global_trust()"}), what)
    };
    if s_eff > 0 {
        let pop_bound = (s_eff as f64 / v_eff as f64) / 7.0;
        let small = v_eff <= 100;
        let over_pop = sybil_share > pop_bound + BAND;
        let over_small = small && sybil_share >= 0.001 + BAND;
        if over_pop || over_small {
            cx.tally(&format!("sybil:violates:{regime}:dangling_outside={dang}"));
            let bound = if small { "0.1%-of-total" } else { "population-share/7" };
            cx.col.offer("C11.sybil", feats(&[("bound", bound.into()), ("regime", regime.into()), ("non_sybil_without_outgoing_statement", dang.into())]), rank, || {
                wit(format!("closed Sybil set of {s_eff} in a population of {v_eff} holds {:.4} of all trust (allowed {:.6})", sybil_share, if small { 0.001f64.min(pop_bound) } else { pop_bound }))
            });
        } else {
            cx.tally(&format!("sybil:holds:{regime}:dangling_outside={dang}"));
        }
    } else {
        cx.tally("sybil:no-sybil-heard-of(not judged)");
    }
    let floor = ALPHA / cl.a as f64;
    if min_anchor < floor - BAND {
        cx.tally(&format!("anchor:violates:{regime}"));
        cx.col.offer("C11.anchor", feats(&[("regime", regime.into()), ("non_sybil_without_outgoing_statement", dang.into())]), rank, || {
            wit(format!("an anchor holds {:.6} of all trust, floor is {:.6}", min_anchor, floor))
        });
    } else {
        cx.tally(&format!("anchor:holds:{regime}"));
    }
}

fn permutations(v: &[u32]) -> Vec<Vec<u32>> {
    if v.len() <= 1 {
        return vec![v.to_vec()];
    }
    let mut out = Vec::new();
    for i in 0..v.len() {
        let mut rest = v.to_vec();
        let x = rest.remove(i);
        for mut p in permutations(&rest) {
            p.insert(0, x);
            out.push(p);
        }
    }
    out
}

/// Family E for one class configuration. Returns (graphs enumerated, orbit representatives evaluated).
fn enumerate(cx: &Ctx<'_>, cl: Classes, equal_stats: bool, budget: &Budget) -> (u64, u64, bool) {
    let n = cl.n();
    let mut slots: Vec<(u32, u32)> = Vec::new();
    for i in 0..n {
        for j in 0..n {
            if cl.is_sybil(j) && !cl.is_sybil(i) {
                continue;
            }
            slots.push((i, j));
        }
    }
    let k = slots.len();
    assert!(k <= 32);
    // class-preserving node permutations -> slot permutations -> byte tables
    let pa = permutations(&(0..cl.a).collect::<Vec<_>>());
    let ph = permutations(&(cl.a..cl.a + cl.h).collect::<Vec<_>>());
    let ps = permutations(&(cl.a + cl.h..n).collect::<Vec<_>>());
    let mut tables: Vec<[[u32; 256]; 4]> = Vec::new();
    for x in &pa {
        for y in &ph {
            for z in &ps {
                let pi: Vec<u32> = x.iter().chain(y.iter()).chain(z.iter()).copied().collect();
                if pi.iter().enumerate().all(|(i, p)| i as u32 == *p) {
                    continue;
                }
                let slot_map: Vec<usize> = slots.iter().map(|(i, j)| slots.iter().position(|s| *s == (pi[*i as usize], pi[*j as usize])).expect("class-preserving")).collect();
                let mut t = [[0u32; 256]; 4];
                for (b, tb) in t.iter_mut().enumerate() {
                    for (v, tv) in tb.iter_mut().enumerate() {
                        let mut img = 0u32;
                        for bit in 0..8 {
                            let s = b * 8 + bit;
                            if s < k && (v >> bit) & 1 == 1 {
                                img |= 1 << slot_map[s];
                            }
                        }
                        *tv = img;
                    }
                }
                tables.push(t);
            }
        }
    }
    let total: u64 = 1u64 << k;
    let chunk_bits = 12u32.min(k as u32);
    let chunks = (total >> chunk_bits) as usize;
    let reps = AtomicU64::new(0);
    let cfg_code = (cl.a as u64) * 100 + (cl.h as u64) * 10 + cl.s as u64;
    par_for(chunks, |c| {
        if budget.exceeded() {
            return;
        }
        let mut edges: Vec<(u32, u32)> = Vec::with_capacity(k);
        let mut local = 0u64;
        for low in 0..(1u64 << chunk_bits) {
            if low & 255 == 255 && budget.exceeded() {
                break;
            }
            let m = ((c as u64) << chunk_bits | low) as u32;
            // orbit representative = smallest mask of the orbit
            let canonical = tables.iter().all(|t| {
                let img = t[0][(m & 255) as usize] | t[1][((m >> 8) & 255) as usize] | t[2][((m >> 16) & 255) as usize] | t[3][(m >> 24) as usize];
                img >= m
            });
            if !canonical {
                continue;
            }
            local += 1;
            edges.clear();
            for (s, e) in slots.iter().enumerate() {
                if (m >> s) & 1 == 1 {
                    edges.push(*e);
                }
            }
            let rank = [0u64, n as u64, equal_stats as u64, edges.len() as u64, cfg_code, m as u64];
            let describe = || {
                json!({"anchors": (0..cl.a).map(|i| cl.name(i)).collect::<Vec<_>>(), "honest": (cl.a..cl.a + cl.h).map(|i| cl.name(i)).collect::<Vec<_>>(),
                       "sybils": (cl.a + cl.h..n).map(|i| cl.name(i)).collect::<Vec<_>>(),
                       "edges(from->to, one success each)": edges.iter().map(|(i, j)| format!("{}->{}", cl.name(*i), cl.name(*j))).collect::<Vec<_>>(),
                       "statistics": if equal_stats { "CorrectResponse + Uptime(3600) for every node" } else { "none" }})
            };
            eval_graph(cx, cl, &edges, &[], equal_stats, &rank, &describe);
        }
        reps.fetch_add(local, Ordering::Relaxed);
    });
    (total, reps.into_inner(), !budget.was_hit())
}

#[derive(Clone, Copy, Debug, PartialEq)]
enum SybilShape {
    SelfLoops,
    Chain,
    Star,
    Clique,
    CliqueSelf,
}
#[derive(Clone, Copy, Debug, PartialEq)]
enum HonestShape {
    None,
    Ring,
    StarFromAnchor,
    AnchorsOnly,
}
#[derive(Clone, Copy, Debug)]
struct Fam {
    s: u32,
    a: u32,
    h: u32,
    sy: SybilShape,
    ho: HonestShape,
    outward: bool,
    equal_stats: bool,
    /// every non-Sybil node that makes no positive statement has recorded one failed interaction (with the next
    /// non-Sybil node, or with Sybil S0 if it is alone): a statement that vouches for nobody
    failures_only: bool,
}

fn fam_edges(f: &Fam) -> (Classes, Vec<(u32, u32)>) {
    let h = match f.ho {
        HonestShape::None | HonestShape::AnchorsOnly => 0,
        _ => f.h,
    };
    let cl = Classes { a: f.a, h, s: f.s };
    let s0 = f.a + h;
    let mut e: Vec<(u32, u32)> = Vec::new();
    match f.ho {
        HonestShape::None => {}
        // anchors and honest nodes in one ring: everybody outside S makes a statement
        HonestShape::Ring => (0..s0).for_each(|i| e.push((i, (i + 1) % s0))),
        // anchors vouch for every honest node; honest nodes make no statements (they only record statistics)
        HonestShape::StarFromAnchor => {
            for p in 0..f.a {
                for x in f.a..s0 {
                    e.push((p, x));
                }
            }
        }
        HonestShape::AnchorsOnly => (0..f.a).for_each(|i| e.push((i, (i + 1) % f.a))),
    }
    let s = f.s;
    match f.sy {
        SybilShape::SelfLoops => (0..s).for_each(|i| e.push((s0 + i, s0 + i))),
        SybilShape::Chain => {
            if s == 1 {
                e.push((s0, s0));
            }
            (0..s.saturating_sub(1)).for_each(|i| e.push((s0 + i, s0 + i + 1)))
        }
        SybilShape::Star => {
            if s == 1 {
                e.push((s0, s0));
            }
            for i in 1..s {
                e.push((s0 + i, s0));
                e.push((s0, s0 + i));
            }
        }
        SybilShape::Clique | SybilShape::CliqueSelf => {
            for i in 0..s {
                for j in 0..s {
                    if i != j || f.sy == SybilShape::CliqueSelf || s == 1 {
                        e.push((s0 + i, s0 + j));
                    }
                }
            }
        }
    }
    if f.outward {
        (0..s).for_each(|i| e.push((s0 + i, 0)));
    }
    (cl, e)
}

fn main() {
    let run = Run::new("C11", "exploration");
    quiet_panics();
    let distinct = Distinct::default();
    let col = Collector::default();
    let computes = AtomicU64::new(0);
    let fallbacks = AtomicU64::new(0);
    let hist = Mutex::new(BTreeMap::new());
    let cx = Ctx { run: &run, col: &col, distinct: &distinct, computes: &computes, fallbacks: &fallbacks, hist: &hist };
    let budget = Budget::new(Duration::from_secs(run.tier.pick(40, 1700)));

    // ---- family P first (small, covers the size thresholds) -------------------------------------------------------
    let clique_max = run.tier.pick(101, 1000);
    let hs: Vec<u32> = run.tier.pick(vec![5], vec![5, 60]);
    let mut fams: Vec<Fam> = Vec::new();
    for &s in &[1u32, 2, 5, 20, 99, 100, 101, 500, 501, 1000] {
        for &sy in &[SybilShape::SelfLoops, SybilShape::Chain, SybilShape::Star, SybilShape::Clique, SybilShape::CliqueSelf] {
            if matches!(sy, SybilShape::Clique | SybilShape::CliqueSelf) && s > clique_max {
                continue;
            }
            for &a in &[1u32, 2, 10, 50] {
                for &ho in &[HonestShape::None, HonestShape::Ring, HonestShape::StarFromAnchor, HonestShape::AnchorsOnly] {
                    for &h in &hs {
                        if matches!(ho, HonestShape::None | HonestShape::AnchorsOnly) && h != hs[0] {
                            continue;
                        }
                        // the half-million / million-edge cliques: smallest honest graph, no statistics only
                        let heavy = matches!(sy, SybilShape::Clique | SybilShape::CliqueSelf) && s >= 500;
                        if heavy && h != hs[0] {
                            continue;
                        }
                        for outward in [false, true] {
                            for equal_stats in [false, true] {
                                if heavy && equal_stats {
                                    continue;
                                }
                                fams.push(Fam { s, a, h, sy, ho, outward, equal_stats, failures_only: false });
                                if !equal_stats && !heavy && s <= 101 {
                                    fams.push(Fam { s, a, h, sy, ho, outward, equal_stats, failures_only: true });
                                }
                            }
                        }
                    }
                }
            }
        }
    }
    // simplest-first for the witness rank; heavy-first for scheduling
    let mut order: Vec<usize> = (0..fams.len()).collect();
    order.sort_by_key(|&i| std::cmp::Reverse(if matches!(fams[i].sy, SybilShape::Clique | SybilShape::CliqueSelf) { fams[i].s as u64 * fams[i].s as u64 } else { fams[i].s as u64 }));
    let fam_done = AtomicU64::new(0);
    let fam_samples: Mutex<Vec<Value>> = Mutex::new(Vec::new());
    // the million-edge cliques need ~0.5 GB each: run those on at most 8 workers
    let heavy: Vec<usize> = order.iter().copied().filter(|&i| matches!(fams[i].sy, SybilShape::Clique | SybilShape::CliqueSelf) && fams[i].s >= 500).collect();
    let light: Vec<usize> = order.iter().copied().filter(|i| !heavy.contains(i)).collect();
    let run_fam = |i: usize| {
        if budget.exceeded() {
            return;
        }
        let f = fams[i];
        let (cl, edges) = fam_edges(&f);
        let rank = [1u64, cl.n() as u64, f.equal_stats as u64, edges.len() as u64, i as u64];
        let describe = || {
            json!({"sybils": f.s, "sybil_pattern": format!("{:?}", f.sy), "anchors": f.a, "honest_graph": format!("{:?}", f.ho), "honest_nodes": cl.h,
                   "every_sybil_also_rates_anchor_P0": f.outward, "non_sybils_without_positive_statement_recorded_one_failed_interaction": f.failures_only, "statistics": if f.equal_stats { "CorrectResponse + Uptime(3600) for every node" } else { "none" },
                   "layout": "node ids: anchors P0.., honest H0.., sybils S0..; Ring = anchors+honest in one ring; StarFromAnchor = every anchor rates every honest node; AnchorsOnly = anchors rate each other in a ring; Star = S0<->Si; Chain = Si->Si+1; one success per edge"})
        };
        let mut neg: Vec<(u32, u32)> = Vec::new();
        if f.failures_only {
            let s0 = cl.a + cl.h;
            let out: BTreeSet<u32> = edges.iter().map(|(i, _)| *i).collect();
            for i in 0..s0 {
                if !out.contains(&i) {
                    neg.push((i, if s0 >= 2 { (i + 1) % s0 } else { s0 }));
                }
            }
        }
        eval_graph(&cx, cl, &edges, &neg, f.equal_stats, &rank, &describe);
        fam_done.fetch_add(1, Ordering::Relaxed);
        if i % 401 == 0 {
            let mut s = fam_samples.lock().unwrap();
            if s.len() < 3 {
                s.push(describe());
            }
        }
    };
    {
        let next = std::sync::atomic::AtomicUsize::new(0);
        std::thread::scope(|sc| {
            for _ in 0..8.min(heavy.len()) {
                sc.spawn(|| {
                    loop {
                        let j = next.fetch_add(1, Ordering::Relaxed);
                        if j >= heavy.len() {
                            break;
                        }
                        run_fam(heavy[j]);
                    }
                });
            }
        });
    }
    par_for(light.len(), |j| run_fam(light[j]));
    let fam_done = fam_done.into_inner();
    let wall_p = run.elapsed().as_secs_f64();

    // ---- family E: all small graphs ---------------------------------------------------------------------------------
    let vmax = run.tier.pick(5u32, 6u32);
    let mut cfgs: Vec<(Classes, bool)> = Vec::new();
    for size in 2..=vmax {
        for a in 1..=2u32 {
            for h in 0..=2u32 {
                for s in 1..=3u32 {
                    if a + h + s == size {
                        cfgs.push((Classes { a, h, s }, false));
                        // equal statistics: every size in thorough, sizes <= 4 in quick
                        if run.tier == Tier::Thorough || size <= 4 {
                            cfgs.push((Classes { a, h, s }, true));
                        }
                    }
                }
            }
        }
    }
    // all "no statistics" configurations first (simplest first), then the "equal statistics" ones
    cfgs.sort_by_key(|(cl, eq)| (*eq, cl.n()));
    let mut enum_rows: Vec<Value> = Vec::new();
    let (mut graphs_total, mut reps_total) = (0u64, 0u64);
    let mut enum_complete = true;
    for (cl, eq) in &cfgs {
        if budget.exceeded() {
            enum_complete = false;
            enum_rows.push(json!({"a": cl.a, "h": cl.h, "s": cl.s, "equal_stats": eq, "skipped": "budget"}));
            continue;
        }
        let (total, reps, complete) = enumerate(&cx, *cl, *eq, &budget);
        enum_complete &= complete;
        graphs_total += total;
        reps_total += reps;
        enum_rows.push(json!({"a": cl.a, "h": cl.h, "s": cl.s, "equal_stats": eq, "graphs": total, "orbit_representatives_evaluated": reps, "complete": complete}));
    }
    let wall_e = run.elapsed().as_secs_f64() - wall_p;
    if budget.was_hit() {
        run.cap_hit(format!("wall-clock budget: family P done {} of {}, family E complete={}", fam_done, fams.len(), enum_complete));
        if fam_done == 0 {
            run.machinery_error("not even the first family completed");
        }
    }
    col.flush(&run);
    let fb = fallbacks.load(Ordering::Relaxed);
    if fb > 0 {
        run.info_n("compute_global_trust_returned_through_its_2s_timeout(cache==computed vector verified by key set)", fb);
    }
    let mut samples = fam_samples.into_inner().unwrap();
    samples.push(json!({"anchors": ["P0"], "sybils": ["S0"], "edges": ["S0->S0"], "statistics": "none"}));
    samples.push(json!({"anchors": ["P0"], "honest": ["H0"], "sybils": ["S0", "S1"], "edges": ["P0->H0", "H0->P0", "S0->S1", "S1->S0", "S1->P0"], "statistics": "none"}));
    let coverage = cov(vec![
        ("evaluations", json!(distinct.evaluations())),
        ("distinct_nontrivial", json!(distinct.distinct())),
        ("rule", json!("evaluation = one graph built on a fresh engine and computed once; distinct = distinct (Sybil share, minimum anchor share) pairs rounded to 1e-6 among graphs in which at least one statement or statistic exists")),
        ("samples", json!(samples)),
        ("exhaustive", json!(!budget.was_hit())),
        ("outcome_histogram", json!(hist.into_inner().unwrap())),
        ("bounds", json!({
            "family_E": {"max_nodes": vmax, "anchors": [1, 2], "honest": [0, 1, 2], "sybils": [1, 2, 3], "graphs_in_space": graphs_total, "orbit_representatives_evaluated": reps_total,
                         "symmetry": "node permutations inside each class; smallest edge mask of each orbit evaluated", "configs": enum_rows, "complete": enum_complete},
            "family_P": {"s": [1, 2, 5, 20, 99, 100, 101, 500, 501, 1000], "sybil_patterns": ["SelfLoops", "Chain", "Star", "Clique", "CliqueSelf"], "clique_max_s": clique_max, "a": [1, 2, 10, 50],
                         "honest_graphs": ["None", "Ring", "StarFromAnchor", "AnchorsOnly"], "honest_nodes": hs, "outward": [false, true], "statistics": ["none", "equal"], "configs": fams.len(), "done": fam_done},
            "wall_s": {"P": wall_p, "E": wall_e},
            "compute_global_trust_calls": computes.load(Ordering::Relaxed),
            "compute_global_trust_calls_that_returned_through_the_2s_timeout": fb,
        })),
    ]);
    run.finish(
        coverage,
        vec![
            "every graph is an execution of the real EigenTrustEngine (fresh engine, one successful update_local_trust per edge, one compute_global_trust)".into(),
            "population and Sybil-set size count identities the engine has heard of (anchors; nodes with a statement made/received or with statistics)".into(),
            "shares are taken relative to the sum of the returned map; maps that are not positive finite vectors are C10's business and are not judged here".into(),
            "paused clock: the subject's 2 s timeout can fire only if its computation parks with nothing runnable; when it does, the returned cache equals the computed vector on a fresh engine (verified by key set, else machinery error); the defect itself is reported by C10.completes".into(),
            "verdicts keep 1e-9 from the thresholds (0.001, share/7, 0.4/a); summation-order noise is ~1e-16".into(),
            "symmetry reduction is exact only because the subject treats identities uniformly (HashMap keyed by id, no ordering); ids are 4-byte counters padded with a constant".into(),
        ],
    );
}
