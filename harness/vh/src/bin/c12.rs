//! C12 — each peer sequence number is accepted at most once and only in order.
//!
//! Part 1 (E2): explicit-state BFS over operation histories on a real `MonotonicCounterSystem` (rebuilt by
//! replay on a scratch file under /dev/shm for every history): validate_sequence, batch_update (every batch of
//! <= 2 requests incl. the same (peer, seq) twice), cleanup_old_sequences, sync-and-reload (the real background
//! sync task), reload-without-sync (crash). Reference = per-peer high-water mark + accepted list + persisted copy.
//! Part 2 (E4): one child process per loom body of `vh-loom/src/bin/c12l.rs` (re-bound real source); a failing
//! body becomes a `C12.sched-*` violation with the child's output as witness.
use saorsa_core::monotonic_counter::{BatchUpdateRequest, MonotonicCounterSystem, PeerCounter, SequenceEntry, SequenceValidationResult};
use saorsa_core::peer_record::UserId;
use serde_json::{Value, json};
use std::collections::{BTreeSet, HashMap};
use std::path::PathBuf;
use std::sync::atomic::{AtomicU64, AtomicUsize, Ordering};
use std::time::Duration;
use vh::core::*;

#[path = "../loom_child.rs"]
mod loom_child;
use loom_child::run_loom;

const SEQS: [u64; 6] = [0, 1, 2, 3, 5, u64::MAX];
const PEERS: [u8; 2] = [0xA1, 0xB2];

fn uid(p: usize) -> UserId {
    UserId::from_bytes([PEERS[p]; 32])
}
fn hash(h: u8) -> [u8; 32] {
    [h; 32]
}
fn now() -> u64 {
    std::time::SystemTime::now().duration_since(std::time::UNIX_EPOCH).map(|d| d.as_secs()).unwrap_or(0)
}

/// One submission: peer index, sequence, hash id, timestamp offset from "now" (validate_sequence: always 0).
#[derive(Clone, Copy, Debug, PartialEq, Eq, Hash)]
struct Req {
    p: usize,
    s: u64,
    h: u8,
    off: i64,
}

#[derive(Clone, Debug)]
enum Op {
    V(Req),
    B(Vec<Req>),
    Cleanup,
    SyncReload,
    CrashReload,
}

fn req_json(r: &Req) -> Value {
    json!({"peer": if r.p == 0 { "A" } else { "B" }, "sequence": r.s, "hash": format!("h{}", r.h), "timestamp": format!("now{:+}", r.off)})
}
fn op_json(o: &Op) -> Value {
    match o {
        Op::V(r) => json!({"validate_sequence": {"peer": if r.p == 0 { "A" } else { "B" }, "sequence": r.s, "hash": format!("h{}", r.h)}}),
        Op::B(rs) => json!({"batch_update": rs.iter().map(req_json).collect::<Vec<_>>()}),
        Op::Cleanup => json!("cleanup_old_sequences"),
        Op::SyncReload => json!("start_sync_task; wait persistence_ops+1; stop_sync_task; new system on the same file"),
        Op::CrashReload => json!("drop without sync; new system on the same file"),
    }
}

// ---------------------------------------------------------------------------------------------
// reference

#[derive(Clone, Debug, Default, PartialEq, Eq, Hash)]
struct RefPeer {
    last: u64,
    hist: Vec<(u64, u8, i64)>, // (sequence, hash id, timestamp offset)
}
#[derive(Clone, Debug, Default)]
struct RefState {
    live: [Option<RefPeer>; 2],
    disk: Option<[Option<RefPeer>; 2]>,
    reloaded: bool,
}

fn in_window(off: i64) -> bool {
    (-3600..=60).contains(&off)
}

/// Rejection classes that actually apply to a submission in reference state `last`.
fn applicable(last: u64, r: &Req) -> Vec<&'static str> {
    let mut v = Vec::new();
    if r.off > 60 {
        v.push("FromFuture");
    }
    if r.off < -3600 {
        v.push("TooOld");
    }
    if r.s <= last {
        v.push("Replay");
    }
    if r.s > last.saturating_add(1) {
        v.push("Gap");
    }
    v
}

impl RefState {
    fn last(&self, p: usize) -> u64 {
        self.live[p].as_ref().map(|x| x.last).unwrap_or(0)
    }
    fn persisted_mark(&self, p: usize) -> u64 {
        self.disk.as_ref().and_then(|d| d[p].as_ref()).map(|x| x.last).unwrap_or(0)
    }
    /// Reference decision + update. Returns true iff the submission must be Valid.
    fn submit(&mut self, r: &Req) -> bool {
        let last = self.last(r.p);
        let ok = in_window(r.off) && r.s == last.wrapping_add(1) && last != u64::MAX;
        let e = self.live[r.p].get_or_insert_with(RefPeer::default);
        if ok {
            e.last = r.s;
            e.hist.push((r.s, r.h, r.off));
        }
        ok
    }
    fn cleanup(&mut self) {
        for p in self.live.iter_mut().flatten() {
            p.hist.retain(|(_, _, off)| *off >= -3600);
        }
    }
}

// ---------------------------------------------------------------------------------------------
// observation

fn class(r: &SequenceValidationResult) -> &'static str {
    match r {
        SequenceValidationResult::Valid => "Valid",
        SequenceValidationResult::Replay => "Replay",
        SequenceValidationResult::TooOld => "TooOld",
        SequenceValidationResult::FromFuture => "FromFuture",
        SequenceValidationResult::Gap { .. } => "Gap",
    }
}

/// Acceptance-relevant view of a counter: (last_valid_sequence, [(sequence, hash id, timestamp - t0)])
type View = Option<(u64, Vec<(u64, u8, i64)>)>;

fn view(c: &Option<PeerCounter>, t0: u64) -> View {
    c.as_ref().map(|c| (c.last_valid_sequence, c.sequence_history.iter().map(|e| (e.sequence, e.message_hash[0], e.timestamp as i64 - t0 as i64)).collect()))
}
fn view_json(v: &View) -> Value {
    match v {
        None => json!(null),
        Some((l, h)) => json!({"last_valid_sequence": l, "history(seq,hash,ts-now)": h}),
    }
}
/// `None` and a fresh empty counter are the same acceptance state (weakest reading of "without changing state").
fn norm(v: &View) -> (u64, Vec<(u64, u8, i64)>) {
    v.clone().unwrap_or((0, Vec::new()))
}
fn ref_view(p: &Option<RefPeer>) -> (u64, Vec<(u64, u8, i64)>) {
    p.as_ref().map(|p| (p.last, p.hist.clone())).unwrap_or((0, Vec::new()))
}

async fn snapshot(sys: &MonotonicCounterSystem, t0: u64) -> ([View; 2], [String; 2]) {
    let a = sys.get_peer_counter(&uid(0)).await;
    let b = sys.get_peer_counter(&uid(1)).await;
    let full = [format!("{a:?}"), format!("{b:?}")];
    ([view(&a, t0), view(&b, t0)], full)
}

// ---------------------------------------------------------------------------------------------

struct Ctx<'a> {
    run: &'a Run,
    distinct: &'a Distinct,
    root_dir: PathBuf,
}

thread_local! {
    static WORKER: std::cell::Cell<usize> = const { std::cell::Cell::new(usize::MAX) };
    static RT: tokio::runtime::Runtime = tokio::runtime::Builder::new_current_thread().enable_time().build().expect("runtime");
}
thread_local! {
    /// oracle evaluations of the replay in progress; added to the run's count only if the replay is not repeated
    static PENDING_EVALS: std::cell::Cell<u64> = const { std::cell::Cell::new(0) };
}
static NEXT_WORKER: AtomicUsize = AtomicUsize::new(0);

fn worker_path(root: &PathBuf) -> PathBuf {
    let id = WORKER.with(|w| {
        if w.get() == usize::MAX {
            w.set(NEXT_WORKER.fetch_add(1, Ordering::Relaxed));
        }
        w.get()
    });
    root.join(format!("w{id}")).join("counters.bin")
}

/// Initial stores: 0 = no file; 1 = a store file written one hour+ ago: A accepted 1 and 2 (hash h1, timestamps now-4000).
fn root_ref(root: usize) -> RefState {
    if root == 0 {
        return RefState::default();
    }
    let a = RefPeer { last: 2, hist: vec![(1, 1, -4000), (2, 1, -4000)] };
    RefState { live: [Some(a.clone()), None], disk: Some([Some(a), None]), reloaded: true }
}
fn write_root_file(root: usize, path: &PathBuf, t0: u64) {
    let _ = std::fs::remove_file(path);
    if let Some(dir) = path.parent() {
        let _ = std::fs::create_dir_all(dir);
    }
    if root == 1 {
        let ts = t0 - 4000;
        let mut m: HashMap<UserId, PeerCounter> = HashMap::new();
        m.insert(
            uid(0),
            PeerCounter {
                current_sequence: 2,
                last_valid_sequence: 2,
                sequence_history: vec![SequenceEntry { sequence: 1, timestamp: ts, message_hash: hash(1) }, SequenceEntry { sequence: 2, timestamp: ts, message_hash: hash(1) }],
                last_updated: ts,
                replay_attempts: 0,
                sequence_gaps: 0,
            },
        );
        if let Err(e) = std::fs::write(path, postcard::to_stdvec(&m).unwrap_or_default()) {
            machinery_exit(&format!("cannot write initial store {}: {e}", path.display()));
        }
    }
}
fn root_json(root: usize) -> Value {
    if root == 0 { json!("no store file") } else { json!("store file holding A: last_valid_sequence=2, history [(1,h1,now-4000),(2,h1,now-4000)]") }
}

enum StepOut {
    /// second boundary crossed during the replay: timestamp classes ambiguous, replay again
    Retry,
    Pruned,
    State((Vec<u8>, u64)),
}

/// Judge one submission result against the reference (state before: `last`, `rs` for reload marks).
#[allow(clippy::too_many_arguments)]
fn judge_submission(cx: &Ctx, entry: &str, rs: &RefState, req: &Req, must_accept: bool, last_before: u64, got: &SequenceValidationResult, wit: &dyn Fn() -> Value) -> bool {
    PENDING_EVALS.with(|c| c.set(c.get() + 1));
    let app = applicable(last_before, req);
    cx.distinct.outcome(&(entry.to_string(), class(got), app.clone(), must_accept));
    let got_c = class(got);
    let describe = |what: &str| format!("{entry} {}: {what} (reference: last accepted {last_before}, applicable rejections {app:?})", req_json(req));
    if must_accept {
        if got_c != "Valid" {
            cx.run.violation_lazy("C12.accept", feats(&[("entry", entry.into()), ("shape", format!("in-order-refused-as-{got_c}"))]), || (wit(), describe(&format!("next in-order number refused as {got:?}"))));
            return false;
        }
        return true;
    }
    if got_c == "Valid" {
        if rs.reloaded && req.s <= rs.persisted_mark(req.p) {
            cx.run.violation_lazy("C12.reload", feats(&[("entry", entry.into()), ("shape", "persisted-number-reaccepted".into())]), || {
                (wit(), describe(&format!("sequence <= persisted mark {} accepted after reload", rs.persisted_mark(req.p))))
            });
        } else {
            let shape = if !in_window(req.off) {
                "bad-timestamp-accepted"
            } else if req.s <= last_before {
                "already-accepted-or-lower-accepted"
            } else {
                "gap-accepted"
            };
            cx.run.violation_lazy("C12.accept", feats(&[("entry", entry.into()), ("shape", shape.into())]), || (wit(), describe("accepted although not the next in-order number in the time window")));
        }
        return false;
    }
    if !app.contains(&got_c) {
        cx.run.violation_lazy("C12.class", feats(&[("entry", entry.into()), ("shape", format!("{got_c}-when-{}", app.join("+")))]), || (wit(), describe(&format!("classified {got:?}, a reason that does not apply"))));
        return false;
    }
    if let SequenceValidationResult::Gap { expected, received } = got {
        if *expected != last_before.wrapping_add(1) || *received != req.s {
            cx.run.violation_lazy("C12.class", feats(&[("entry", entry.into()), ("shape", "gap-fields".into())]), || (wit(), describe(&format!("Gap fields {got:?} differ from expected={} received={}", last_before.wrapping_add(1), req.s))));
            return false;
        }
    }
    true
}

async fn open(path: &PathBuf) -> std::result::Result<MonotonicCounterSystem, String> {
    MonotonicCounterSystem::new(path.clone()).await.map_err(|e| e.to_string())
}

/// The real background sync: first tick of the interval is immediate; wait for persistence_ops to grow.
async fn sync_via_task(sys: &mut MonotonicCounterSystem) -> bool {
    let before = sys.get_stats().await.persistence_ops;
    if sys.start_sync_task().await.is_err() {
        return false;
    }
    let deadline = std::time::Instant::now() + Duration::from_secs(10);
    let mut ok = false;
    while std::time::Instant::now() < deadline {
        if sys.get_stats().await.persistence_ops > before {
            ok = true;
            break;
        }
        tokio::task::yield_now().await;
        std::thread::yield_now(); // let the blocking-pool thread doing the file write run
    }
    sys.stop_sync_task().await;
    ok
}

async fn step_async(cx: &Ctx<'_>, root: usize, ops: &[Op], h: &[usize], path: &PathBuf) -> StepOut {
    let t0 = now();
    write_root_file(root, path, t0);
    let mut rs = root_ref(root);
    let mut sys = match open(path).await {
        Ok(s) => s,
        Err(e) => {
            cx.run.machinery_error(format!("cannot open fresh store: {e}"));
            return StepOut::Pruned;
        }
    };
    let mut ok = true;
    for (idx, &oi) in h.iter().enumerate() {
        let op = &ops[oi];
        let last_op = idx + 1 == h.len();
        let (before, before_full) = snapshot(&sys, t0).await;
        let rs_before = rs.clone();
        let hist_json = || json!({"initial_store": root_json(root), "history": h[..=idx].iter().map(|&i| op_json(&ops[i])).collect::<Vec<_>>()});
        match op {
            Op::V(req) => {
                let got = sys.validate_sequence(&uid(req.p), req.s, hash(req.h)).await;
                let must = rs.submit(req);
                if last_op {
                    let (after, after_full) = snapshot(&sys, t0).await;
                    if now() != t0 {
                        return StepOut::Retry;
                    }
                    let wit = || json!({"replay": hist_json(), "last_result": format!("{got:?}"), "counter_before": view_json(&before[req.p]), "counter_after": view_json(&after[req.p]), "other_peer_before": before_full[1 - req.p], "other_peer_after": after_full[1 - req.p]});
                    match &got {
                        Err(e) => {
                            cx.run.violation_lazy("C12.class", feats(&[("entry", "validate_sequence".into()), ("shape", "error".into())]), || (wit(), format!("validate_sequence returned Err({e})")));
                            ok = false;
                        }
                        Ok(g) => {
                            ok &= judge_submission(cx, "validate_sequence", &rs_before, req, must, rs_before.last(req.p), g, &wit);
                            ok &= judge_state(cx, "validate_sequence", &[(*req, class(g) == "Valid")], &before, &after, &before_full, &after_full, &wit);
                        }
                    }
                }
            }
            Op::B(reqs) => {
                let batch: Vec<BatchUpdateRequest> = reqs
                    .iter()
                    .map(|r| BatchUpdateRequest { user_id: uid(r.p), sequence: r.s, message_hash: hash(r.h), timestamp: (t0 as i64 + r.off) as u64 })
                    .collect();
                let got = sys.batch_update(batch).await;
                let lasts: Vec<(u64, bool, RefState)> = reqs
                    .iter()
                    .map(|r| {
                        let before_r = rs.clone();
                        let l = rs.last(r.p);
                        let m = rs.submit(r);
                        (l, m, before_r)
                    })
                    .collect();
                if last_op {
                    let (after, after_full) = snapshot(&sys, t0).await;
                    if now() != t0 {
                        return StepOut::Retry;
                    }
                    let got_s = match &got {
                        Ok(v) => format!("{:?}", v.iter().map(|r| (format!("{:?}", r.result), r.applied)).collect::<Vec<_>>()),
                        Err(e) => format!("Err({e})"),
                    };
                    let wit = || json!({"replay": hist_json(), "last_result(result,applied)": got_s, "counters_before": [view_json(&before[0]), view_json(&before[1])], "counters_after": [view_json(&after[0]), view_json(&after[1])]});
                    match &got {
                        Err(e) => {
                            cx.run.violation_lazy("C12.class", feats(&[("entry", "batch_update".into()), ("shape", "error".into())]), || (wit(), format!("batch_update returned Err({e})")));
                            ok = false;
                        }
                        Ok(results) => {
                            let shape_ok = results.len() == reqs.len() && results.iter().zip(reqs.iter()).all(|(g, r)| g.user_id == uid(r.p));
                            if !shape_ok {
                                cx.run.violation_lazy("C12.class", feats(&[("entry", "batch_update".into()), ("shape", "batch-results-do-not-line-up".into())]), || (wit(), "batch_update results do not correspond one-to-one, in order, to the requests".into()));
                                ok = false;
                            } else {
                                let mut accepted = Vec::new();
                                for (i, r) in reqs.iter().enumerate() {
                                    let (l, m, ref before_r) = lasts[i];
                                    ok &= judge_submission(cx, "batch_update", before_r, r, m, l, &results[i].result, &wit);
                                    if results[i].applied != (class(&results[i].result) == "Valid") {
                                        cx.run.violation_lazy("C12.class", feats(&[("entry", "batch_update".into()), ("shape", "applied-flag-disagrees-with-result".into())]), || (wit(), format!("request {i}: applied={} but result {:?}", results[i].applied, results[i].result)));
                                        ok = false;
                                    }
                                    accepted.push((*r, class(&results[i].result) == "Valid"));
                                    if !ok {
                                        break; // later requests of the batch would only echo the first deviation
                                    }
                                }
                                ok = ok && judge_state(cx, "batch_update", &accepted, &before, &after, &before_full, &after_full, &wit);
                            }
                        }
                    }
                }
            }
            Op::Cleanup => {
                let got = sys.cleanup_old_sequences().await;
                rs.cleanup();
                if last_op {
                    let (after, _) = snapshot(&sys, t0).await;
                    if now() != t0 {
                        return StepOut::Retry;
                    }
                    PENDING_EVALS.with(|c| c.set(c.get() + 1));
                    let removed: usize = (0..2).map(|p| norm(&before[p]).1.len().saturating_sub(norm(&after[p]).1.len())).sum();
                    cx.distinct.outcome(&("cleanup", removed, got.is_ok()));
                    for p in 0..2 {
                        let wit = || json!({"replay": hist_json(), "result": format!("{got:?}"), "counter_before": view_json(&before[p]), "counter_after": view_json(&after[p])});
                        if norm(&after[p]).0 != norm(&before[p]).0 || before[p].is_some() != after[p].is_some() {
                            cx.run.violation_lazy("C12.pure", feats(&[("entry", "cleanup_old_sequences".into()), ("shape", "mark-changed".into())]), || (wit(), "cleanup changed a peer's last valid sequence / dropped the peer".into()));
                            ok = false;
                        } else if norm(&after[p]) != ref_view(&rs.live[p]) {
                            cx.run.violation_lazy("C12.pure", feats(&[("entry", "cleanup_old_sequences".into()), ("shape", "history-not-exactly-the-in-window-entries".into())]), || (wit(), "cleanup did not keep exactly the history entries younger than one hour".into()));
                            ok = false;
                        }
                    }
                }
            }
            Op::SyncReload | Op::CrashReload => {
                let is_sync = matches!(op, Op::SyncReload);
                let entry = if is_sync { "sync+reload" } else { "reload-without-sync" };
                let mut synced = true;
                if is_sync {
                    synced = sync_via_task(&mut sys).await;
                    if synced {
                        rs.disk = Some(rs.live.clone());
                    }
                }
                drop(sys);
                let reopened = open(path).await;
                rs.live = rs.disk.clone().unwrap_or_default();
                rs.reloaded = true;
                if !synced {
                    if last_op {
                        cx.run.violation_lazy("C12.reload", feats(&[("entry", entry.into()), ("shape", "sync-never-completed".into())]), || (json!({"replay": hist_json()}), "background sync task did not persist within 10 s of start_sync_task".into()));
                    }
                    return StepOut::Pruned;
                }
                sys = match reopened {
                    Ok(s) => s,
                    Err(e) => {
                        if last_op {
                            cx.run.violation_lazy("C12.reload", feats(&[("entry", entry.into()), ("shape", "load-failed".into())]), || (json!({"replay": hist_json(), "error": e}), format!("store written by the system cannot be loaded: {e}")));
                        }
                        return StepOut::Pruned;
                    }
                };
                if last_op {
                    let (after, _) = snapshot(&sys, t0).await;
                    if now() != t0 {
                        return StepOut::Retry;
                    }
                    PENDING_EVALS.with(|c| c.set(c.get() + 1));
                    cx.distinct.outcome(&(entry, norm(&after[0]).0, norm(&after[1]).0, norm(&before[0]).0, norm(&before[1]).0));
                    for p in 0..2 {
                        let want = ref_view(&rs.live[p]);
                        let gotv = norm(&after[p]);
                        if gotv != want {
                            let shape = if gotv.0 < want.0 {
                                "mark-lower-than-persisted"
                            } else if gotv.0 > want.0 {
                                "mark-higher-than-persisted"
                            } else {
                                "history-differs-from-persisted"
                            };
                            let wit = || json!({"replay": hist_json(), "peer": p, "counter_before_reload": view_json(&before[p]), "counter_after_reload": view_json(&after[p]), "persisted_reference(last,history)": format!("{want:?}")});
                            cx.run.violation_lazy("C12.reload", feats(&[("entry", entry.into()), ("shape", shape.into())]), || (wit(), format!("after {entry} peer {p} has {gotv:?}, persisted state is {want:?}")));
                            ok = false;
                        }
                    }
                }
            }
        }
    }
    if !ok {
        return StepOut::Pruned;
    }
    // ---- canon (observable): counters of both peers + decoded store file
    let (cur, _) = snapshot(&sys, t0).await;
    let file: Option<Vec<(u8, u64, Vec<(u64, u8, i64)>)>> = match std::fs::read(path) {
        Err(_) => None,
        Ok(bytes) => match postcard::from_bytes::<HashMap<UserId, PeerCounter>>(&bytes) {
            Ok(m) => {
                let mut v: Vec<_> = m
                    .iter()
                    .map(|(k, c)| (k.hash[0], c.last_valid_sequence, c.sequence_history.iter().map(|e| (e.sequence, e.message_hash[0], e.timestamp as i64 - t0 as i64)).collect::<Vec<_>>()))
                    .collect();
                v.sort();
                Some(v)
            }
            Err(_) => Some(vec![(0xFF, bytes.len() as u64, vec![])]),
        },
    };
    let canon = postcard::to_stdvec(&(root as u8, &cur, &file)).expect("canon");
    // ---- obs: destructive probe of the rebuilt object (it is discarded afterwards), then of a reloaded one
    let mut probe: Vec<String> = Vec::new();
    for p in 0..2 {
        let l = norm(&cur[p]).0;
        for (s, hh) in [(l.wrapping_add(1), 1u8), (l.wrapping_add(1), 2), (l.wrapping_add(2), 1), (l.wrapping_add(4), 2), (1, 1), (1, 2), (0, 1), (u64::MAX, 2)] {
            probe.push(format!("{:?}", sys.validate_sequence(&uid(p), s, hash(hh)).await.ok()));
        }
    }
    drop(sys);
    if file.is_none() {
        probe.push("no-store-file".into());
    } else if let Ok(sys2) = open(path).await {
        for p in 0..2 {
            for s in [1u64, 2, 3, 4] {
                probe.push(format!("{:?}", sys2.validate_sequence(&uid(p), s, hash(1)).await.ok()));
            }
        }
    } else {
        probe.push("reopen-failed".into());
    }
    if now() != t0 {
        return StepOut::Retry;
    }
    StepOut::State((canon, hash64(&probe)))
}

/// State effect of the last operation: `subs` = (request, observed-accepted) in order.
#[allow(clippy::too_many_arguments)]
fn judge_state(cx: &Ctx, entry: &str, subs: &[(Req, bool)], before: &[View; 2], after: &[View; 2], before_full: &[String; 2], after_full: &[String; 2], wit: &dyn Fn() -> Value) -> bool {
    let mut ok = true;
    for p in 0..2 {
        let addressed = subs.iter().any(|(r, _)| r.p == p);
        if !addressed {
            if before_full[p] != after_full[p] {
                cx.run.violation_lazy("C12.isolate", feats(&[("entry", entry.into()), ("shape", "other-peer-counter-changed".into())]), || (wit(), format!("{entry} addressed to the other peer changed this peer's counter: {} -> {}", before_full[p], after_full[p])));
                ok = false;
            }
            continue;
        }
        // expected effect: exactly the accepted submissions appended, mark = last accepted
        let (mut l, mut hist) = norm(&before[p]);
        let any_accept = subs.iter().any(|(r, a)| r.p == p && *a);
        for (r, a) in subs.iter().filter(|(r, _)| r.p == p) {
            if *a {
                l = r.s;
                hist.push((r.s, r.h, r.off));
            }
        }
        let (gl, ghist) = norm(&after[p]);
        // timestamps of validate_sequence entries are taken inside the call: same second as t0 here (else Retry)
        if (gl, &ghist) != (l, &hist) {
            if any_accept {
                cx.run.violation_lazy("C12.accept", feats(&[("entry", entry.into()), ("shape", "accepted-but-state-not-advanced-exactly".into())]), || (wit(), format!("after accepting, counter is ({gl}, {ghist:?}), expected ({l}, {hist:?})")));
            } else {
                cx.run.violation_lazy("C12.pure", feats(&[("entry", entry.into()), ("shape", if gl != l { "rejected-submission-moved-mark" } else { "rejected-submission-changed-history" }.into())]), || (wit(), format!("a rejected submission changed the counter to ({gl}, {ghist:?}) from ({l}, {hist:?})")));
            }
            ok = false;
        }
    }
    ok
}

fn step(cx: &Ctx, root: usize, ops: &[Op], h: &[usize]) -> Option<(Vec<u8>, u64)> {
    let path = worker_path(&cx.root_dir);
    for _ in 0..50 {
        PENDING_EVALS.with(|c| c.set(0));
        let r = catch(|| RT.with(|rt| rt.block_on(step_async(cx, root, ops, h, &path))));
        if !matches!(r, Ok(StepOut::Retry)) {
            cx.distinct.evals_add(PENDING_EVALS.with(|c| c.get()));
        }
        match r {
            Ok(StepOut::Retry) => {
                cx.run.info("replays_repeated_because_a_second_boundary_was_crossed");
                continue;
            }
            Ok(StepOut::Pruned) => return None,
            Ok(StepOut::State(s)) => return Some(s),
            Err(msg) => {
                let last = h.last().map(|&i| &ops[i]);
                let entry = match last {
                    Some(Op::V(_)) => "validate_sequence",
                    Some(Op::B(_)) => "batch_update",
                    Some(Op::Cleanup) => "cleanup_old_sequences",
                    Some(Op::SyncReload) => "sync+reload",
                    Some(Op::CrashReload) => "reload-without-sync",
                    None => "new",
                };
                cx.run.violation_lazy("C12.nopanic", feats(&[("entry", entry.into())]), || {
                    (json!({"initial_store": root_json(root), "history": h.iter().map(|&i| op_json(&ops[i])).collect::<Vec<_>>(), "panic": msg}), format!("{entry} panicked: {msg}"))
                });
                return None;
            }
        }
    }
    cx.run.machinery_error("replay crossed a second boundary 50 times in a row");
    None
}

type Part1 = (Vec<BfsStats>, u64, bool, Vec<Op>, Vec<Req>, Vec<(u8, i64)>, [(usize, usize); 2], usize);

fn part1_histories(run: &Run, distinct: &Distinct, root_dir: &PathBuf) -> Part1 {
    // ---- Part 1: history BFS
    // request alphabet: peers x sequences x (hash, timestamp offset); quick keeps one hash for out-of-window timestamps
    let stamp_variants: Vec<(u8, i64)> = run.tier.pick(vec![(1, 0), (2, 0), (1, -3601), (1, 61)], vec![(1, 0), (2, 0), (1, -3601), (2, -3601), (1, 61), (2, 61), (1, 60)]);
    let mut reqs: Vec<Req> = Vec::new();
    for &(h, off) in &stamp_variants {
        for p in 0..2 {
            for &s in &SEQS {
                reqs.push(Req { p, s, h, off });
            }
        }
    }
    let mut ops: Vec<Op> = Vec::new();
    for p in 0..2 {
        for &s in &SEQS {
            for h in [1u8, 2] {
                ops.push(Op::V(Req { p, s, h, off: 0 }));
            }
        }
    }
    ops.push(Op::Cleanup);
    ops.push(Op::SyncReload);
    ops.push(Op::CrashReload);
    ops.push(Op::B(vec![]));
    for r in &reqs {
        ops.push(Op::B(vec![*r]));
    }
    for r1 in &reqs {
        for r2 in &reqs {
            ops.push(Op::B(vec![*r1, *r2]));
        }
    }
    // "core" operations: everything except two-request batches, of which only "the same (peer, seq) twice, both in
    // the time window" stay. Histories up to `full_depth` use the full alphabet; deeper levels extend with core only.
    let core: Vec<bool> = ops
        .iter()
        .map(|o| match o {
            Op::B(rs) if rs.len() == 2 => rs[0].p == rs[1].p && rs[0].s == rs[1].s && rs[0].off == 0 && rs[1].off == 0,
            _ => true,
        })
        .collect();
    let n_core = core.iter().filter(|c| **c).count();
    // per initial store: (full-alphabet depth, total depth)
    let depths: [(usize, usize); 2] = run.tier.pick([(3, 4), (2, 3)], [(3, 6), (3, 5)]);
    // one wall-clock budget per initial store, so that a slow machine cannot starve the second search
    let total = Duration::from_secs(run.tier.pick(52, 1500)).saturating_sub(run.elapsed());
    let budgets = [Budget::new(total.mul_f64(0.7)), Budget::new(total)];
    let cx = Ctx { run, distinct, root_dir: root_dir.clone() };
    let replays = AtomicU64::new(0);
    let mut all_stats = Vec::new();
    for root in 0..2usize {
        let (full_depth, depth) = depths[root];
        let stats = bfs(
            ops.len(),
            depth,
            &budgets[root],
            |h: &[usize]| {
                if h.len() > full_depth && !core[h[h.len() - 1]] {
                    return None;
                }
                replays.fetch_add(1, Ordering::Relaxed);
                step(&cx, root, &ops, h)
            },
            |a, b| {
                run.machinery_error(format!(
                    "canonicalisation mismatch (root {root}): histories {:?} and {:?} reach the same counters + store file but answer the probe differently",
                    a.iter().map(|&i| op_json(&ops[i])).collect::<Vec<_>>(),
                    b.iter().map(|&i| op_json(&ops[i])).collect::<Vec<_>>()
                ));
            },
        );
        all_stats.push(stats);
    }
    let _ = std::fs::remove_dir_all(root_dir);
    let budget_hit = budgets.iter().any(|b| b.was_hit());
    (all_stats, replays.load(Ordering::Relaxed), budget_hit, ops, reqs, stamp_variants, depths, n_core)
}

fn main() {
    let run = Run::new("C12", "model_checking");
    quiet_panics();
    // hang breaker: a subject call that never returns (e.g. a self-deadlock) would block the search outside any budget check
    let hard_limit = run.tier.pick(170, 2700);
    std::thread::spawn(move || {
        std::thread::sleep(Duration::from_secs(hard_limit));
        machinery_exit(&format!("C12: no result after {hard_limit} s — a call into the subject did not return (deadlock?)"));
    });
    let distinct = Distinct::default();
    let root_dir = PathBuf::from(format!("/dev/shm/vh-c12-{}", std::process::id()));
    let _ = std::fs::remove_dir_all(&root_dir);

    // ---- Part 2 (loom bodies in child processes) runs beside Part 1
    let loom_thread = std::thread::scope(|sc| {
        let loom_handle = sc.spawn(|| run_loom(&run, "C12", run.tier.pick(40, 900)));
        let part1 = part1_histories(&run, &distinct, &root_dir);
        (loom_handle.join().unwrap_or_else(|_| machinery_exit("loom driver thread panicked")), part1)
    });
    let (loom, (all_stats, replays, budget_hit, ops, reqs, stamp_variants, depths, n_core)) = loom_thread;
    if !loom.incomplete.is_empty() {
        run.cap_hit(format!("loom bodies stopped by their wall-clock cap: {:?}", loom.incomplete));
    }

    if budget_hit {
        run.cap_hit(format!("wall-clock budget; BFS completed depths {:?} of {:?}", all_stats.iter().map(|s| s.completed_depth).collect::<Vec<_>>(), depths.iter().map(|d| d.1).collect::<Vec<_>>()));
        if all_stats[0].completed_depth == 0 {
            run.machinery_error("not even depth 1 completed");
        }
    }
    let states: u64 = all_stats.iter().map(|s| s.states).sum();
    let transitions: u64 = all_stats.iter().map(|s| s.transitions).sum();
    let mut samples: Vec<Value> = Vec::new();
    for (root, st) in all_stats.iter().enumerate() {
        for h in st.sample_histories.iter().take(3) {
            samples.push(json!({"initial_store": root_json(root), "history": h.iter().map(|&i| op_json(&ops[i])).collect::<Vec<_>>()}));
        }
    }
    for b in loom.bodies.iter().take(2) {
        samples.push(json!({"loom_body": b}));
    }
    let kinds: BTreeSet<&str> = ["validate_sequence", "batch_update", "cleanup_old_sequences", "sync+reload", "reload-without-sync"].into_iter().collect();
    let coverage = cov(vec![
        ("states", json!(states + loom.states)),
        ("transitions", json!(transitions + loom.states)),
        ("traces_validated_against_impl", json!(replays + loom.states)),
        ("samples", json!(samples)),
        ("exhaustive", json!(!budget_hit && loom.incomplete.is_empty())),
        ("evaluations", json!(distinct.evaluations())),
        ("distinct_nontrivial", json!(distinct.distinct())),
        ("rule", json!("evaluation = one judged submission / cleanup / reload as LAST operation of a history; distinct = distinct (entry point, observed class, applicable rejection set, must-accept) tuples resp. (reload kind, marks before/after)")),
        (
            "bounds",
            json!({"bfs_depth_per_initial_store": depths.iter().map(|d| d.1).collect::<Vec<_>>(), "full_alphabet_to_depth_per_initial_store": depths.iter().map(|d| d.0).collect::<Vec<_>>(), "core_ops_beyond": n_core, "bfs_completed_depth": all_stats.iter().map(|s| s.completed_depth).collect::<Vec<_>>(), "fixpoint": all_stats.iter().map(|s| s.fixpoint).collect::<Vec<_>>(),
                "alphabet_ops": ops.len(), "request_alphabet": reqs.len(), "peers": 2, "sequences": SEQS, "hash_timestamp_variants": stamp_variants, "operation_kinds": kinds,
                "initial_stores": ["no file", "file with A at 2 written > 1 h ago"],
                "bfs_states": all_stats.iter().map(|s| s.states).collect::<Vec<_>>(), "bfs_transitions": all_stats.iter().map(|s| s.transitions).collect::<Vec<_>>(),
                "revisits_compared": all_stats.iter().map(|s| s.revisits).collect::<Vec<_>>(), "frontier_sizes": all_stats.iter().map(|s| s.frontier_sizes.clone()).collect::<Vec<_>>(),
                "loom_schedules": loom.states, "loom_bodies": loom.bodies}),
        ),
    ]);
    run.finish(
        coverage,
        vec![
            "every transition is a replay on a real MonotonicCounterSystem over a scratch file in /dev/shm; reference = per-peer high-water mark + accepted list + persisted copy".into(),
            "weakest readings: an empty counter materialising for an unknown peer is not a state change; when several rejection reasons apply any of them is accepted; sequence 0 and numbers <= the mark count as Replay".into(),
            "timestamps are offsets from the wall clock second of the replay; a replay during which the second changes is repeated, so verdicts never depend on the +-1 s band".into(),
            "sequence 4 is not in the alphabet (5 is always a gap); marks above 3 and history trimming at 1000 entries are not reached".into(),
            "loom part: counters RwLock + Arc are loom objects in a re-bound copy of the working tree's monotonic_counter.rs; tokio::sync::Mutex (statistics), tokio::fs and the background sync task are not under loom".into(),
            "sync happens only through the real background task (first interval tick); concurrent submissions during a sync are not enumerated".into(),
        ],
    );
}
