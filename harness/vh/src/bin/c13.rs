//! C13 — per-subnet / per-ASN admission caps are never exceeded; slots are returned.
//!
//! Bounded-exhaustive search over operation histories on the REAL objects (rebuilt by replay):
//!  (i)   `IPDiversityEnforcer` + a custom `GeoProvider`: analyse+add / remove(admitted instance) / set_network_size
//!        over 5 IPv6 + 4 IPv4 addresses x {ASN, hosting, VPN} attributes x {default, testnet, permissive, small caps}.
//!  (ii)  `DhtCoreEngine::{add_node, join_network, evict_node, handle_node_failure}` histories with `NodeInfo.address`
//!        in the formats "ip:port", "ip", `NetworkAddress::to_string()`, garbage; plus the full-bucket script.
//!  (iii) `BootstrapManager::add_peer` sequences (permissive join-rate limit).
//!  (iv)  (netsim, integrated path) is a separate check.
//!
//! Reference oracle: the multiset of admitted instances; a level's count is recomputed from it by counting.
//!   C13.cap     an admission succeeded although one of the candidate's levels was at the candidate's cap
//!   C13.live    an admission was refused although every level of the candidate was below its cap
//!   C13.release after removing an admitted node (enforcer / eviction / failure) the slots are not back
//!   C13.atomic  a failed admission changed counters (observable stats / admissibility of others)
//!   C13.gate    (ii) the gate was not applied at all for an address whose IP the library itself rendered
//!   C13.count   get_diversity_stats() disagrees with the admitted multiset after a successful operation
//!   C13.limit   get_per_ip_limit() != min(cap, max(1, floor(size * fraction)))
//!   C13.analyze analyse_* returns wrong prefixes / attributes        C13.nopanic
use saorsa_core::address::NetworkAddress;
use saorsa_core::bootstrap::manager::{BootstrapConfig, BootstrapManager};
use saorsa_core::dht::core_engine::{DhtCoreEngine, DhtKey, NodeCapacity, NodeId, NodeInfo};
use saorsa_core::dht::routing_maintenance::EvictionReason;
use saorsa_core::dht::routing_maintenance::close_group_validator::{CloseGroupValidator, CloseGroupValidatorConfig};
use saorsa_core::rate_limit::JoinRateLimiterConfig;
use saorsa_core::security::{DiversityStats, GeoInfo, GeoProvider, IPDiversityConfig, IPDiversityEnforcer, UnifiedIPAnalysis};
use serde_json::{Value, json};
use std::collections::{BTreeMap, BTreeSet};
use std::net::{IpAddr, Ipv4Addr, Ipv6Addr, SocketAddr};
use std::sync::Arc;
use std::sync::atomic::{AtomicU64, Ordering};
use std::time::{Duration, SystemTime};
use vh::core::*;

const ASN: u32 = 7;

// ---------------------------------------------------------------------------------------------
// addresses, attributes, levels (shared by the three parts)

#[derive(Clone, Copy, PartialEq, Eq, Hash, PartialOrd, Ord, Debug)]
struct Attr {
    asn: bool,
    hosting: bool,
    vpn: bool,
}
const PLAIN: Attr = Attr { asn: false, hosting: false, vpn: false };
const HOST: Attr = Attr { asn: false, hosting: true, vpn: false };
const ASN_ONLY: Attr = Attr { asn: true, hosting: false, vpn: false };
const HOST_ASN: Attr = Attr { asn: true, hosting: true, vpn: false };
const VPN_ASN: Attr = Attr { asn: true, hosting: false, vpn: true };

impl Attr {
    fn code(&self) -> u8 {
        (self.asn as u8) | ((self.hosting as u8) << 1) | ((self.vpn as u8) << 2)
    }
    fn strict(&self) -> bool {
        self.hosting || self.vpn
    }
    fn name(&self) -> String {
        let mut v = Vec::new();
        if self.asn {
            v.push("asn7");
        }
        if self.hosting {
            v.push("hosting");
        }
        if self.vpn {
            v.push("vpn");
        }
        if v.is_empty() { "plain".into() } else { v.join("+") }
    }
}

/// IPv6 alphabet: a0,a1 share a /64; a2 shares their /48; a3 shares the /32; a4 is foreign;
/// a5, a6 are a third and fourth /64 of the first /48 (so that the default /48 cap of 3 is reachable).
/// The attribute code sits in the last byte so that the GeoProvider is a pure function of the address.
fn v6(idx: usize, attr: Attr) -> Ipv6Addr {
    let (s0, s1, s2, s3, host): (u16, u16, u16, u16, u16) = match idx {
        0 => (0x2001, 0xdb8, 1, 1, 0x0100),
        1 => (0x2001, 0xdb8, 1, 1, 0x0200),
        2 => (0x2001, 0xdb8, 1, 2, 0x0100),
        3 => (0x2001, 0xdb8, 2, 1, 0x0100),
        4 => (0x2a00, 0x1450, 1, 1, 0x0100),
        5 => (0x2001, 0xdb8, 1, 3, 0x0100),
        _ => (0x2001, 0xdb8, 1, 4, 0x0100),
    };
    Ipv6Addr::new(s0, s1, s2, s3, 0, 0, 0, host | attr.code() as u16)
}
/// IPv4 alphabet: b0 (admitted several times = same /32), b1 same /24, b2 same /16, b3 foreign,
/// b4, b5 a third and fourth address of the first /24 (default /24 cap 3 reachable with per-IP limit 1).
fn v4(idx: usize) -> Ipv4Addr {
    match idx {
        0 => Ipv4Addr::new(10, 1, 1, 1),
        1 => Ipv4Addr::new(10, 1, 1, 2),
        2 => Ipv4Addr::new(10, 1, 2, 1),
        3 => Ipv4Addr::new(172, 16, 0, 1),
        4 => Ipv4Addr::new(10, 1, 1, 3),
        _ => Ipv4Addr::new(10, 1, 1, 4),
    }
}

#[derive(Debug)]
struct Geo;
impl GeoProvider for Geo {
    fn lookup(&self, ip: Ipv6Addr) -> GeoInfo {
        let c = ip.octets()[15];
        GeoInfo { asn: if c & 1 != 0 { Some(ASN) } else { None }, country: if c & 1 != 0 { Some("ZZ".into()) } else { None }, is_hosting_provider: c & 2 != 0, is_vpn_provider: c & 4 != 0 }
    }
}

#[derive(Clone, Copy, PartialEq, Eq, Hash, PartialOrd, Ord, Debug)]
struct Kind {
    ip: IpAddr,
    attr: Attr,
}
impl Kind {
    fn k6(idx: usize, attr: Attr) -> Kind {
        Kind { ip: IpAddr::V6(v6(idx, attr)), attr }
    }
    fn k4(idx: usize, attr: Attr) -> Kind {
        Kind { ip: IpAddr::V4(v4(idx)), attr }
    }
    fn family(&self) -> &'static str {
        if self.ip.is_ipv4() { "ipv4" } else { "ipv6" }
    }
    fn label(&self) -> String {
        format!("{} [{}]", self.ip, self.attr.name())
    }
}

#[derive(Clone, PartialEq, Eq, Hash, PartialOrd, Ord, Debug)]
enum Key {
    S64([u8; 8]),
    S48([u8; 6]),
    S32([u8; 4]),
    Ip4([u8; 4]),
    N24([u8; 3]),
    N16([u8; 2]),
    Asn,
}
impl Key {
    fn name(&self) -> &'static str {
        match self {
            Key::S64(_) => "ipv6/64",
            Key::S48(_) => "ipv6/48",
            Key::S32(_) => "ipv6/32",
            Key::Ip4(_) => "ipv4/32",
            Key::N24(_) => "ipv4/24",
            Key::N16(_) => "ipv4/16",
            Key::Asn => "asn",
        }
    }
}
fn keys_of(k: &Kind) -> Vec<Key> {
    let mut v = Vec::new();
    match k.ip {
        IpAddr::V6(a) => {
            let o = a.octets();
            v.push(Key::S64(o[..8].try_into().unwrap()));
            v.push(Key::S48(o[..6].try_into().unwrap()));
            v.push(Key::S32(o[..4].try_into().unwrap()));
        }
        IpAddr::V4(a) => {
            let o = a.octets();
            v.push(Key::Ip4(o));
            v.push(Key::N24(o[..3].try_into().unwrap()));
            v.push(Key::N16(o[..2].try_into().unwrap()));
        }
    }
    if k.attr.asn {
        v.push(Key::Asn);
    }
    v
}

/// Reference per-IP limit: min(cap, max(1, floor(size * fraction))) — the configured network-size rule.
fn ref_per_ip(cfg: &IPDiversityConfig, size: usize) -> usize {
    let f = (size as f64 * cfg.max_network_fraction).floor() as usize;
    cfg.max_per_ip_cap.min(f.max(1))
}
/// The cap that applies to `cand` at level `key` (statement: halved, minimum one, for hosting/VPN candidates;
/// IPv4 caps: per-IP limit, /24 = min(configured, 3 x per-IP), /16 = min(configured, 10 x per-IP)).
fn cap_of(cfg: &IPDiversityConfig, size: usize, cand: &Kind, key: &Key) -> usize {
    let p = ref_per_ip(cfg, size);
    let base = match key {
        Key::S64(_) => cfg.max_nodes_per_64,
        Key::S48(_) => cfg.max_nodes_per_48,
        Key::S32(_) => cfg.max_nodes_per_32,
        Key::Ip4(_) => p,
        Key::N24(_) => cfg.max_nodes_per_ipv4_24.min(p.saturating_mul(3)),
        Key::N16(_) => cfg.max_nodes_per_ipv4_16.min(p.saturating_mul(10)),
        Key::Asn => cfg.max_nodes_per_asn,
    };
    if cand.attr.strict() { (base / 2).max(1) } else { base }
}

#[derive(Clone, Default)]
struct RefState {
    admitted: Vec<Kind>, // kept sorted
    size: usize,
}
impl RefState {
    fn count(&self, key: &Key) -> usize {
        self.admitted.iter().filter(|k| keys_of(k).contains(key)).count()
    }
    /// first level of `cand` that is at (or above) the candidate's cap
    fn blocked_at(&self, cfg: &IPDiversityConfig, cand: &Kind) -> Option<(Key, usize, usize)> {
        for key in keys_of(cand) {
            let c = self.count(&key);
            let cap = cap_of(cfg, self.size, cand, &key);
            if c >= cap {
                return Some((key, c, cap));
            }
        }
        None
    }
    fn add(&mut self, k: Kind) {
        self.admitted.push(k);
        self.admitted.sort();
    }
    fn remove(&mut self, k: &Kind) -> bool {
        match self.admitted.iter().position(|x| x == k) {
            Some(p) => {
                self.admitted.remove(p);
                true
            }
            None => false,
        }
    }
    fn levels_json(&self, cfg: &IPDiversityConfig, cand: &Kind) -> Value {
        json!(keys_of(cand).iter().map(|key| json!({"level": key.name(), "count_before": self.count(key), "cap_for_candidate": cap_of(cfg, self.size, cand, key)})).collect::<Vec<_>>())
    }
    fn stats(&self) -> [usize; 14] {
        let mut per: BTreeMap<Key, usize> = BTreeMap::new();
        let mut countries = 0usize;
        for k in &self.admitted {
            for key in keys_of(k) {
                *per.entry(key).or_insert(0) += 1;
            }
            if k.attr.asn {
                countries = 1;
            }
        }
        let tot = |f: &dyn Fn(&Key) -> bool| per.keys().filter(|k| f(k)).count();
        let mx = |f: &dyn Fn(&Key) -> bool| per.iter().filter(|(k, _)| f(k)).map(|(_, v)| *v).max().unwrap_or(0);
        [
            tot(&|k| matches!(k, Key::S64(_))),
            tot(&|k| matches!(k, Key::S48(_))),
            tot(&|k| matches!(k, Key::S32(_))),
            mx(&|k| matches!(k, Key::S64(_))),
            mx(&|k| matches!(k, Key::S48(_))),
            mx(&|k| matches!(k, Key::S32(_))),
            tot(&|k| matches!(k, Key::Ip4(_))),
            tot(&|k| matches!(k, Key::N24(_))),
            tot(&|k| matches!(k, Key::N16(_))),
            mx(&|k| matches!(k, Key::Ip4(_))),
            mx(&|k| matches!(k, Key::N24(_))),
            mx(&|k| matches!(k, Key::N16(_))),
            tot(&|k| matches!(k, Key::Asn)),
            countries,
        ]
    }
}
fn stats_arr(s: &DiversityStats) -> [usize; 14] {
    [
        s.total_64_subnets,
        s.total_48_subnets,
        s.total_32_subnets,
        s.max_nodes_per_64,
        s.max_nodes_per_48,
        s.max_nodes_per_32,
        s.total_ipv4_32,
        s.total_ipv4_24_subnets,
        s.total_ipv4_16_subnets,
        s.max_nodes_per_ipv4_32,
        s.max_nodes_per_ipv4_24,
        s.max_nodes_per_ipv4_16,
        s.total_asns,
        s.total_countries,
    ]
}
const STAT_NAMES: [&str; 14] = ["total_64", "total_48", "total_32", "max_64", "max_48", "max_32", "total_ip4", "total_24", "total_16", "max_ip4", "max_24", "max_16", "total_asns", "total_countries"];

fn cfg_json(c: &IPDiversityConfig) -> Value {
    let u = |x: usize| if x == usize::MAX { json!("usize::MAX") } else { json!(x) };
    json!({"max_nodes_per_64": u(c.max_nodes_per_64), "max_nodes_per_48": u(c.max_nodes_per_48), "max_nodes_per_32": u(c.max_nodes_per_32),
           "max_nodes_per_ipv4_32": u(c.max_nodes_per_ipv4_32), "max_nodes_per_ipv4_24": u(c.max_nodes_per_ipv4_24), "max_nodes_per_ipv4_16": u(c.max_nodes_per_ipv4_16),
           "max_per_ip_cap": u(c.max_per_ip_cap), "max_network_fraction": c.max_network_fraction, "max_nodes_per_asn": u(c.max_nodes_per_asn)})
}

// ---------------------------------------------------------------------------------------------
// part (i): the enforcer

#[derive(Clone, Copy, PartialEq, Eq, Debug)]
enum Entry {
    Direct,  // analyze_ip / can_accept_node / add_node / remove_node (IPv6 only; IPv4 has no public direct path)
    Unified, // analyze_unified / can_accept_unified / add_unified / remove_unified
}

#[derive(Clone, Debug)]
enum Op {
    Add(Kind),
    Remove(Kind),
    Size(usize),
}
fn op_json(o: &Op) -> Value {
    match o {
        Op::Add(k) => json!({"analyse+add": k.label()}),
        Op::Remove(k) => json!({"remove": k.label()}),
        Op::Size(n) => json!({"set_network_size": n}),
    }
}

struct Job {
    name: String,
    cfg: IPDiversityConfig,
    entry: Entry,
    kinds: Vec<Kind>,
    ops: Vec<Op>,
    depth: usize,
}
impl Job {
    fn new(name: &str, cfg: IPDiversityConfig, entry: Entry, kinds: Vec<Kind>, sizes: &[usize], depth: usize) -> Job {
        let mut ops = Vec::new();
        for k in &kinds {
            ops.push(Op::Add(*k));
        }
        for k in &kinds {
            ops.push(Op::Remove(*k));
        }
        for s in sizes {
            ops.push(Op::Size(*s));
        }
        Job { name: name.into(), cfg, entry, kinds, ops, depth }
    }
}

/// analyse through the chosen entry; IPv4 attributes are set on the (public) analysis fields because
/// `analyze_ipv4` has no provider hook.
fn analyse(e: &IPDiversityEnforcer, k: &Kind) -> Result<UnifiedIPAnalysis, String> {
    let mut a = catch(|| e.analyze_unified(k.ip))?.map_err(|x| format!("analyze error: {x}"))?;
    if let UnifiedIPAnalysis::IPv4(ref mut v) = a {
        if k.attr.asn {
            v.asn = Some(ASN);
            v.country = Some("ZZ".into());
        }
        v.is_hosting_provider = k.attr.hosting;
        v.is_vpn_provider = k.attr.vpn;
    }
    Ok(a)
}
fn entry_name(entry: Entry, k: &Kind, what: &str) -> String {
    match (entry, k.ip) {
        (Entry::Direct, IpAddr::V6(_)) => format!("IPDiversityEnforcer::{}", match what { "can" => "can_accept_node", "add" => "add_node", "remove" => "remove_node", _ => "analyze_ip" }),
        _ => format!("IPDiversityEnforcer::{}", match what { "can" => "can_accept_unified", "add" => "add_unified", "remove" => "remove_unified", _ => "analyze_unified" }),
    }
}
fn can_accept(e: &IPDiversityEnforcer, entry: Entry, a: &UnifiedIPAnalysis) -> bool {
    match (entry, a) {
        (Entry::Direct, UnifiedIPAnalysis::IPv6(x)) => e.can_accept_node(x),
        _ => e.can_accept_unified(a),
    }
}
fn do_add(e: &mut IPDiversityEnforcer, entry: Entry, a: &UnifiedIPAnalysis) -> bool {
    match (entry, a) {
        (Entry::Direct, UnifiedIPAnalysis::IPv6(x)) => e.add_node(x).is_ok(),
        _ => e.add_unified(a).is_ok(),
    }
}
fn do_remove(e: &mut IPDiversityEnforcer, entry: Entry, a: &UnifiedIPAnalysis) {
    match (entry, a) {
        (Entry::Direct, UnifiedIPAnalysis::IPv6(x)) => e.remove_node(x),
        _ => e.remove_unified(a),
    }
}

struct Cx<'a> {
    run: &'a Run,
    distinct: &'a Distinct,
}

fn check_analysis(cx: &Cx, job: &Job, e: &IPDiversityEnforcer, k: &Kind, wit: &dyn Fn(Value) -> Value) {
    // direct analyse for v6 under Entry::Direct, unified otherwise; v4 attributes as delivered by the library (none)
    let (p64, p48, p32, asn, host, vpn) = match k.ip {
        IpAddr::V6(a) => {
            let an = if job.entry == Entry::Direct {
                match catch(|| e.analyze_ip(a)) {
                    Ok(Ok(x)) => x,
                    _ => return,
                }
            } else {
                match catch(|| e.analyze_unified(k.ip)) {
                    Ok(Ok(UnifiedIPAnalysis::IPv6(x))) => x,
                    _ => {
                        cx.run.violation_lazy("C13.analyze", feats(&[("entry", "IPDiversityEnforcer::analyze_unified".into()), ("shape", "wrong-family".into())]), || (wit(json!({"address": k.ip.to_string()})), format!("analyze_unified({}) did not return an IPv6 analysis", k.ip)));
                        return;
                    }
                }
            };
            (an.subnet_64.octets(), an.subnet_48.octets(), an.subnet_32.octets(), an.asn, an.is_hosting_provider, an.is_vpn_provider)
        }
        IpAddr::V4(a) => {
            match catch(|| e.analyze_unified(k.ip)) {
                Ok(Ok(UnifiedIPAnalysis::IPv4(x))) => {
                    cx.distinct.eval();
                    let o = a.octets();
                    if x.ip_addr != a || x.subnet_24.octets() != [o[0], o[1], o[2], 0] || x.subnet_16.octets() != [o[0], o[1], 0, 0] {
                        cx.run.violation_lazy("C13.analyze", feats(&[("entry", "IPDiversityEnforcer::analyze_unified".into()), ("shape", "ipv4-prefix".into())]), || (wit(json!({"address": k.ip.to_string(), "subnet_24": x.subnet_24.to_string(), "subnet_16": x.subnet_16.to_string()})), format!("analyze_unified({a}) gives wrong prefixes")));
                    }
                }
                _ => {
                    cx.run.violation_lazy("C13.analyze", feats(&[("entry", "IPDiversityEnforcer::analyze_unified".into()), ("shape", "wrong-family".into())]), || (wit(json!({"address": k.ip.to_string()})), format!("analyze_unified({}) did not return an IPv4 analysis", k.ip)));
                }
            }
            return;
        }
    };
    cx.distinct.eval();
    let IpAddr::V6(a) = k.ip else { return };
    let o = a.octets();
    let mask = |n: usize| {
        let mut m = [0u8; 16];
        m[..n].copy_from_slice(&o[..n]);
        m
    };
    let ok = p64 == mask(8) && p48 == mask(6) && p32 == mask(4) && asn == (if k.attr.asn { Some(ASN) } else { None }) && host == k.attr.hosting && vpn == k.attr.vpn;
    if !ok {
        cx.run.violation_lazy("C13.analyze", feats(&[("entry", entry_name(job.entry, k, "analyze")), ("shape", "ipv6-prefix-or-attributes".into())]), || {
            (wit(json!({"address": a.to_string(), "subnet_64": Ipv6Addr::from(p64).to_string(), "subnet_48": Ipv6Addr::from(p48).to_string(), "subnet_32": Ipv6Addr::from(p32).to_string(), "asn": asn, "hosting": host, "vpn": vpn})), format!("analysis of {a} has wrong prefixes or attributes"))
        });
    }
}

/// Replay `h` on a fresh enforcer, judge the last operation and the reached state.
fn enforcer_step(cx: &Cx, job: &Job, h: &[usize]) -> Option<((Vec<Kind>, usize), u64)> {
    let mut e = IPDiversityEnforcer::with_geo_provider(job.cfg.clone(), Arc::new(Geo));
    let mut r = RefState::default();
    let wit = |extra: Value| json!({"part": "enforcer", "job": job.name, "config": cfg_json(&job.cfg), "entry": format!("{:?}", job.entry), "history": h.iter().map(|&i| op_json(&job.ops[i])).collect::<Vec<_>>(), "last": extra,
        "note": "IPv6 attributes come from a GeoProvider keyed on the last address byte (bit0 ASN 7 + country ZZ, bit1 hosting, bit2 VPN); IPv4 attributes are set on the public IPv4Analysis fields"});
    #[derive(PartialEq)]
    enum Last {
        None,
        AddOk,
        AddFail,
        Remove(Kind),
        Size,
    }
    let mut last_kind = Last::None;
    for (pos, &oi) in h.iter().enumerate() {
        let last = pos + 1 == h.len();
        match &job.ops[oi] {
            Op::Add(k) => {
                if last {
                    check_analysis(cx, job, &e, k, &wit);
                }
                let a = match analyse(&e, k) {
                    Ok(a) => a,
                    Err(m) => {
                        cx.run.violation_lazy("C13.nopanic", feats(&[("entry", entry_name(job.entry, k, "analyze"))]), || (wit(json!({"panic": m})), format!("analyse({}) failed: {m}", k.label())));
                        return None;
                    }
                };
                let blocked = r.blocked_at(&job.cfg, k);
                let exp = blocked.is_none();
                let before = if last { Some(stats_arr(&e.get_diversity_stats())) } else { None };
                let can = catch(|| can_accept(&e, job.entry, &a));
                let res = catch(|| do_add(&mut e, job.entry, &a));
                let (can, res) = match (can, res) {
                    (Ok(c), Ok(r)) => (c, r),
                    (c, r2) => {
                        cx.run.violation_lazy("C13.nopanic", feats(&[("entry", entry_name(job.entry, k, "add"))]), || (wit(json!({"panic": format!("{c:?} {r2:?}")})), format!("can_accept/add({}) panicked", k.label())));
                        return None;
                    }
                };
                if last {
                    for (what, got) in [("can", can), ("add", res)] {
                        cx.distinct.eval();
                        cx.distinct.outcome(&(what, k.family(), k.attr, exp, got, blocked.as_ref().map(|b| b.0.name())));
                        if got && !exp {
                            let (key, c, cap) = blocked.clone().unwrap();
                            cx.run.violation_lazy("C13.cap", feats(&[("entry", entry_name(job.entry, k, what)), ("family", k.family().into()), ("level", key.name().into()), ("candidate", if k.attr.strict() { "hosting-or-vpn" } else { "regular" }.into())]), || {
                                (wit(json!({"candidate": k.label(), "returned": "accepted", "levels": r.levels_json(&job.cfg, k), "network_size": r.size})), format!("{} accepted {} although {} already holds {} (cap for this candidate {})", entry_name(job.entry, k, what), k.label(), key.name(), c, cap))
                            });
                        }
                        if !got && exp {
                            cx.run.violation_lazy("C13.live", feats(&[("entry", entry_name(job.entry, k, what)), ("family", k.family().into()), ("candidate", if k.attr.strict() { "hosting-or-vpn" } else { "regular" }.into())]), || {
                                (wit(json!({"candidate": k.label(), "returned": "refused", "levels": r.levels_json(&job.cfg, k), "network_size": r.size})), format!("{} refused {} although every level is below its cap", entry_name(job.entry, k, what), k.label()))
                            });
                        }
                    }
                    if !res {
                        let after = stats_arr(&e.get_diversity_stats());
                        cx.distinct.eval();
                        if Some(after) != before {
                            cx.run.violation_lazy("C13.atomic", feats(&[("entry", entry_name(job.entry, k, "add")), ("family", k.family().into()), ("shape", "stats-changed-by-refused-add".into())]), || (wit(json!({"candidate": k.label(), "stats_before": before, "stats_after": after, "stat_names": STAT_NAMES})), format!("refused add of {} changed the counters", k.label())));
                        }
                    }
                }
                if res {
                    r.add(*k);
                }
                last_kind = if res { Last::AddOk } else { Last::AddFail };
            }
            Op::Remove(k) => {
                if !r.admitted.contains(k) {
                    return None; // only admitted instances are removed
                }
                let a = analyse(&e, k).ok()?;
                if let Err(m) = catch(|| do_remove(&mut e, job.entry, &a)) {
                    cx.run.violation_lazy("C13.nopanic", feats(&[("entry", entry_name(job.entry, k, "remove"))]), || (wit(json!({"panic": m})), format!("remove({}) panicked", k.label())));
                    return None;
                }
                r.remove(k);
                last_kind = Last::Remove(*k);
            }
            Op::Size(n) => {
                if r.size == *n {
                    return None;
                }
                e.set_network_size(*n);
                r.size = *n;
                last_kind = Last::Size;
            }
        }
    }
    // ---- judge the reached state
    let lim = e.get_per_ip_limit();
    cx.distinct.eval();
    cx.distinct.outcome(&("limit", lim));
    if lim != ref_per_ip(&job.cfg, r.size) || e.get_network_size() != r.size {
        cx.run.violation_lazy("C13.limit", feats(&[("entry", "IPDiversityEnforcer::get_per_ip_limit".into())]), || (wit(json!({"network_size": r.size, "got": lim, "expected": ref_per_ip(&job.cfg, r.size)})), format!("get_per_ip_limit() = {lim} for network size {} (expected {})", r.size, ref_per_ip(&job.cfg, r.size))));
    }
    let st = stats_arr(&e.get_diversity_stats());
    let want = r.stats();
    cx.distinct.eval();
    if st != want {
        let (clause, entry) = match &last_kind {
            Last::Remove(k) => ("C13.release", entry_name(job.entry, k, "remove")),
            Last::AddFail => ("C13.atomic", "IPDiversityEnforcer::add_*".to_string()),
            _ => ("C13.count", "IPDiversityEnforcer::get_diversity_stats".to_string()),
        };
        let first = (0..14).find(|&i| st[i] != want[i]).unwrap();
        cx.run.violation_lazy(clause, feats(&[("entry", entry), ("shape", format!("stats-{}", STAT_NAMES[first]))]), || (wit(json!({"stats": st, "expected_from_admitted_multiset": want, "stat_names": STAT_NAMES, "admitted": r.admitted.iter().map(|k| k.label()).collect::<Vec<_>>()})), format!("get_diversity_stats().{} = {} but the admitted multiset gives {}", STAT_NAMES[first], st[first], want[first])));
    }
    let mut answers = Vec::with_capacity(job.kinds.len());
    for k in &job.kinds {
        let Ok(a) = analyse(&e, k) else { continue };
        let Ok(can) = catch(|| can_accept(&e, job.entry, &a)) else { continue };
        answers.push(can);
        let blocked = r.blocked_at(&job.cfg, k);
        let exp = blocked.is_none();
        cx.distinct.eval();
        if can == exp {
            continue;
        }
        if let (Last::Remove(rk), false) = (&last_kind, can) {
            cx.run.violation_lazy("C13.release", feats(&[("entry", entry_name(job.entry, rk, "remove")), ("family", rk.family().into()), ("shape", "slot-not-returned".into())]), || {
                (wit(json!({"removed": rk.label(), "probe": k.label(), "can_accept": can, "levels": r.levels_json(&job.cfg, k), "admitted": r.admitted.iter().map(|k| k.label()).collect::<Vec<_>>()})), format!("after removing {} the enforcer answers can_accept({}) = {can}, reference {exp}", rk.label(), k.label()))
            });
        } else if can {
            let (key, c, cap) = blocked.unwrap();
            cx.run.violation_lazy("C13.cap", feats(&[("entry", entry_name(job.entry, k, "can")), ("family", k.family().into()), ("level", key.name().into()), ("candidate", if k.attr.strict() { "hosting-or-vpn" } else { "regular" }.into())]), || {
                (wit(json!({"probe": k.label(), "can_accept": true, "levels": r.levels_json(&job.cfg, k), "network_size": r.size})), format!("can_accept({}) = true although {} holds {} (cap {})", k.label(), key.name(), c, cap))
            });
        } else {
            cx.run.violation_lazy("C13.live", feats(&[("entry", entry_name(job.entry, k, "can")), ("family", k.family().into()), ("candidate", if k.attr.strict() { "hosting-or-vpn" } else { "regular" }.into())]), || {
                (wit(json!({"probe": k.label(), "can_accept": false, "levels": r.levels_json(&job.cfg, k), "network_size": r.size})), format!("can_accept({}) = false although every level is below its cap", k.label()))
            });
        }
    }
    let obs = hash64(&(answers, st, lim));
    Some(((r.admitted.clone(), r.size), obs))
}

fn small_cfg(c64: usize, c48: usize, c32: usize, asn: usize) -> IPDiversityConfig {
    IPDiversityConfig {
        max_nodes_per_64: c64,
        max_nodes_per_48: c48,
        max_nodes_per_32: c32,
        max_nodes_per_ipv4_32: c64,
        max_nodes_per_ipv4_24: c48,
        max_nodes_per_ipv4_16: c32,
        max_per_ip_cap: c64, // per-IP limit = min(c64, max(1, floor(size * 0.005)))
        max_network_fraction: 0.005,
        max_nodes_per_asn: asn,
        enable_geolocation_check: false,
        min_geographic_diversity: 0,
    }
}

// ---------------------------------------------------------------------------------------------
// part (ii): DhtCoreEngine

#[derive(Clone, Copy, PartialEq, Eq, Debug)]
enum Fmt {
    Sock,
    IpOnly,
    Rendered,
}
impl Fmt {
    fn name(&self) -> &'static str {
        match self {
            Fmt::Sock => "ip:port",
            Fmt::IpOnly => "ip",
            Fmt::Rendered => "NetworkAddress::to_string()",
        }
    }
}
#[derive(Clone, Debug)]
struct ENode {
    x: u8,              // id = local id with byte 0 xor x
    ip: Option<IpAddr>, // None = garbage address string
    port: u16,
}
fn local_bytes() -> [u8; 32] {
    *blake3::hash(b"vh-c13-local").as_bytes()
}
fn idb(x: u8) -> [u8; 32] {
    let mut b = local_bytes();
    b[0] ^= x;
    b
}
fn addr_string(n: &ENode, f: Fmt) -> String {
    match n.ip {
        None => "not-an-address".to_string(),
        Some(ip) => match f {
            Fmt::Sock => SocketAddr::new(ip, n.port).to_string(),
            Fmt::IpOnly => ip.to_string(),
            Fmt::Rendered => NetworkAddress::new(SocketAddr::new(ip, n.port)).to_string(),
        },
    }
}
fn node_info(n: &ENode, f: Fmt) -> NodeInfo {
    NodeInfo { id: NodeId::from_bytes(idb(n.x)), address: addr_string(n, f), last_seen: SystemTime::UNIX_EPOCH + Duration::from_secs(1_700_000_000), capacity: NodeCapacity::default() }
}
async fn fresh_engine() -> DhtCoreEngine {
    let e = DhtCoreEngine::new(NodeId::from_bytes(local_bytes())).expect("engine");
    // production (DhtNetworkManager) uses LogOnly validation; the constructor for it is crate-private
    *e.close_group_validator().write().await = CloseGroupValidator::new(CloseGroupValidatorConfig::log_only());
    e
}
#[derive(Clone, Debug)]
enum EOp {
    Add(usize),
    Join(usize),
    Evict(usize),
    Fail(usize),
}
fn eop_json(o: &EOp, nodes: &[ENode], f: Fmt) -> Value {
    let d = |i: &usize| json!({"id_xor": format!("{:#04x}", nodes[*i].x), "address": addr_string(&nodes[*i], f)});
    match o {
        EOp::Add(i) => json!({"add_node": d(i)}),
        EOp::Join(i) => json!({"join_network": d(i)}),
        EOp::Evict(i) => json!({"evict_node": d(i)}),
        EOp::Fail(i) => json!({"handle_node_failure": d(i)}),
    }
}
fn err_stage(msg: &str) -> &'static str {
    if msg.contains("K-bucket") {
        "bucket-full"
    } else if msg.contains("IP diversity") {
        "ip-diversity"
    } else if msg.contains("Geographic") {
        "region"
    } else if msg.contains("close group") {
        "close-group"
    } else {
        "other"
    }
}
/// reference for the engine: the enforcer inside `DhtCoreEngine` is `IPDiversityConfig::default()`, network size 0
fn engine_kind(n: &ENode) -> Option<Kind> {
    n.ip.map(|ip| Kind { ip, attr: PLAIN })
}

struct EJob {
    fmt: Fmt,
    nodes: Vec<ENode>,
    ops: Vec<EOp>,
    depth: usize,
}

async fn table_listing(e: &DhtCoreEngine) -> BTreeSet<(u8, String)> {
    let l = e.find_nodes(&DhtKey::from_bytes(local_bytes()), 4096).await.unwrap_or_default();
    let lb = local_bytes();
    l.iter().map(|n| (n.id.as_bytes()[0] ^ lb[0], n.address.clone())).collect()
}

/// Replay `h` on a fresh engine and judge the last operation.
fn engine_step(cx: &Cx, job: &EJob, h: &[usize]) -> Option<(BTreeSet<(u8, String)>, u64)> {
    let rt = tokio::runtime::Builder::new_current_thread().enable_all().build().unwrap();
    rt.block_on(async {
        let cfg = IPDiversityConfig::default();
        let mut e = fresh_engine().await;
        // reference: table = x -> (node index, counted by the gate?)
        let mut table: BTreeMap<u8, (usize, bool)> = BTreeMap::new();
        let mut removals: BTreeSet<&'static str> = BTreeSet::new();
        let mut failed_inserts = 0usize; // admissions that failed after the IP gate (bucket full / region)
        let mut refused_refreshes = 0u8; // a refused refresh leaves the table as it was; kept in the canon so that such histories are extended
        let refstate = |table: &BTreeMap<u8, (usize, bool)>| {
            let mut r = RefState::default();
            for (_, (i, counted)) in table.iter() {
                if *counted {
                    if let Some(k) = engine_kind(&job.nodes[*i]) {
                        r.add(k);
                    }
                }
            }
            r
        };
        let wit = |extra: Value| json!({"part": "DhtCoreEngine", "address_format": job.fmt.name(), "enforcer_config": "IPDiversityConfig::default(), network size 0 (per-IP 1, /24 3, /16 10, /64 1, /48 3, /32 10)",
            "history": h.iter().map(|&i| eop_json(&job.ops[i], &job.nodes, job.fmt)).collect::<Vec<_>>(), "last": extra,
            "ids": "node id = blake3(\"vh-c13-local\") with byte 0 XOR id_xor; validator in LogOnly mode as in DhtNetworkManager"});
        for (pos, &oi) in h.iter().enumerate() {
            let last = pos + 1 == h.len();
            match &job.ops[oi] {
                EOp::Join(i) => {
                    let n = &job.nodes[*i];
                    if table.contains_key(&n.x) {
                        return None;
                    }
                    if e.join_network(vec![node_info(n, job.fmt)]).await.is_ok() {
                        table.insert(n.x, (*i, false));
                    }
                }
                EOp::Add(i) => {
                    let n = &job.nodes[*i];
                    // re-adding an admitted id: the identical instance is not explored; the same id announcing ANOTHER
                    // address is a refresh: its own result is not judged (admitting it with or without counting its old
                    // slots are both within the statement), but the reference follows what happened, so every later
                    // admission is judged against the entries that are really in the table
                    if let Some((j, true)) = table.get(&n.x).copied() {
                        if j == *i {
                            return None;
                        }
                        let ok = e.add_node(node_info(n, job.fmt)).await.is_ok();
                        if last {
                            cx.distinct.eval();
                            cx.distinct.outcome(&("engine-refresh", job.fmt.name(), ok));
                        }
                        if ok {
                            table.insert(n.x, (*i, engine_kind(n).is_some()));
                        } else {
                            refused_refreshes += 1;
                        }
                        continue;
                    }
                    let r = refstate(&table);
                    let kind = engine_kind(n);
                    let blocked = kind.as_ref().and_then(|k| r.blocked_at(&cfg, k));
                    let exp = blocked.is_none();
                    let res = match futures::FutureExt::catch_unwind(std::panic::AssertUnwindSafe(e.add_node(node_info(n, job.fmt)))).await {
                        Ok(r) => r,
                        Err(_) => {
                            cx.run.violation_lazy("C13.nopanic", feats(&[("entry", "DhtCoreEngine::add_node".into()), ("format", job.fmt.name().into())]), || (wit(json!({"candidate": addr_string(n, job.fmt)})), format!("add_node panicked for {:?}", addr_string(n, job.fmt))));
                            return None;
                        }
                    };
                    let ok = res.is_ok();
                    let stage = res.as_ref().err().map(|x| err_stage(&x.to_string())).unwrap_or("ok");
                    if last {
                        cx.distinct.eval();
                        cx.distinct.outcome(&("engine-add", job.fmt.name(), kind.map(|k| k.family()), exp, stage, blocked.as_ref().map(|b| b.0.name())));
                        let clean = removals.is_empty() && failed_inserts == 0;
                        if ok && !exp {
                            let (key, c, cap) = blocked.clone().unwrap();
                            let k = kind.unwrap();
                            // the gate never ran for this format if even the 2nd node of one IP / the cap+1-th of a subnet gets in
                            let clause = if job.fmt == Fmt::Rendered { "C13.gate" } else { "C13.cap" };
                            cx.run.violation_lazy(clause, feats(&[("entry", "DhtCoreEngine::add_node".into()), ("format", job.fmt.name().into()), ("family", k.family().into()), ("level", key.name().into())]), || {
                                (wit(json!({"candidate": addr_string(n, job.fmt), "returned": "Ok", "levels": r.levels_json(&cfg, &k)})), format!("add_node admitted {:?} although {} already holds {} admitted node(s) (cap {})", addr_string(n, job.fmt), key.name(), c, cap))
                            });
                        }
                        if !ok && exp && stage == "ip-diversity" {
                            let k = kind.unwrap();
                            // attribute from the witness: which earlier operations of this history could have left slots behind
                            let (clause, entry, shape) = if clean {
                                ("C13.live", "DhtCoreEngine::add_node".to_string(), "refused-below-caps".to_string())
                            } else if failed_inserts == 0 {
                                ("C13.release", removals.iter().copied().collect::<Vec<_>>().join("+"), "later-admission-refused".to_string())
                            } else if removals.is_empty() {
                                ("C13.atomic", "DhtCoreEngine::add_node".to_string(), "later-admission-refused".to_string())
                            } else {
                                ("", String::new(), String::new())
                            };
                            if !clause.is_empty() {
                                cx.run.violation_lazy(clause, feats(&[("entry", entry), ("family", k.family().into()), ("shape", shape)]), || {
                                    (wit(json!({"candidate": addr_string(n, job.fmt), "returned": res.as_ref().err().map(|x| x.to_string()), "levels_counting_nodes_in_table": r.levels_json(&cfg, &k)})), format!("add_node refused {:?} although the routing table holds no node that fills any of its levels", addr_string(n, job.fmt)))
                                });
                            } else {
                                cx.run.info("engine-refusal-with-mixed-earlier-causes");
                            }
                        }
                    }
                    if ok {
                        table.insert(n.x, (*i, kind.is_some()));
                    } else if stage == "bucket-full" || stage == "region" {
                        failed_inserts += 1;
                    }
                }
                EOp::Evict(i) | EOp::Fail(i) => {
                    let n = &job.nodes[*i];
                    let Some((_, counted)) = table.get(&n.x).copied() else { return None };
                    let is_evict = matches!(&job.ops[oi], EOp::Evict(_));
                    let name: &'static str = if is_evict { "DhtCoreEngine::evict_node" } else { "DhtCoreEngine::handle_node_failure" };
                    let id = NodeId::from_bytes(idb(n.x));
                    let _ = if is_evict { e.evict_node(&id, EvictionReason::Stale).await } else { e.handle_node_failure(id).await };
                    table.remove(&n.x);
                    if counted {
                        removals.insert(name);
                    }
                    if last && counted {
                        // C13.release: the same node is admissible again (if the reference says so)
                        let r = refstate(&table);
                        let k = engine_kind(n).unwrap();
                        if r.blocked_at(&cfg, &k).is_none() && failed_inserts == 0 {
                            let res = e.add_node(node_info(n, job.fmt)).await;
                            cx.distinct.eval();
                            cx.distinct.outcome(&("engine-readd", job.fmt.name(), k.family(), res.is_ok()));
                            if let Err(err) = &res {
                                if err_stage(&err.to_string()) == "ip-diversity" {
                                    cx.run.violation_lazy("C13.release", feats(&[("entry", removals.iter().copied().collect::<Vec<_>>().join("+")), ("family", k.family().into()), ("shape", "same-node-not-readmitted".into())]), || {
                                        (wit(json!({"then": {"add_node": addr_string(n, job.fmt)}, "returned": err.to_string(), "levels_counting_nodes_in_table": r.levels_json(&cfg, &k)})), format!("after {name} of the node at {:?} the same node is refused: {err}", addr_string(n, job.fmt)))
                                    });
                                }
                            }
                            // state is discarded after the step; canon below uses the table before this probe
                            let listing: BTreeSet<(u8, String)> = table.iter().map(|(x, (i, _))| (*x, addr_string(&job.nodes[*i], job.fmt))).collect();
                            return Some((listing.clone(), hash64(&listing)));
                        }
                    }
                }
            }
        }
        let listing = table_listing(&e).await;
        let want: BTreeSet<(u8, String)> = table.iter().map(|(x, (i, _))| (*x, addr_string(&job.nodes[*i], job.fmt))).collect();
        if listing != want {
            cx.run.info("engine-table-differs-from-reference (C02 territory; state not judged further)");
        }
        let obs = hash64(&listing);
        let mut want = want;
        if refused_refreshes > 0 {
            want.insert((0, format!("~{}-refused-refresh", refused_refreshes.min(2))));
        }
        Some((want, obs))
    })
}

/// Full-bucket script: 8 peers fill bucket 1, the 9th insert fails after the gate; its slots must not be consumed.
fn full_bucket_script(cx: &Cx, v6fam: bool, fmt: Fmt) -> u64 {
    let rt = tokio::runtime::Builder::new_current_thread().enable_all().build().unwrap();
    rt.block_on(async {
        let ipn = |j: u8, host: u8| -> IpAddr { if v6fam { IpAddr::V6(Ipv6Addr::new(0x2400 + j as u16, 1, 1, 1, 0, 0, 0, host as u16)) } else { IpAddr::V4(Ipv4Addr::new(20 + j, 1, 1, host)) } };
        let fill: Vec<ENode> = (0..8u8).map(|j| ENode { x: 0x40 + j, ip: Some(ipn(j, 1)), port: 9000 }).collect();
        let ninth = ENode { x: 0x48, ip: Some(ipn(40, 1)), port: 9000 };
        // the probe shares the 9th's most specific level (same IPv4 address / same IPv6 /64), lives in another bucket
        let probe = ENode { x: 0x80, ip: Some(if v6fam { ipn(40, 2) } else { ipn(40, 1) }), port: 9001 };
        let mut steps = 0u64;
        let fam = if v6fam { "ipv6" } else { "ipv4" };
        let mut outcomes: Vec<(bool, String)> = Vec::new();
        for with_failed_insert in [false, true] {
            let mut e = fresh_engine().await;
            let mut hist: Vec<Value> = Vec::new();
            for n in &fill {
                let r = e.add_node(node_info(n, fmt)).await;
                hist.push(json!({"add_node": addr_string(n, fmt), "id_xor": format!("{:#04x}", n.x), "ok": r.is_ok()}));
                steps += 1;
            }
            if with_failed_insert {
                let r = e.add_node(node_info(&ninth, fmt)).await;
                let stage = r.as_ref().err().map(|x| err_stage(&x.to_string())).unwrap_or("ok");
                hist.push(json!({"add_node": addr_string(&ninth, fmt), "id_xor": "0x48", "ok": r.is_ok(), "error": r.as_ref().err().map(|x| x.to_string())}));
                steps += 1;
                if stage != "bucket-full" {
                    cx.run.info("full-bucket-script: 9th insert did not fail at the bucket (script not applicable)");
                    return steps;
                }
            }
            let r = e.add_node(node_info(&probe, fmt)).await;
            steps += 1;
            cx.distinct.eval();
            cx.distinct.outcome(&("full-bucket-probe", fam, with_failed_insert, r.is_ok()));
            outcomes.push((r.is_ok(), r.as_ref().err().map(|x| x.to_string()).unwrap_or_default()));
            if with_failed_insert && outcomes[0].0 && !outcomes[1].0 {
                let err = outcomes[1].1.clone();
                cx.run.violation_lazy("C13.atomic", feats(&[("entry", "DhtCoreEngine::add_node".into()), ("stage", "bucket-full".into()), ("family", fam.into()), ("shape", "slots-consumed-by-failed-insert".into())]), || {
                    (json!({"part": "DhtCoreEngine", "address_format": fmt.name(), "history": hist, "then": {"add_node": addr_string(&probe, fmt), "id_xor": "0x80"}, "returned": err, "without_the_failed_insert": "the same add_node returns Ok"}),
                     format!("a 9th insert into a full bucket failed but kept its IP slots: {:?} is now refused ({err})", addr_string(&probe, fmt)))
                });
            }
            if with_failed_insert {
                // retry of the 9th peer itself after room was made
                let mut e2 = fresh_engine().await;
                for n in &fill {
                    let _ = e2.add_node(node_info(n, fmt)).await;
                }
                let _ = e2.add_node(node_info(&ninth, fmt)).await;
                let _ = e2.evict_node(&NodeId::from_bytes(idb(fill[0].x)), EvictionReason::Stale).await;
                let r2 = e2.add_node(node_info(&ninth, fmt)).await;
                steps += 11;
                cx.distinct.eval();
                cx.distinct.outcome(&("full-bucket-retry", fam, r2.is_ok()));
                if let Err(err) = &r2 {
                    if err_stage(&err.to_string()) == "ip-diversity" {
                        cx.run.violation_lazy("C13.atomic", feats(&[("entry", "DhtCoreEngine::add_node".into()), ("stage", "bucket-full".into()), ("family", fam.into()), ("shape", "retry-refused-by-own-stale-slot".into())]), || {
                            (json!({"part": "DhtCoreEngine", "address_format": fmt.name(), "history": hist, "then": [{"evict_node": format!("{:#04x}", fill[0].x)}, {"add_node": addr_string(&ninth, fmt)}], "returned": err.to_string()}),
                             format!("the peer whose insert failed at a full bucket is refused on retry by its own stale slot: {err}"))
                        });
                    }
                }
            }
        }
        steps
    })
}

// ---------------------------------------------------------------------------------------------
// part (iii): BootstrapManager

struct BJob {
    name: &'static str,
    cfg: IPDiversityConfig,
    addrs: Vec<IpAddr>,
    depth: usize,
}
static SCRATCH_SEQ: AtomicU64 = AtomicU64::new(0);
fn scratch_root() -> String {
    format!("/dev/shm/vh-c13-{}", std::process::id())
}

fn bootstrap_step(cx: &Cx, job: &BJob, h: &[usize]) -> Option<(Vec<IpAddr>, u64)> {
    let dir = format!("{}/b{}", scratch_root(), SCRATCH_SEQ.fetch_add(1, Ordering::Relaxed));
    let rt = tokio::runtime::Builder::new_current_thread().enable_all().build().unwrap();
    let out = rt.block_on(async {
        let big = 1_000_000u32;
        let cfg = BootstrapConfig {
            cache_dir: dir.clone().into(),
            max_peers: 1000,
            epsilon: 0.0,
            rate_limit: JoinRateLimiterConfig { max_joins_per_64_per_hour: big, max_joins_per_48_per_hour: big, max_joins_per_24_per_hour: big, max_global_joins_per_minute: big, global_burst_size: big },
            diversity: job.cfg.clone(),
        };
        let m = match BootstrapManager::with_config(cfg).await {
            Ok(m) => m,
            Err(e) => {
                cx.run.machinery_error(format!("BootstrapManager::with_config failed: {e}"));
                return None;
            }
        };
        let mut r = RefState::default();
        let wit = |extra: Value| json!({"part": "BootstrapManager", "job": job.name, "diversity_config": cfg_json(&job.cfg), "rate_limit": "1e6 everywhere (never binds)",
            "history": h.iter().enumerate().map(|(n, &i)| json!({"add_peer": format!("{}:9000", job.addrs[i]), "peer_id": format!("peer-{n}")})).collect::<Vec<_>>(), "last": extra});
        for (pos, &ai) in h.iter().enumerate() {
            let last = pos + 1 == h.len();
            let ip = job.addrs[ai];
            let k = Kind { ip, attr: PLAIN };
            let blocked = r.blocked_at(&job.cfg, &k);
            let exp = blocked.is_none();
            let res = m.add_peer(format!("peer-{pos}"), vec![SocketAddr::new(ip, 9000)]).await;
            let (ok, msg) = match &res {
                Ok(()) => (true, String::new()),
                Err(e) => (false, e.to_string()),
            };
            if !ok && !msg.contains("IP diversity") {
                cx.run.info("bootstrap-add_peer-refused-for-another-reason");
                return None;
            }
            if last {
                cx.distinct.eval();
                cx.distinct.outcome(&("bootstrap", k.family(), exp, ok, blocked.as_ref().map(|b| b.0.name())));
                if ok && !exp {
                    let (key, c, cap) = blocked.clone().unwrap();
                    cx.run.violation_lazy("C13.cap", feats(&[("entry", "BootstrapManager::add_peer".into()), ("family", k.family().into()), ("level", key.name().into())]), || {
                        (wit(json!({"candidate": ip.to_string(), "returned": "Ok", "levels": r.levels_json(&job.cfg, &k)})), format!("add_peer admitted {ip} although {} already holds {c} (cap {cap})", key.name()))
                    });
                }
                if !ok && exp {
                    // closest relation to an admitted peer of the same family (derived from the witness)
                    let rel = keys_of(&k).iter().find(|key| r.count(key) > 0).map(|key| format!("shares-{}", key.name())).unwrap_or_else(|| "shares-no-level-with-any-admitted-peer".into());
                    cx.run.violation_lazy("C13.live", feats(&[("entry", "BootstrapManager::add_peer".into()), ("family", k.family().into()), ("relation", rel)]), || {
                        (wit(json!({"candidate": ip.to_string(), "returned": msg, "levels": r.levels_json(&job.cfg, &k), "admitted": r.admitted.iter().map(|k| k.ip.to_string()).collect::<Vec<_>>()})), format!("add_peer refused {ip} ({msg}) although every level of it is below its cap"))
                    });
                }
            }
            if ok {
                r.add(k);
            }
        }
        let canon: Vec<IpAddr> = r.admitted.iter().map(|k| k.ip).collect();
        let obs = hash64(&(canon.clone(), m.peer_count().await));
        Some((canon, obs))
    });
    drop(rt);
    let _ = std::fs::remove_dir_all(&dir);
    out
}

// ---------------------------------------------------------------------------------------------

fn main() {
    let run = Run::new("C13", "model_checking");
    quiet_panics();
    let distinct = Distinct::default();
    let cx = Cx { run: &run, distinct: &distinct };
    let quick = run.tier == Tier::Quick;
    let budget = Budget::new(Duration::from_secs(run.tier.pick(50, 1500)));
    let _ = std::fs::create_dir_all(scratch_root());
    // development aid: VH_C13_PARTS=i,ii,iii selects parts (default all; a partial run is reported as a cap)
    let parts = std::env::var("VH_C13_PARTS").unwrap_or_else(|_| "i,ii,iii".into());
    let part_on = |p: &str| parts.split(',').any(|x| x == p);
    if parts != "i,ii,iii" {
        run.cap_hit(format!("only parts {parts} were run (VH_C13_PARTS)"));
    }

    let mut states = 0u64;
    let mut transitions = 0u64;
    let mut samples: Vec<Value> = Vec::new();
    let mut job_reports: Vec<Value> = Vec::new();
    let mut all_exhaustive = true;
    let merge_mismatches = AtomicU64::new(0);

    // ---- (i) enforcer jobs ---------------------------------------------------------------------
    let k6 = |n: usize, attrs: &[Attr]| -> Vec<Kind> { (0..n).flat_map(|i| attrs.iter().map(move |a| Kind::k6(i, *a))).collect() };
    let k4 = |n: usize, attrs: &[Attr]| -> Vec<Kind> { (0..n).flat_map(|i| attrs.iter().map(move |a| Kind::k4(i, *a))).collect() };
    let two = [PLAIN, HOST_ASN];
    let three = [PLAIN, HOST, HOST_ASN];
    let five = [PLAIN, HOST, ASN_ONLY, HOST_ASN, VPN_ASN];
    let sizes_all = [0usize, 200, 1000, 20_000];
    let mut jobs: Vec<Job> = Vec::new();
    let deep = run.tier.pick(6, 9);
    let dflt = IPDiversityConfig::default;
    jobs.push(Job::new("default/v6/direct", dflt(), Entry::Direct, k6(7, if quick { &two } else { &five }), &[], 24));
    jobs.push(Job::new("default/v6/unified", dflt(), Entry::Unified, k6(7, if quick { &two } else { &three }), &[], 24));
    jobs.push(Job::new("default/v4", dflt(), Entry::Unified, if quick { k4(6, &two) } else { k4(6, &[PLAIN, HOST, HOST_ASN, VPN_ASN]) }, &sizes_all, run.tier.pick(4, 6)));
    // mixed: the ASN counter is shared between the families
    let mixed = vec![Kind::k6(0, ASN_ONLY), Kind::k6(4, HOST_ASN), Kind::k4(0, ASN_ONLY), Kind::k4(3, HOST_ASN), Kind::k4(3, ASN_ONLY)];
    jobs.push(Job::new("default-asn3/mixed", IPDiversityConfig { max_nodes_per_asn: 3, ..dflt() }, Entry::Unified, mixed.clone(), &[0, 1000], 12));
    jobs.push(Job::new("small(2,3,3)-asn4/mixed", small_cfg(2, 3, 3, 4), Entry::Unified, mixed.clone(), &[0, 1000], 12));
    let mut triples: Vec<(usize, usize, usize)> = Vec::new();
    for c64 in 1..=3 {
        for c48 in 1..=3 {
            for c32 in 1..=3 {
                triples.push((c64, c48, c32));
            }
        }
    }
    if !quick {
        triples.extend([(4, 4, 4), (2, 4, 4), (4, 2, 4), (4, 4, 2)]); // halving 4 -> 2
    }
    for &(c64, c48, c32) in &triples {
        let cfg = small_cfg(c64, c48, c32, 2);
        let big = c64 > 3 || c48 > 3 || c32 > 3;
        jobs.push(Job::new(&format!("small({c64},{c48},{c32})/v6/direct"), cfg.clone(), Entry::Direct, k6(5, if quick || big { &two } else { &five }), &[], 24));
        if !quick {
            jobs.push(Job::new(&format!("small({c64},{c48},{c32})/v6/unified"), cfg.clone(), Entry::Unified, k6(5, &two), &[], 24));
        }
        jobs.push(Job::new(&format!("small({c64},{c48},{c32})/v4"), cfg, Entry::Unified, if quick || big { k4(4, &two) } else { k4(6, &three) }, &[0, 1000], 24));
    }
    let few = vec![Kind::k6(0, PLAIN), Kind::k6(1, HOST_ASN), Kind::k6(3, PLAIN), Kind::k4(0, PLAIN), Kind::k4(1, HOST_ASN)];
    jobs.push(Job::new("testnet/mixed", IPDiversityConfig::testnet(), Entry::Unified, few.clone(), &[0, 20_000], deep));
    jobs.push(Job::new("permissive/mixed", IPDiversityConfig::permissive(), Entry::Unified, few.clone(), &[0, 20_000], deep));
    jobs.push(Job::new("testnet/v6/direct", IPDiversityConfig::testnet(), Entry::Direct, vec![Kind::k6(0, PLAIN), Kind::k6(1, HOST_ASN), Kind::k6(4, HOST)], &[], deep + 2));

    let t_i = std::time::Instant::now();
    let mut steps_i = 0u64;
    if !part_on("i") {
        jobs.clear();
    }
    for job in &jobs {
        if budget.exceeded() {
            all_exhaustive = false;
            break;
        }
        let st = bfs(
            job.ops.len(),
            job.depth,
            &budget,
            |h| enforcer_step(&cx, job, h),
            |_a, _b| {
                merge_mismatches.fetch_add(1, Ordering::Relaxed);
            },
        );
        states += st.states;
        transitions += st.transitions;
        steps_i += st.transitions;
        if !st.fixpoint {
            all_exhaustive = false;
        }
        if samples.len() < 3 {
            if let Some(hh) = st.sample_histories.last() {
                samples.push(json!({"part": "enforcer", "job": job.name, "history": hh.iter().map(|&i| op_json(&job.ops[i])).collect::<Vec<_>>()}));
            }
        }
        job_reports.push(json!({"part": "i", "job": job.name, "ops": job.ops.len(), "depth_bound": job.depth, "completed_depth": st.completed_depth, "fixpoint": st.fixpoint, "states": st.states, "transitions": st.transitions, "revisits_compared": st.revisits}));
    }
    let wall_i = t_i.elapsed().as_secs_f64();

    // ---- (ii) engine jobs ----------------------------------------------------------------------
    let t_ii = std::time::Instant::now();
    let enodes: Vec<ENode> = vec![
        ENode { x: 0x80, ip: Some(IpAddr::V4(Ipv4Addr::new(10, 1, 1, 1))), port: 9000 },
        ENode { x: 0x40, ip: Some(IpAddr::V4(Ipv4Addr::new(10, 1, 1, 1))), port: 9001 }, // same IPv4 address as the first
        ENode { x: 0x20, ip: Some(IpAddr::V4(Ipv4Addr::new(10, 1, 1, 2))), port: 9000 },
        ENode { x: 0x10, ip: Some(IpAddr::V4(Ipv4Addr::new(10, 1, 1, 3))), port: 9000 },
        ENode { x: 0x08, ip: Some(IpAddr::V4(Ipv4Addr::new(10, 1, 1, 4))), port: 9000 }, // 4th address of the /24 (cap 3)
        ENode { x: 0x04, ip: Some(IpAddr::V6(v6(0, PLAIN))), port: 9000 },
        ENode { x: 0x02, ip: Some(IpAddr::V6(v6(1, PLAIN))), port: 9000 }, // same /64 (cap 1)
        ENode { x: 0x01, ip: None, port: 0 },                              // garbage address string
        ENode { x: 0x80, ip: Some(IpAddr::V4(Ipv4Addr::new(10, 1, 1, 2))), port: 9002 }, // the FIRST id re-announcing from the third node's IP
    ];
    let mut ejobs: Vec<EJob> = Vec::new();
    for fmt in [Fmt::Sock, Fmt::IpOnly, Fmt::Rendered] {
        let mut ops = Vec::new();
        for i in 0..enodes.len() {
            ops.push(EOp::Add(i));
        }
        let removable: Vec<usize> = (0..enodes.len() - 1).collect(); // the re-announcing instance shares its id with node 0
        for &i in &removable {
            ops.push(EOp::Evict(i));
        }
        for &i in &removable {
            ops.push(EOp::Fail(i));
        }
        ops.push(EOp::Join(1));
        ops.push(EOp::Join(6));
        ejobs.push(EJob { fmt, nodes: enodes.clone(), ops, depth: 16 });
    }
    if !part_on("ii") {
        ejobs.clear();
    }
    for job in &ejobs {
        if budget.exceeded() {
            all_exhaustive = false;
            break;
        }
        let st = bfs(
            job.ops.len(),
            job.depth,
            &budget,
            |h| engine_step(&cx, job, h),
            |_a, _b| {
                merge_mismatches.fetch_add(1, Ordering::Relaxed);
            },
        );
        states += st.states;
        transitions += st.transitions;
        if !st.fixpoint {
            all_exhaustive = false;
        }
        if let Some(hh) = st.sample_histories.last() {
            if samples.len() < 5 {
                samples.push(json!({"part": "DhtCoreEngine", "format": job.fmt.name(), "history": hh.iter().map(|&i| eop_json(&job.ops[i], &job.nodes, job.fmt)).collect::<Vec<_>>()}));
            }
        }
        job_reports.push(json!({"part": "ii", "format": job.fmt.name(), "ops": job.ops.len(), "depth_bound": job.depth, "completed_depth": st.completed_depth, "fixpoint": st.fixpoint, "states": st.states, "transitions": st.transitions}));
    }
    let scripts: Vec<(bool, Fmt)> = if part_on("ii") { vec![(false, Fmt::Sock), (true, Fmt::Sock), (false, Fmt::IpOnly), (true, Fmt::IpOnly)] } else { vec![] };
    let script_steps = AtomicU64::new(0);
    par_for(scripts.len(), |i| {
        let (v6fam, fmt) = scripts[i];
        script_steps.fetch_add(full_bucket_script(&cx, v6fam, fmt), Ordering::Relaxed);
    });
    let script_steps = script_steps.into_inner();
    states += script_steps;
    transitions += script_steps;
    let wall_ii = t_ii.elapsed().as_secs_f64();

    // ---- (iii) bootstrap jobs ------------------------------------------------------------------
    let t_iii = std::time::Instant::now();
    let b4: Vec<IpAddr> = vec![v4(0), v4(1), v4(2), v4(3), Ipv4Addr::new(192, 0, 2, 7)].into_iter().map(IpAddr::V4).collect();
    let b6: Vec<IpAddr> = (0..5).map(|i| IpAddr::V6(v6(i, PLAIN))).collect();
    let mut both = b4.clone();
    both.extend(b6.iter().copied());
    let wide64 = IPDiversityConfig { max_nodes_per_64: 100, max_nodes_per_48: 100, max_nodes_per_32: 100, ..IPDiversityConfig::default() };
    // one BootstrapManager costs ~25 ms CPU (ant-quic cache open), so the quick alphabets are smaller
    let some: Vec<IpAddr> = if quick { vec![b4[0], b4[1], b4[2], b4[3], b6[0], b6[1], b6[4]] } else { both.clone() };
    let mut bjobs = vec![
        BJob { name: "default", cfg: IPDiversityConfig::default(), addrs: some.clone(), depth: 12 },
        BJob { name: "wide-ipv6-caps/ipv4-addresses", cfg: wide64, addrs: b4.clone(), depth: run.tier.pick(4, 7) },
        BJob { name: "small(2,3,3)", cfg: small_cfg(2, 3, 3, 2), addrs: some.clone(), depth: run.tier.pick(3, 6) },
    ];
    if !part_on("iii") {
        bjobs.clear();
    }
    for job in &bjobs {
        if budget.exceeded() {
            all_exhaustive = false;
            break;
        }
        let st = bfs(
            job.addrs.len(),
            job.depth,
            &budget,
            |h| bootstrap_step(&cx, job, h),
            |_a, _b| {
                merge_mismatches.fetch_add(1, Ordering::Relaxed);
            },
        );
        states += st.states;
        transitions += st.transitions;
        if !st.fixpoint {
            all_exhaustive = false;
        }
        if let Some(hh) = st.sample_histories.last() {
            if samples.len() < 6 {
                samples.push(json!({"part": "BootstrapManager", "job": job.name, "history": hh.iter().map(|&i| json!({"add_peer": job.addrs[i].to_string()})).collect::<Vec<_>>()}));
            }
        }
        job_reports.push(json!({"part": "iii", "job": job.name, "ops": job.addrs.len(), "depth_bound": job.depth, "completed_depth": st.completed_depth, "fixpoint": st.fixpoint, "states": st.states, "transitions": st.transitions}));
    }
    let wall_iii = t_iii.elapsed().as_secs_f64();
    let _ = std::fs::remove_dir_all(scratch_root());

    // ---- part (ii-c): concurrent removals. evict_node takes &self, so two removals of the same entry (eviction by the
    // maintenance loop and by the security coordinator, say) can run interleaved at the scheduling points of the slot
    // release path (verif-hooks yields). However they interleave, the entry's slots are returned exactly once.
    let t_iic = std::time::Instant::now();
    let mut iic_steps = 0u64;
    {
        let rt = tokio::runtime::Builder::new_current_thread().enable_all().build().unwrap();
        for yields in [1u32, 2, 3] {
            for (fam, ips) in [("ipv4", ["10.9.1.1", "10.9.1.2", "10.9.1.3", "10.9.1.4", "10.9.1.5"]), ("ipv6", ["2001:db8:9:1::1", "2001:db8:9:2::1", "2001:db8:9:3::1", "2001:db8:9:4::1", "2001:db8:9:5::1"])] {
                for removers in [2usize, 3] {
                    rt.block_on(async {
                        saorsa_core::verif_hooks::set_sched_yields(yields);
                        // cap of the shared level: /24 = 3 (IPv4), /48 = 3 (IPv6, distinct /64s)
                        let mk = |k: usize| NodeInfo { id: NodeId::from_bytes(idb(0x80 >> k)), address: SocketAddr::new(ips[k].parse().unwrap(), 9000).to_string(), last_seen: SystemTime::UNIX_EPOCH + Duration::from_secs(1_700_000_000), capacity: NodeCapacity::default() };
                        // add_node takes &mut self: build the table before sharing the engine
                        let mut admitted = Vec::new();
                        let mut eng = fresh_engine().await;
                        for k in 0..3 {
                            admitted.push(eng.add_node(mk(k)).await.is_ok());
                        }
                        let fourth_refused_before = eng.add_node(mk(3)).await.is_err();
                        let eng = std::sync::Arc::new(eng);
                        let victim = NodeId::from_bytes(idb(0x80));
                        let mut hs = Vec::new();
                        for _ in 0..removers {
                            let (e2, v2) = (eng.clone(), victim.clone());
                            hs.push(tokio::spawn(async move { e2.evict_node(&v2, EvictionReason::Stale).await.is_ok() }));
                        }
                        for h in hs {
                            let _ = h.await;
                        }
                        saorsa_core::verif_hooks::set_sched_yields(0);
                        let mut eng = match std::sync::Arc::try_unwrap(eng) {
                            Ok(x) => x,
                            Err(_) => {
                                run.machinery_error("engine still shared after the removers finished");
                                return;
                            }
                        };
                        let fourth = eng.add_node(mk(3)).await.is_ok();
                        let fifth = eng.add_node(mk(4)).await.is_ok();
                        iic_steps += 1;
                        cx.distinct.eval();
                        cx.distinct.outcome(&("concurrent-evict", fam, removers, yields, fourth, fifth));
                        let wit = json!({"part": "DhtCoreEngine, concurrent removals", "admitted_first": admitted, "fourth_refused_while_full": fourth_refused_before, "concurrent_evict_node_calls_on_the_first_peer": removers,
                                         "yields_per_scheduling_point": yields, "then_fourth_admitted": fourth, "then_fifth_admitted": fifth, "addresses": ips});
                        if admitted.iter().all(|a| *a) && fourth_refused_before {
                            if !fourth {
                                run.violation_lazy("C13.release", feats(&[("entry", "DhtCoreEngine::evict_node x N concurrently".into()), ("family", fam.into()), ("shape", "slot-not-returned".into())]), || (wit.clone(), "after concurrent evictions of one peer its slot was not returned".to_string()));
                            } else if fifth {
                                run.violation_lazy("C13.cap", feats(&[("entry", "DhtCoreEngine::evict_node x N concurrently".into()), ("family", fam.into()), ("level", "shared-subnet".into()), ("shape", "slots-returned-more-than-once".into())]), || (wit.clone(), "concurrent evictions of ONE peer freed more than one slot: the subnet now holds one node more than its cap".to_string()));
                            }
                        } else {
                            run.info("concurrent-evict family: set-up did not fill the level (not judged)");
                        }
                    });
                }
            }
        }
    }
    let wall_iic = t_iic.elapsed().as_secs_f64();
    states += iic_steps;
    transitions += iic_steps;

    // ---- part (iv): integrated path. Peers dial a real node over the in-memory socket: accept loop ->
    // register_new_peer -> handle_peer_connected -> DhtCoreEngine::add_node with the library-rendered address.
    // The admitted sequence must equal what a fresh enforcer (verified against the counting reference in part
    // (i)) decides for the same address sequence, and a peer evicted for failure can be admitted again.
    let t_iv = std::time::Instant::now();
    let mut iv_steps = 0u64;
    {
        use saorsa_core::security::{IPDiversityConfig, IPDiversityEnforcer};
        use saorsa_core::verif_hooks::VerifSocket;
        use vh::netsim::*;
        let seqs: Vec<(&str, Vec<String>)> = vec![
            ("ten-hosts-of-one-/24", (1..=10).map(|h| format!("10.1.1.{h}:9000")).collect()),
            ("same-host-six-ports", (0..6).map(|p| format!("10.2.2.2:{}", 9000 + p)).collect()),
            ("twelve-/24s-of-one-/16", (1..=12).map(|c| format!("10.3.{c}.1:9000")).collect()),
            ("six-hosts-of-one-ipv6-/64", (1..=6).map(|h| format!("[2001:db8:1:1::{h}]:9000")).collect()),
            ("mixed", vec!["10.4.1.1:9000".into(), "[2001:db8:2:1::1]:9000".into(), "10.4.1.2:9000".into(), "10.4.1.3:9000".into(), "10.4.1.4:9000".into(), "172.16.0.1:9000".into()]),
        ];
        for (name, addrs) in &seqs {
            let rt = paused_runtime();
            rt.block_on(async {
                saorsa_core::verif_hooks::clear_sockets();
                let world = World::new();
                let node = make_node(&world, 0, &NodeSpec { tid: tid_with_prefix(1, 4, 0), app_id: Some(app_id_with_prefix(1, 4, 100)), k: 8 }).await;
                let mut reference = IPDiversityEnforcer::new(IPDiversityConfig::default());
                let mut want: Vec<bool> = Vec::new();
                let mut got: Vec<bool> = Vec::new();
                let mut tids_iv: Vec<[u8; 32]> = Vec::new();
                for (i, a) in addrs.iter().enumerate() {
                    let sa: std::net::SocketAddr = a.parse().unwrap();
                    // expected by the enforcer on its own
                    let ok = match reference.analyze_unified(sa.ip()) {
                        Ok(an) => {
                            if reference.can_accept_unified(&an) {
                                let _ = reference.add_unified(&an);
                                true
                            } else {
                                false
                            }
                        }
                        Err(_) => true,
                    };
                    want.push(ok);
                    // a scripted peer at that address dials the node; ids spread over the key space so no bucket fills
                    let tid = tid_with_prefix((2 + i as u32) % 16, 4, 700 + i as u32);
                    let sock = world.add_endpoint(tid, sa, true);
                    let _ = sock.connect(&[node.addr]).await;
                    settle().await;
                    settle().await;
                    tids_iv.push(tid);
                    iv_steps += 1;
                    cx.distinct.eval();
                }
                // routing-table membership is observed after disconnecting every peer: a disconnected peer is listed by
                // the node's local closest-node view only if it is in the routing table (under its key alias)
                for t in &tids_iv {
                    let _ = node.mgr.transport().disconnect_peer(&hex::encode(t)).await;
                }
                settle().await;
                settle().await;
                let listed: std::collections::BTreeSet<String> = node.mgr.find_closest_nodes_local(&[0u8; 32], 64).await.into_iter().map(|n| n.peer_id).collect();
                for t in &tids_iv {
                    got.push(listed.contains(&hex::encode(dht_key_of(&hex::encode(t)))));
                }
                cx.distinct.outcome(&("iv", *name, &got));
                if want != got {
                    let shape = if got.iter().zip(want.iter()).any(|(g, w)| *g && !*w) { "admitted-beyond-the-cap" } else { "refused-below-the-cap" };
                    let clause = if shape == "admitted-beyond-the-cap" { "C13.gate" } else { "C13.live" };
                    run.violation_lazy(clause, feats(&[("entry", "accept->handle_peer_connected->add_node".into()), ("shape", shape.into()), ("sequence", name.to_string())]), || {
                        (json!({"peer_addresses_in_dial_order": addrs, "admitted_into_routing_table": got, "enforcer_alone_decides": want}), format!("{name}: routing table admitted {got:?}, the diversity rules say {want:?}"))
                    });
                }
            });
        }
    }
    let wall_iv = t_iv.elapsed().as_secs_f64();
    states += iv_steps;
    transitions += iv_steps;

    let mm = merge_mismatches.into_inner();
    if mm > 0 {
        // every observable is compared with the reference directly, so a merge mismatch without any clause
        // violation would mean the canonical form is wrong
        if run.violation_count() == 0 {
            run.machinery_error(format!("{mm} canonicalisation mismatches without any clause violation"));
        } else {
            run.info_n("merge-mismatches (histories with equal admitted multiset, different observable answers)", mm);
        }
    }
    if budget.was_hit() {
        run.cap_hit(format!("wall-clock budget; {} of {} jobs completed", job_reports.len(), jobs.len() + ejobs.len() + bjobs.len()));
        if job_reports.is_empty() {
            run.machinery_error("not even the first job completed");
        }
    }
    eprintln!("C13 timing: (i) {wall_i:.1}s {steps_i} transitions, (ii) {wall_ii:.1}s, (iii) {wall_iii:.1}s, (iv) {wall_iv:.1}s {iv_steps} dials");

    let coverage = cov(vec![
        ("states", json!(states)),
        ("transitions", json!(transitions)),
        ("traces_validated_against_impl", json!(transitions)),
        ("samples", json!(samples)),
        ("exhaustive", json!(!budget.was_hit())),
        ("evaluations", json!(distinct.evaluations())),
        ("distinct_nontrivial", json!(distinct.distinct())),
        ("rule", json!("evaluation = one admission / can_accept / stats / limit answer of the real object compared with the admitted-multiset reference; distinct = distinct (entry, family, attributes, expected, observed, blocking level) tuples")),
        ("bounds", json!({"jobs": job_reports, "all_jobs_reached_fixpoint": all_exhaustive, "full_bucket_script_steps": script_steps,
                           "wall_s": {"i": wall_i, "ii": wall_ii, "ii-c": wall_iic, "iii": wall_iii, "iv": wall_iv}, "integrated_path_dials": iv_steps, "concurrent_removal_runs": iic_steps,
                           "note": "exhaustive = every job explored completely up to its stated depth bound (fix-point where the caps bound the state space)"})),
    ]);
    run.finish(
        coverage,
        vec![
            "every transition is an execution of the real IPDiversityEnforcer / DhtCoreEngine / BootstrapManager rebuilt by replay; reference = multiset of instances whose admission returned Ok".into(),
            "caps are evaluated at admission time for the candidate (halved, min 1, for hosting/VPN candidates at every level including the ASN level); shrinking the network size later is not a violation".into(),
            "IPv4 caps (weakest reading, DESIGN): per-IP = min(max_per_ip_cap, max(1, floor(size*fraction))), /24 = min(configured, 3*per-IP), /16 = min(configured, 10*per-IP); the field max_nodes_per_ipv4_32 is not consulted by the library and not by the oracle".into(),
            "IPv4 ASN/hosting attributes are set on the public IPv4Analysis fields (analyze_ipv4 never fills them)".into(),
            "only admitted instances are removed; an admitted id re-announcing from another address (refresh) is explored: its own result is not judged, the reference follows it and later admissions are judged against the entries really in the table; garbage address strings carry no expectation beyond no-panic".into(),
            "(ii) the engine's enforcer is not observable: admissibility is observed through add_node results only; C13.release/C13.atomic attribution of a later refusal is derived from the operations present in the witness history".into(),
            "(ii) the region cap (50 per region, never decremented either) is not reachable in these histories and not judged".into(),
            "below the 50k LRU bound only; part (iv): five dial sequences into a real node over the in-memory socket, admitted sequence compared with a fresh enforcer".into(),
        ],
    );
}
