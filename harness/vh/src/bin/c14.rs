//! C14 — join and request rate limits hold for every arrival pattern.
//!
//! Part 1 (E2): explicit-state BFS over arrival histories on real limiters rebuilt by replay:
//!   family J: `JoinRateLimiter::check_join_allowed` over 9 addresses (shared /64, /48, /32; shared /24, /16) x 5 configurations,
//!   family I: `validation::RateLimiter::check_ip` over 4 IPs x 4 configurations,
//!   family E: `rate_limit::Engine::{try_consume_global, try_consume_key}` over {global, 3 keys} x 5 configurations,
//!   family T: timed histories on `Engine` with one real sleep (refill earned over measured time).
//! Reference = one (tokens, window count) pair per bucket; an attempt is the documented sequence of bucket
//! consumptions stopping at the first refusal. Refill during a replay is bounded by the measured elapsed time; a
//! replay slow enough for the bound to matter is repeated (J/I/E) or judged with interval bounds (T).
//! Part 2 (E4): one child process per loom body of `vh-loom/src/bin/c14l.rs`.
use saorsa_core::rate_limit::{Engine, EngineConfig, JoinRateLimitError, JoinRateLimiter, JoinRateLimiterConfig};
use saorsa_core::validation::{RateLimitConfig, RateLimiter};
use serde_json::{Value, json};
use std::collections::BTreeMap;
use std::net::IpAddr;
use std::sync::atomic::{AtomicU64, Ordering};
use std::time::{Duration, Instant};
use vh::core::*;

#[path = "../loom_child.rs"]
mod loom_child;
use loom_child::run_loom;

// ---------------------------------------------------------------------------------------------
// buckets and reference

/// (level, key). Levels: "global", "/64", "/48", "/24" (join limiter); "ip-global", "ip" (check_ip); "engine-global", "engine-key".
type BucketId = (&'static str, u8);

#[derive(Clone, Copy, Debug)]
struct BucketCfg {
    burst: u32,
    max: u32,
    window_s: f64,
}

#[derive(Clone, Copy, Debug, Default)]
struct RefBucket {
    taken: u32,
}

#[derive(Clone, Debug)]
struct Family {
    name: &'static str,
    cfg_name: String,
    kind: Kind,
    n_ops: usize,
}

#[derive(Clone, Debug)]
enum Kind {
    Join(JoinRateLimiterConfig),
    Ip(RateLimitConfig),
    Eng(EngineConfig),
}

// join addresses: 0,1 share a /64; 2 same /48; 3 same /32; 4 foreign v6; 5,6 share a /24; 7 same /16; 8 foreign v4
const JADDR: [&str; 9] = ["2001:db8:1:1::1", "2001:db8:1:1::2", "2001:db8:1:2::1", "2001:db8:2:1::1", "2001:dead:1:1::1", "10.1.1.1", "10.1.1.2", "10.1.2.1", "172.16.9.1"];
const J64: [u8; 9] = [0, 0, 1, 2, 3, 0, 0, 0, 0];
const J48: [u8; 9] = [0, 0, 0, 1, 2, 0, 0, 0, 0];
const J24: [u8; 9] = [0, 0, 0, 0, 0, 0, 0, 1, 2];
// check_ip addresses: 0,1 share a /64 but are distinct IPs (distinct keys); 2,3 v4
const IADDR: [&str; 4] = ["2001:db8:1:1::1", "2001:db8:1:1::2", "10.1.1.1", "10.1.1.2"];

impl Family {
    fn entry(&self) -> &'static str {
        match self.kind {
            Kind::Join(_) => "JoinRateLimiter::check_join_allowed",
            Kind::Ip(_) => "validation::RateLimiter::check_ip",
            Kind::Eng(_) => "rate_limit::Engine::try_consume_*",
        }
    }
    /// bucket consumptions of operation `op`, in order, with the answer if that one refuses
    fn stages(&self, op: usize) -> Vec<(BucketId, &'static str)> {
        match self.kind {
            Kind::Join(_) if op < 5 => vec![(("global", 0), "Global"), (("/64", J64[op]), "S64"), (("/48", J48[op]), "S48")],
            Kind::Join(_) => vec![(("global", 0), "Global"), (("/24", J24[op]), "S24")],
            Kind::Ip(_) => vec![(("ip-global", 0), "global"), (("ip", op as u8), "ip")],
            Kind::Eng(_) if op == 0 => vec![(("engine-global", 0), "false")],
            Kind::Eng(_) => vec![(("engine-key", op as u8), "false")],
        }
    }
    fn ok_str(&self) -> &'static str {
        match self.kind {
            Kind::Eng(_) => "true",
            _ => "Ok",
        }
    }
    fn bucket_cfg(&self, b: BucketId) -> BucketCfg {
        match &self.kind {
            Kind::Join(c) => match b.0 {
                "global" => BucketCfg { burst: c.global_burst_size, max: c.max_global_joins_per_minute, window_s: 60.0 },
                "/64" => BucketCfg { burst: c.max_joins_per_64_per_hour, max: c.max_joins_per_64_per_hour, window_s: 3600.0 },
                "/48" => BucketCfg { burst: c.max_joins_per_48_per_hour, max: c.max_joins_per_48_per_hour, window_s: 3600.0 },
                _ => BucketCfg { burst: c.max_joins_per_24_per_hour, max: c.max_joins_per_24_per_hour, window_s: 3600.0 },
            },
            Kind::Ip(c) => BucketCfg { burst: c.burst_size, max: c.max_requests, window_s: c.window.as_secs_f64() },
            Kind::Eng(c) => BucketCfg { burst: c.burst_size, max: c.max_requests, window_s: c.window.as_secs_f64() },
        }
    }
    fn op_json(&self, op: usize) -> Value {
        match self.kind {
            Kind::Join(_) => json!({"check_join_allowed": JADDR[op]}),
            Kind::Ip(_) => json!({"check_ip": IADDR[op]}),
            Kind::Eng(_) if op == 0 => json!("try_consume_global"),
            Kind::Eng(_) => json!({"try_consume_key": op}),
        }
    }
    fn cfg_json(&self) -> Value {
        match &self.kind {
            Kind::Join(c) => json!({"JoinRateLimiterConfig": {"per_64_per_hour": c.max_joins_per_64_per_hour, "per_48_per_hour": c.max_joins_per_48_per_hour, "per_24_per_hour": c.max_joins_per_24_per_hour, "global_per_minute": c.max_global_joins_per_minute, "global_burst": c.global_burst_size}}),
            Kind::Ip(c) => json!({"RateLimitConfig": {"window_s": c.window.as_secs_f64(), "max_requests": c.max_requests, "burst_size": c.burst_size}}),
            Kind::Eng(c) => json!({"EngineConfig": {"window_s": c.window.as_secs_f64(), "max_requests": c.max_requests, "burst_size": c.burst_size}}),
        }
    }
}

enum Subject {
    Join(JoinRateLimiter),
    Ip(RateLimiter),
    Eng(Engine<u8>),
}

fn build(f: &Family) -> Subject {
    match &f.kind {
        Kind::Join(c) => Subject::Join(JoinRateLimiter::new(c.clone())),
        Kind::Ip(c) => Subject::Ip(RateLimiter::new(c.clone())),
        Kind::Eng(c) => Subject::Eng(Engine::new(c.clone())),
    }
}

fn call(s: &Subject, op: usize) -> String {
    match s {
        Subject::Join(l) => {
            let ip: IpAddr = JADDR[op].parse().expect("addr");
            match l.check_join_allowed(&ip) {
                Ok(()) => "Ok".into(),
                Err(JoinRateLimitError::GlobalLimitExceeded { .. }) => "Global".into(),
                Err(JoinRateLimitError::Subnet64LimitExceeded { .. }) => "S64".into(),
                Err(JoinRateLimitError::Subnet48LimitExceeded { .. }) => "S48".into(),
                Err(JoinRateLimitError::Subnet24LimitExceeded { .. }) => "S24".into(),
            }
        }
        Subject::Ip(l) => {
            let ip: IpAddr = IADDR[op].parse().expect("addr");
            match l.check_ip(&ip) {
                Ok(()) => "Ok".into(),
                Err(e) => {
                    let s = e.to_string();
                    if s.contains("global") {
                        "global".into()
                    } else if s.contains(IADDR[op]) {
                        "ip".into()
                    } else {
                        format!("other-error:{s}")
                    }
                }
            }
        }
        Subject::Eng(e) => {
            if op == 0 {
                e.try_consume_global().to_string()
            } else {
                e.try_consume_key(&(op as u8)).to_string()
            }
        }
    }
}

/// How far an answer got: number of stages passed (all = admitted).
fn rank(f: &Family, op: usize, res: &str) -> Option<usize> {
    let st = f.stages(op);
    if res == f.ok_str() {
        return Some(st.len());
    }
    st.iter().position(|(_, r)| *r == res)
}

struct Ctx<'a> {
    run: &'a Run,
    distinct: &'a Distinct,
}

enum StepOut {
    Retry,
    Pruned,
    State((Vec<u8>, u64)),
}

/// Replay `h` on a fresh subject; returns the results and the elapsed time bound.
fn replay(f: &Family, h: &[usize]) -> (Subject, Vec<String>, Instant) {
    let t0 = Instant::now();
    let s = build(f);
    let res = h.iter().map(|&op| call(&s, op)).collect();
    (s, res, t0)
}

/// true if, for every bucket of the family, the refill earnable in `dt` is far below one token and no window can have rolled over.
fn refill_negligible(f: &Family, dt: Duration) -> bool {
    let levels: &[&'static str] = match f.kind {
        Kind::Join(_) => &["global", "/64", "/48", "/24"],
        Kind::Ip(_) => &["ip"],
        Kind::Eng(_) => &["engine-key"],
    };
    levels.iter().all(|l| {
        let c = f.bucket_cfg((l, 0));
        dt.as_secs_f64() * c.max as f64 / c.window_s < 0.25 && dt.as_secs_f64() < c.window_s * 0.5
    })
}

thread_local! {
    /// oracle evaluations of the replay in progress; counted only if the replay is not repeated
    static PENDING_EVALS: std::cell::Cell<u64> = const { std::cell::Cell::new(0) };
}

fn step(cx: &Ctx, f: &Family, h: &[usize]) -> Option<(Vec<u8>, u64)> {
    for attempt in 0..200 {
        if attempt > 20 {
            std::thread::sleep(Duration::from_millis(2)); // machine heavily oversubscribed: back off a little
        }
        PENDING_EVALS.with(|c| c.set(0));
        let r = catch(|| step_once(cx, f, h));
        if !matches!(r, Ok(StepOut::Retry)) {
            cx.distinct.evals_add(PENDING_EVALS.with(|c| c.get()));
        }
        match r {
            Ok(StepOut::Retry) => {
                cx.run.info("replays_repeated_because_elapsed_time_made_refill_non_negligible");
                continue;
            }
            Ok(StepOut::Pruned) => return None,
            Ok(StepOut::State(s)) => return Some(s),
            Err(msg) => {
                cx.run.violation_lazy("C14.nopanic", feats(&[("entry", f.entry().into())]), || {
                    (json!({"config": f.cfg_json(), "history": h.iter().map(|&o| f.op_json(o)).collect::<Vec<_>>(), "panic": msg}), format!("{} panicked: {msg}", f.entry()))
                });
                return None;
            }
        }
    }
    cx.run.machinery_error("a replay was too slow for the zero-refill reference 200 times in a row");
    None
}

fn step_once(cx: &Ctx, f: &Family, h: &[usize]) -> StepOut {
    let (subject, res, t0) = replay(f, h);
    // destructive probe of the rebuilt object: every operation of the alphabet once
    let probe: Vec<String> = (0..f.n_ops).map(|op| call(&subject, op)).collect();
    if !refill_negligible(f, t0.elapsed()) {
        return StepOut::Retry;
    }
    drop(subject);
    // ---- reference over the whole history; judge the LAST attempt
    let mut rb: BTreeMap<BucketId, RefBucket> = BTreeMap::new();
    let mut counts: BTreeMap<BucketId, (u32, u32)> = BTreeMap::new(); // observed (passed, refused) per bucket -> canon
    let mut ok = true;
    for (i, &op) in h.iter().enumerate() {
        let last = i + 1 == h.len();
        let stages = f.stages(op);
        let got_rank = rank(f, op, &res[i]);
        let hist = || json!({"config": f.cfg_json(), "history": h[..=i].iter().map(|&o| f.op_json(o)).collect::<Vec<_>>(), "answers": res[..=i]});
        if last {
            PENDING_EVALS.with(|c| c.set(c.get() + 1));
            cx.distinct.outcome(&(f.name, f.cfg_name.clone(), res[i].clone(), stages.iter().map(|(b, _)| rb.get(b).map(|x| x.taken).unwrap_or(0)).collect::<Vec<_>>()));
        }
        let Some(got_rank) = got_rank else {
            if last {
                cx.run.violation_lazy("C14.class", feats(&[("entry", f.entry().into()), ("shape", "answer-names-no-stage-of-this-attempt".into())]), || (hist(), format!("{}: answer {:?} is neither admission nor a refusal by one of this attempt's own buckets", f.entry(), res[i])));
            }
            return StepOut::Pruned;
        };
        for (si, (b, _)) in stages.iter().enumerate() {
            let c = f.bucket_cfg(*b);
            let e = rb.entry(*b).or_default();
            let ref_pass = e.taken < c.burst.min(c.max);
            let got_pass = got_rank > si;
            if last && ref_pass != got_pass {
                let others = h[..i].iter().any(|&o| !f.stages(o).iter().any(|(bb, _)| bb == b));
                if got_pass {
                    // admitted beyond the bucket's allowance
                    let clause = if b.0.contains("global") { "C14.global" } else { "C14.cap" };
                    let shape = if e.taken >= c.max { "window-maximum-exceeded" } else { "burst-plus-refill-exceeded" };
                    cx.run.violation_lazy(clause, feats(&[("entry", f.entry().into()), ("level", b.0.into()), ("shape", shape.into())]), || {
                        (hist(), format!("{}: bucket {b:?} (burst {}, max {} per {} s) let attempt #{} pass after {} admissions charged to it", f.entry(), c.burst, c.max, c.window_s, i + 1, e.taken))
                    });
                } else {
                    cx.run.violation_lazy("C14.indep", feats(&[("entry", f.entry().into()), ("level", b.0.into()), ("shape", if others { "refused-in-own-name-with-budget-left-after-other-keys-traffic" } else { "refused-in-own-name-with-budget-left" }.into())]), || {
                        (hist(), format!("{}: attempt #{} refused in the name of bucket {b:?} although only {} of its {} admissions were used", f.entry(), i + 1, e.taken, c.burst.min(c.max)))
                    });
                }
                ok = false;
            }
            let cnt = counts.entry(*b).or_insert((0, 0));
            if got_pass {
                cnt.0 += 1;
            } else {
                cnt.1 += 1;
            }
            if ref_pass {
                e.taken += 1;
            } else {
                break;
            }
            if !got_pass {
                break;
            }
        }
        if !ok {
            return StepOut::Pruned;
        }
    }
    // ---- C14.nogrow (one-step differential on the real object): a refused attempt x followed by y —
    // y must not get further than it gets in the same history without x.
    let n = h.len();
    if n >= 2 {
        let x = h[n - 2];
        let rx = rank(f, x, &res[n - 2]);
        if rx.map(|r| r < f.stages(x).len()).unwrap_or(false) {
            let mut h2: Vec<usize> = h[..n - 2].to_vec();
            h2.push(h[n - 1]);
            let (_s2, res2, t2) = replay(f, &h2);
            if !refill_negligible(f, t2.elapsed()) {
                return StepOut::Retry;
            }
            PENDING_EVALS.with(|c| c.set(c.get() + 1));
            let with_x = rank(f, h[n - 1], &res[n - 1]);
            let without_x = rank(f, h[n - 1], &res2[n - 2]);
            if with_x > without_x {
                cx.run.violation_lazy("C14.nogrow", feats(&[("entry", f.entry().into()), ("shape", format!("refused-as-{}-then-next-attempt-gets-further", res[n - 2]))]), || {
                    (
                        json!({"config": f.cfg_json(), "history_with_refused_attempt": h.iter().map(|&o| f.op_json(o)).collect::<Vec<_>>(), "answers_with": res, "history_without_it": h2.iter().map(|&o| f.op_json(o)).collect::<Vec<_>>(), "answers_without": res2}),
                        format!("{}: after the refused attempt #{} the next attempt answers {:?}; without the refused attempt it answers {:?}", f.entry(), n - 1, res[n - 1], res2[n - 2]),
                    )
                });
                return StepOut::Pruned;
            }
        }
    }
    let canon = postcard::to_stdvec(&counts.iter().map(|((l, k), v)| (l.to_string(), *k, v.0, v.1)).collect::<Vec<_>>()).expect("canon");
    StepOut::State((canon, hash64(&probe)))
}

// ---------------------------------------------------------------------------------------------
// family T: timed histories on Engine (one real sleep), interval reference

#[derive(Clone, Copy, Debug, PartialEq)]
enum TOp {
    G,
    K(u8),
    Sleep,
}

fn timed_histories(max_len: usize) -> Vec<Vec<TOp>> {
    let alpha = [TOp::K(1), TOp::G, TOp::K(2), TOp::Sleep];
    let mut out: Vec<Vec<TOp>> = Vec::new();
    let mut level: Vec<Vec<TOp>> = vec![vec![]];
    for _ in 0..max_len {
        let mut next = Vec::new();
        for h in &level {
            for a in alpha {
                if a == TOp::Sleep && (h.contains(&TOp::Sleep) || h.is_empty()) {
                    continue; // at most one sleep, never first
                }
                let mut h2 = h.clone();
                h2.push(a);
                next.push(h2);
            }
        }
        out.extend(next.iter().filter(|h| h.contains(&TOp::Sleep) && *h.last().unwrap() != TOp::Sleep).cloned());
        level = next;
    }
    out
}

/// Histories with up to three sleeps and refused attempts in between (one kind of attempt per history): a limiter that
/// re-credits elapsed time on refused attempts only shows with several refusals separated by real time.
fn timed_histories_multi(max_len: usize) -> Vec<Vec<TOp>> {
    let mut out: Vec<Vec<TOp>> = Vec::new();
    for x in [TOp::K(1), TOp::G] {
        let mut level: Vec<Vec<TOp>> = vec![vec![x]];
        for _ in 1..max_len {
            let mut next = Vec::new();
            for h in &level {
                for a in [x, TOp::Sleep] {
                    if a == TOp::Sleep && (*h.last().unwrap() == TOp::Sleep || h.iter().filter(|o| **o == TOp::Sleep).count() >= 3) {
                        continue;
                    }
                    let mut h2 = h.clone();
                    h2.push(a);
                    next.push(h2);
                }
            }
            out.extend(next.iter().filter(|h| h.iter().filter(|o| **o == TOp::Sleep).count() >= 2 && *h.last().unwrap() != TOp::Sleep).cloned());
            level = next;
        }
    }
    out
}

/// Token interval per bucket: real tokens are within [lo, hi] given measured time bounds.
#[derive(Clone, Copy)]
struct TBucket {
    lo: f64,
    hi: f64,
    taken_total: u32,
    /// earliest possible start of the current fixed window / latest
    last_call_start: Instant,
    last_call_end: Instant,
}

fn run_timed(cx: &Ctx, cfg: &EngineConfig, sleep: Duration, h: &[TOp]) {
    let t_create0 = Instant::now();
    let e: Engine<u8> = Engine::new(cfg.clone());
    let t_create1 = Instant::now();
    let rate = cfg.max_requests as f64 / cfg.window.as_secs_f64();
    let burst = cfg.burst_size as f64;
    let mut buckets: BTreeMap<(bool, u8), TBucket> = BTreeMap::new();
    let mut answers: Vec<String> = Vec::new();
    let op_json = |o: &TOp| match o {
        TOp::G => json!("try_consume_global"),
        TOp::K(k) => json!({"try_consume_key": k}),
        TOp::Sleep => json!({"sleep_ms": sleep.as_millis() as u64}),
    };
    for (i, op) in h.iter().enumerate() {
        let (is_global, key) = match op {
            TOp::Sleep => {
                std::thread::sleep(sleep);
                answers.push("slept".into());
                continue;
            }
            TOp::G => (true, 0),
            TOp::K(k) => (false, *k),
        };
        let s = Instant::now();
        let got = if is_global { e.try_consume_global() } else { e.try_consume_key(&key) };
        let t = Instant::now();
        answers.push(got.to_string());
        // the global bucket exists since Engine::new; a keyed bucket is created full by its first call
        let b = buckets.entry((is_global, key)).or_insert(TBucket { lo: burst, hi: burst, taken_total: 0, last_call_start: if is_global { t_create0 } else { s }, last_call_end: if is_global { t_create1 } else { s } });
        // elapsed since the bucket's previous update lies within [s - last_call_end, t - last_call_start]
        let el_lo = s.saturating_duration_since(b.last_call_end).as_secs_f64();
        let el_hi = t.saturating_duration_since(b.last_call_start).as_secs_f64();
        b.lo = (b.lo + el_lo * rate).min(burst);
        b.hi = (b.hi + el_hi * rate).min(burst);
        b.last_call_start = s;
        b.last_call_end = t;
        cx.distinct.eval();
        cx.distinct.outcome(&("timed", cfg.burst_size, cfg.max_requests, got, b.hi >= 1.0, b.lo >= 1.0));
        let total_hi = t.saturating_duration_since(t_create0).as_secs_f64();
        let windows_hi = (total_hi / cfg.window.as_secs_f64()).floor() as u32 + 1;
        let wit = || json!({"config": {"EngineConfig": {"window_s": cfg.window.as_secs_f64(), "max_requests": cfg.max_requests, "burst_size": cfg.burst_size}}, "history": h[..=i].iter().map(op_json).collect::<Vec<_>>(), "answers": answers, "elapsed_upper_bound_s": total_hi});
        if got {
            let level = if is_global { "engine-global" } else { "engine-key" };
            let clause = if is_global { "C14.global" } else { "C14.cap" };
            if b.hi < 1.0 - 1e-9 {
                cx.run.violation_lazy(clause, feats(&[("entry", "rate_limit::Engine::try_consume_*".into()), ("level", level.into()), ("shape", "burst-plus-refill-exceeded".into())]), || {
                    (wit(), format!("Engine bucket admitted with at most {:.3} tokens: admissions {} exceed burst {} + refill earned in at most {:.3} s at {:.4}/s", b.hi, b.taken_total + 1, cfg.burst_size, total_hi, rate))
                });
            }
            if b.taken_total + 1 > cfg.max_requests * windows_hi {
                cx.run.violation_lazy(clause, feats(&[("entry", "rate_limit::Engine::try_consume_*".into()), ("level", level.into()), ("shape", "window-maximum-exceeded".into())]), || {
                    (wit(), format!("{} admissions within {:.3} s (at most {} windows of {} requests)", b.taken_total + 1, total_hi, windows_hi, cfg.max_requests))
                });
            }
            b.taken_total += 1;
            b.lo = (b.lo - 1.0).max(0.0);
            b.hi = (b.hi - 1.0).max(0.0);
        }
        // a refusal needs no judgement here: the statement bounds admissions from above (refusals with budget left
        // are judged in the untimed families, where the reference is exact)
    }
}

// ---------------------------------------------------------------------------------------------

fn main() {
    // Every fresh limiter allocates four 100 000-slot LRU tables (~8 MB); keep glibc from mmap/munmap-ing them on
    // every replay (16 threads doing that serialise on the process' address-space lock).
    unsafe {
        libc::mallopt(libc::M_MMAP_THRESHOLD, 256 << 20);
        libc::mallopt(libc::M_TRIM_THRESHOLD, 1 << 30);
        libc::mallopt(libc::M_TOP_PAD, 64 << 20);
    }
    let run = Run::new("C14", "model_checking");
    quiet_panics();
    // hang breaker: a subject call that never returns (e.g. a self-deadlock) would block the search outside any budget check
    let hard_limit = run.tier.pick(170, 2700);
    std::thread::spawn(move || {
        std::thread::sleep(Duration::from_secs(hard_limit));
        machinery_exit(&format!("C14: no result after {hard_limit} s — a call into the subject did not return (deadlock?)"));
    });
    let distinct = Distinct::default();
    let cx = Ctx { run: &run, distinct: &distinct };

    // Part 2 (loom bodies in child processes) runs beside Part 1
    let loom_slot: std::sync::Mutex<Option<loom_child::LoomOut>> = std::sync::Mutex::new(None);
    let (coverage, assumptions) = std::thread::scope(|sc| {
        sc.spawn(|| {
            *loom_slot.lock().unwrap() = Some(run_loom(&run, "C14", run.tier.pick(40, 900)));
        });
        part1(&run, &cx, &loom_slot)
    });
    run.finish(coverage, assumptions);
}

fn part1(run: &Run, cx: &Ctx, loom_slot: &std::sync::Mutex<Option<loom_child::LoomOut>>) -> (serde_json::Map<String, Value>, Vec<String>) {
    let distinct = cx.distinct;

    // ---- family T first (sleeps; cheap in CPU)
    let timed_cfgs = [
        (EngineConfig { window: Duration::from_secs(3600), max_requests: 100, burst_size: 1 }, Duration::from_millis(1200)),
        (EngineConfig { window: Duration::from_secs(60), max_requests: 6, burst_size: 2 }, Duration::from_millis(1200)),
        (EngineConfig { window: Duration::from_millis(400), max_requests: 2, burst_size: 3 }, Duration::from_millis(600)),
    ];
    let mut th = timed_histories(run.tier.pick(3, 5));
    let single_sleep = th.len();
    // multi-sleep family: burst 1, one token per second, attempts every 350 ms
    let multi = timed_histories_multi(run.tier.pick(7, 9));
    th.extend(multi.iter().cloned());
    let multi_cfg = (EngineConfig { window: Duration::from_secs(4), max_requests: 4, burst_size: 1 }, Duration::from_millis(350));
    let mut timed_jobs: Vec<(usize, usize)> = (0..timed_cfgs.len()).flat_map(|c| (0..single_sleep).map(move |i| (c, i))).collect();
    timed_jobs.extend((single_sleep..th.len()).map(|i| (usize::MAX, i)));
    let timed_done = AtomicU64::new(0);
    // sleeping jobs: more workers than cores is fine, but par_for is bounded by n_workers(); run it as is
    par_for(timed_jobs.len(), |j| {
        let (c, i) = timed_jobs[j];
        let (tcfg, tsleep) = if c == usize::MAX { (&multi_cfg.0, multi_cfg.1) } else { (&timed_cfgs[c].0, timed_cfgs[c].1) };
        if let Err(msg) = catch(|| run_timed(&cx, tcfg, tsleep, &th[i])) {
            run.violation_lazy("C14.nopanic", feats(&[("entry", "rate_limit::Engine::try_consume_*".into())]), || (json!({"timed_history": format!("{:?}", th[i]), "panic": msg}), format!("Engine panicked: {msg}")));
        }
        timed_done.fetch_add(1, Ordering::Relaxed);
    });
    let timed_done = timed_done.into_inner();

    // ---- families J, I, E
    let jc = |c64, c48, c24, gmax, gburst| JoinRateLimiterConfig { max_joins_per_64_per_hour: c64, max_joins_per_48_per_hour: c48, max_joins_per_24_per_hour: c24, max_global_joins_per_minute: gmax, global_burst_size: gburst };
    let h1 = Duration::from_secs(3600);
    let mut fams: Vec<Family> = Vec::new();
    for (n, c) in [("default(1,5,3;100/min,burst 10)", JoinRateLimiterConfig::default()), ("(2,2,2;100/min,burst 3)", jc(2, 2, 2, 100, 3)), ("(1,1,1;100/min,burst 1)", jc(1, 1, 1, 100, 1)), ("(1,5,3;2/min,burst 5) burst>max", jc(1, 5, 3, 2, 5)), ("(3,5,3;100/min,burst 2) max>burst", jc(3, 5, 3, 100, 2))] {
        fams.push(Family { name: "J", cfg_name: n.into(), kind: Kind::Join(c), n_ops: 9 });
    }
    let ic = |w: Duration, max, burst| RateLimitConfig { window: w, max_requests: max, burst_size: burst, ..RateLimitConfig::default() };
    for (n, c) in [("default(60 s,1000,burst 100)", RateLimitConfig::default()), ("(1 h,2,burst 3) burst>max", ic(h1, 2, 3)), ("(1 h,3,burst 2) max>burst", ic(h1, 3, 2)), ("(1 h,1,burst 1)", ic(h1, 1, 1))] {
        fams.push(Family { name: "I", cfg_name: n.into(), kind: Kind::Ip(c), n_ops: 4 });
    }
    for (n, max, burst) in [("(1 h,5,burst 3)", 5, 3), ("(1 h,2,burst 5)", 2, 5), ("(1 h,1,burst 1)", 1, 1), ("(1 h,2,burst 2)", 2, 2), ("(1 h,100,burst 10)", 100, 10)] {
        fams.push(Family { name: "E", cfg_name: n.into(), kind: Kind::Eng(EngineConfig { window: h1, max_requests: max, burst_size: burst }), n_ops: 4 });
    }
    let depth = run.tier.pick(8, 12);
    let budget = Budget::new(Duration::from_secs(run.tier.pick(52, 1700)).saturating_sub(run.elapsed()));
    let replays = AtomicU64::new(0);
    let mut all: Vec<(usize, BfsStats)> = Vec::new();
    for (fi, f) in fams.iter().enumerate() {
        let stats = bfs(
            f.n_ops,
            depth,
            &budget,
            |h: &[usize]| {
                replays.fetch_add(1, Ordering::Relaxed);
                step(&cx, f, h)
            },
            |a, b| {
                // Budgets are a function of what was charged to each bucket (refill is negligible here, see
                // refill_negligible); two histories with equal charges that answer the same probe differently mean a
                // budget depends on something else (e.g. refill faster than max/window, or a refusal changing it).
                run.violation_lazy("C14.state", feats(&[("entry", f.entry().into()), ("shape", "equal-charges-different-answers".into())]), || {
                    (
                        json!({"config": f.cfg_json(), "history_1": a.iter().map(|&o| f.op_json(o)).collect::<Vec<_>>(), "history_2": b.iter().map(|&o| f.op_json(o)).collect::<Vec<_>>(),
                               "probe": "after each history every operation of the alphabet is attempted once, in alphabet order; the answer vectors differ"}),
                        format!("{}: two histories with equal per-bucket pass/refuse counts answer the same probe differently (budget depends on more than the charged admissions + bounded refill)", f.entry()),
                    )
                });
            },
        );
        all.push((fi, stats));
    }
    if budget.was_hit() {
        run.cap_hit(format!("wall-clock budget; completed depths per family/config: {:?} of {}", all.iter().map(|(_, s)| s.completed_depth).collect::<Vec<_>>(), depth));
        if all[0].1.completed_depth == 0 {
            run.machinery_error("not even depth 1 completed");
        }
    }
    // wait for the loom driver (its bodies have their own wall-clock cap)
    let loom = loop {
        if let Some(l) = loom_slot.lock().unwrap().take() {
            break l;
        }
        std::thread::sleep(Duration::from_millis(20));
    };
    if !loom.incomplete.is_empty() {
        run.cap_hit(format!("loom bodies stopped by their wall-clock cap: {:?}", loom.incomplete));
    }
    let states: u64 = all.iter().map(|(_, s)| s.states).sum();
    let transitions: u64 = all.iter().map(|(_, s)| s.transitions).sum();
    let mut samples: Vec<Value> = Vec::new();
    for (fi, st) in all.iter() {
        if let Some(h) = st.sample_histories.last() {
            if samples.len() < 4 {
                samples.push(json!({"family": fams[*fi].name, "config": fams[*fi].cfg_json(), "history": h.iter().map(|&o| fams[*fi].op_json(o)).collect::<Vec<_>>()}));
            }
        }
    }
    if let Some(b) = loom.bodies.first() {
        samples.push(json!({"loom_body": b}));
    }
    let per_family: Vec<Value> = all
        .iter()
        .map(|(fi, s)| json!({"family": fams[*fi].name, "config": fams[*fi].cfg_name, "states": s.states, "transitions": s.transitions, "completed_depth": s.completed_depth, "fixpoint": s.fixpoint, "revisits_compared": s.revisits, "frontier_sizes": s.frontier_sizes}))
        .collect();
    let coverage = cov(vec![
        ("states", json!(states + timed_done + loom.states)),
        ("transitions", json!(transitions + timed_done + loom.states)),
        ("traces_validated_against_impl", json!(replays.load(Ordering::Relaxed) + timed_done + loom.states)),
        ("samples", json!(samples)),
        ("exhaustive", json!(!budget.was_hit() && loom.incomplete.is_empty())),
        ("evaluations", json!(distinct.evaluations())),
        ("distinct_nontrivial", json!(distinct.distinct())),
        ("rule", json!("evaluation = one judged last attempt of a history (or one timed attempt, or one refused-attempt differential); distinct = distinct (family, configuration, answer, admissions already charged to each bucket of the attempt) tuples")),
        (
            "bounds",
            json!({"bfs_depth": depth, "families": per_family, "join_addresses": JADDR, "check_ip_addresses": IADDR, "engine_ops": ["global", "key1", "key2", "key3"],
                "timed_histories": timed_done, "timed_max_len": run.tier.pick(3, 5), "loom_schedules": loom.states, "loom_bodies": loom.bodies}),
        ),
    ]);
    (
        coverage,
        vec![
            "every transition is a replay on a real limiter; reference = admissions charged per bucket, an attempt consumes global -> /64 -> /48 (or /24) resp. global -> key and stops at the first refusal".into(),
            "refill during an untimed replay is bounded by the measured elapsed time (< 0.25 token on every bucket, else the replay is repeated), so expected answers are exact; timed histories use interval bounds from measured times and judge admissions only".into(),
            "a refusal in a bucket's own name while fewer than min(burst, max) admissions were ever charged to that bucket is reported as C14.indep (its budget was consumed by something other than its own admitted requests); refusals attributed to the shared global or wider-prefix bucket are by design".into(),
            "a refused attempt that consumed tokens of earlier stages (global, /64) is not a violation: the statement only forbids a denied attempt increasing a budget (C14.nogrow, one-step differential on the real object)".into(),
            "C14.state: two histories with equal per-bucket pass/refuse counts must answer the same probe equally (budgets depend only on charged admissions + bounded refill)".into(),
            "LRU eviction at 100 000 keys and window roll-over after 1 h / 1 min are outside the horizon; the 400 ms-window timed configuration covers roll-over of the fixed window".into(),
            "loom part: Engine::global Mutex, Engine::keyed RwLock (parking_lot -> shim over loom::sync::RwLock) and Arc are loom objects in a re-bound copy of the working tree's rate_limit.rs; Instant::now() is the real clock".into(),
        ],
    )
}
