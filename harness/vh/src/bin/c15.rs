//! C15 — close-group membership needs a Byzantine quorum; f liars cannot force it.
//!
//! Bounded-exhaustive enumeration of witness *multisets* through the real
//! `CloseGroupValidator::validate_membership` (the verdict does not depend on witness order or identity):
//! witness type = confirm{y,n} x trust{0.9,0.3,0.29,0.1,none} x region{A,B,C,D,none}; every multiset up to a size
//! bound, x latency pattern {25 ms apart, all equal, equal pairs} x mode {normal, attack} x enforcement
//! {Strict, LogOnly} x min_peers_to_query {3,5,7} x candidate trust {0.9, none, 0.1}.
//!
//! Clauses (reference predicates computed from the multiset with integer arithmetic):
//!   C15.bft     attack mode, accepted => trusted >= min AND confirming share of trusted >= configured threshold AND
//!               confirming regions >= min_regions AND no SuspectedCollusion flag AND not (>=3 trusted witnesses
//!               with identical response times)
//!   C15.quorum  attack mode, accepted => confirming trusted > 2/3 of trusted (the "Byzantine quorum" of the title)
//!   C15.f       attack mode, 3f+1 trusted witnesses (f in 1..3) of which at most f confirm => rejected
//!   C15.norm    normal mode, accepted => confirming share of witness trust >= configured threshold
//!   C15.mono    both modes: turning one denial of an accepted set into a confirmation keeps it accepted
//!               (= turning a confirmation into a denial never turns reject into accept)
//!   C15.live    both modes: unanimous, all witnesses trusted, >= min, all regions known and >= min_regions distinct,
//!               response times 25 ms apart, candidate trust 0.9 => accepted
//!   C15.nopanic
use saorsa_core::dht::core_engine::NodeId;
use saorsa_core::dht::routing_maintenance::MaintenanceConfig;
use saorsa_core::dht::routing_maintenance::close_group_validator::{
    CloseGroupEnforcementMode, CloseGroupFailure, CloseGroupResponse, CloseGroupValidationResult, CloseGroupValidator, CloseGroupValidatorConfig,
};
use serde_json::json;
use std::collections::HashSet;
use std::sync::Mutex;
use std::sync::atomic::{AtomicU64, Ordering};
use std::time::{Duration, Instant};
use vh::core::*;

#[derive(Clone, Copy, Debug)]
struct WType {
    confirm: bool,
    trust: Option<f64>,
    /// weight in hundredths as the normal mode counts it (unknown trust counts 0.5)
    pct: u64,
    /// 0..=3 = region A..D, 4 = unknown
    region: u8,
}
const REGION_NAMES: [&str; 4] = ["A", "B", "C", "D"];

fn grid(trusts: &[(Option<f64>, u64)], regions: &[u8]) -> Vec<WType> {
    let mut v = Vec::new();
    for confirm in [true, false] {
        for &(trust, pct) in trusts {
            for &region in regions {
                v.push(WType { confirm, trust, pct, region });
            }
        }
    }
    v
}

struct Setting {
    v: CloseGroupValidator,
    cfg: CloseGroupValidatorConfig,
    attack: bool,
}

const CAND: [Option<f64>; 3] = [Some(0.9), None, Some(0.1)];
const PATTERNS: [&str; 5] = ["25ms-apart", "all-equal", "equal-pairs", "first-n/2+2-equal-rest-apart", "last-n/2+2-equal-rest-apart"];

/// Patterns 3 and 4 put exactly as many witnesses into one 0 ms cluster as the timing heuristic needs to raise its
/// flag (n/2 + 2 equal latencies = n/2 + 1 similar neighbours), at the front resp. the back of the sorted set.
fn latency_n(pattern: usize, i: usize, n: usize) -> Duration {
    let c = n / 2 + 2;
    match pattern {
        0 => Duration::from_millis(40 + 25 * i as u64),
        1 => Duration::from_millis(50),
        2 => Duration::from_millis(40 + 25 * (i as u64 / 2)),
        3 => if i < c { Duration::from_millis(50) } else { Duration::from_millis(100 + 25 * i as u64) },
        _ => if i + c >= n { Duration::from_millis(50) } else { Duration::from_millis(100 + 25 * i as u64) },
    }
}


fn reasons_mask(r: &CloseGroupValidationResult) -> u8 {
    let mut m = 0u8;
    for f in &r.failure_reasons {
        m |= match f {
            CloseGroupFailure::NotInCloseGroup => 1,
            CloseGroupFailure::EvictedFromCloseGroup => 2,
            CloseGroupFailure::InsufficientConfirmation => 4,
            CloseGroupFailure::LowTrustScore => 8,
            CloseGroupFailure::InsufficientGeographicDiversity => 16,
            CloseGroupFailure::SuspectedCollusion => 32,
            CloseGroupFailure::AttackModeTriggered => 64,
        };
    }
    m
}

struct Ctx<'a> {
    run: &'a Run,
    settings: &'a [Setting],
    node_id: NodeId,
}

#[derive(Default)]
struct Local {
    evals: u64,
    accepted: u64,
    outcomes: HashSet<(bool, bool, u8, usize, u8)>,
    strict_region_reading_would_reject: u64,
    accepted_with_unknown_candidate: u64,
    norm_boundary: u64,
    live_premises: u64,
    f_premises: u64,
    mono_flips: u64,
}

fn witness_json(types: &[WType], seq: &[usize], pattern: usize, flipped: Option<usize>) -> serde_json::Value {
    json!(
        seq.iter()
            .enumerate()
            .map(|(i, &t)| {
                let w = types[t];
                json!({"confirms": if flipped == Some(i) { !w.confirm } else { w.confirm }, "trust": w.trust,
                   "region": if w.region < 4 { Some(REGION_NAMES[w.region as usize]) } else { None },
                   "latency_ms": latency_n(pattern, i, seq.len()).as_millis() as u64})
            })
            .collect::<Vec<_>>()
    )
}

fn eval_multiset(cx: &Ctx<'_>, types: &[WType], seq: &[usize], resp: &mut [CloseGroupResponse], loc: &mut Local) {
    let n = seq.len();
    // ---- reference quantities (integers) ------------------------------------------------------------------
    let mut conf_all = 0usize;
    let mut regions_all_conf = 0u8;
    let mut tw = 0u64; // total weight, hundredths
    let mut cw = 0u64; // confirming weight
    let mut all_regions_known = true;
    let mut regions_any = 0u8;
    for &t in seq {
        let w = types[t];
        tw += w.pct;
        if w.region < 4 {
            regions_any |= 1 << w.region;
        } else {
            all_regions_known = false;
        }
        if w.confirm {
            conf_all += 1;
            cw += w.pct;
            if w.region < 4 {
                regions_all_conf |= 1 << w.region;
            }
        }
    }
    let n_regions_conf = regions_all_conf.count_ones() as usize;
    for pattern in 0..PATTERNS.len() {
        if pattern >= 3 && n < 3 {
            continue;
        }
        for (i, r) in resp.iter_mut().enumerate() {
            r.response_latency = latency_n(pattern, i, n);
        }
        for (si, s) in cx.settings.iter().enumerate() {
            // trusted = trust known and >= configured minimum
            let min_tr = s.cfg.min_witness_trust;
            let mut n_tr = 0usize;
            let mut conf_tr = 0usize;
            let mut regions_tr_conf = 0u8;
            for &t in seq {
                let w = types[t];
                if w.trust.is_some_and(|x| x >= min_tr) {
                    n_tr += 1;
                    if w.confirm {
                        conf_tr += 1;
                        if w.region < 4 {
                            regions_tr_conf |= 1 << w.region;
                        }
                    }
                }
            }
            for (ci, cand) in CAND.iter().enumerate() {
                let r = s.v.validate_membership(&cx.node_id, resp, *cand);
                loc.evals += 1;
                let mask = reasons_mask(&r);
                loc.outcomes.insert((s.attack, r.is_valid, mask, r.confirming_regions.min(4), (n_tr.min(10)) as u8));
                let wit = |clause_note: &str| {
                    (
                        json!({"witnesses": witness_json(types, seq, pattern, None), "latency_pattern": PATTERNS[pattern],
                               "mode": if s.attack { "attack(BFT)" } else { "normal" },
                               "enforcement": format!("{:?}", s.cfg.enforcement_mode), "min_peers_to_query": s.cfg.min_peers_to_query,
                               "bft_threshold": s.cfg.bft_threshold, "trust_weighted_threshold": s.cfg.trust_weighted_threshold,
                               "min_witness_trust": s.cfg.min_witness_trust, "min_regions": s.cfg.min_regions,
                               "candidate_trust": cand, "setting_index": si,
                               "result": {"is_valid": r.is_valid, "failure_reasons": format!("{:?}", r.failure_reasons), "confirmation_ratio": r.confirmation_ratio,
                                          "weighted_confirmation": r.weighted_confirmation, "confirming_regions": r.confirming_regions, "used_bft_consensus": r.used_bft_consensus},
                               "reference": {"witnesses": n, "trusted": n_tr, "confirming_trusted": conf_tr, "confirming_all": conf_all,
                                             "confirming_regions_all": n_regions_conf, "confirming_weight_pct": cw, "total_weight_pct": tw}}),
                        format!("{clause_note}: n={n} trusted={n_tr} confirming_trusted={conf_tr} regions={n_regions_conf} weight={cw}/{tw} pattern={} min={} cand={cand:?} -> is_valid={} {:?}",
                                PATTERNS[pattern], s.cfg.min_peers_to_query, r.is_valid, r.failure_reasons),
                    )
                };
                let mode = if s.attack { "attack" } else { "normal" };
                if r.used_bft_consensus != s.attack && n >= s.cfg.min_peers_to_query && !cand.is_some_and(|c| c < min_tr) {
                    cx.run.violation_lazy("C15.bft", feats(&[("mode", mode.into()), ("shape", "wrong-mode-used".into())]), || wit("mode flag not honoured"));
                }
                if r.is_valid {
                    loc.accepted += 1;
                    if cand.is_none() {
                        loc.accepted_with_unknown_candidate += 1;
                    }
                    if s.attack {
                        let share_ok = n_tr > 0 && (conf_tr as f64 / n_tr as f64) >= s.cfg.bft_threshold - 1e-9;
                        let shape = if n_tr < s.cfg.min_peers_to_query {
                            Some("too-few-trusted-witnesses")
                        } else if !share_ok {
                            Some("share-below-threshold")
                        } else if n_regions_conf < s.cfg.min_regions {
                            Some("too-few-confirming-regions")
                        } else if mask & 32 != 0 {
                            Some("collusion-flag-raised")
                        } else if pattern == 1 && n_tr >= 3 {
                            Some("identical-response-times")
                        } else {
                            None
                        };
                        if let Some(shape) = shape {
                            cx.run.violation_lazy("C15.bft", feats(&[("mode", mode.into()), ("shape", shape.into())]), || wit("accepted in attack mode"));
                        }
                        if 3 * conf_tr <= 2 * n_tr {
                            cx.run.violation_lazy("C15.quorum", feats(&[("mode", mode.into())]), || wit("accepted in attack mode without a >2/3 quorum of trusted witnesses"));
                        }
                        if (regions_tr_conf.count_ones() as usize) < s.cfg.min_regions {
                            loc.strict_region_reading_would_reject += 1;
                        }
                    } else {
                        // exact: cw/tw >= threshold; threshold 0.7 -> 10*cw >= 7*tw; equality is the rounding band (either verdict)
                        let thr_milli = (s.cfg.trust_weighted_threshold * 1000.0).round() as u64;
                        if 1000 * cw == thr_milli * tw {
                            loc.norm_boundary += 1;
                        } else if 1000 * cw < thr_milli * tw {
                            cx.run.violation_lazy("C15.norm", feats(&[("mode", mode.into()), ("shape", "share-below-threshold".into())]), || wit("accepted in normal mode"));
                        }
                    }
                    // mono: every single denial turned into a confirmation keeps the set accepted
                    let mut last = usize::MAX;
                    for i in 0..n {
                        let t = seq[i];
                        // equal types are interchangeable only when their latencies are too (patterns 0-2)
                        if (pattern < 3 && t == last) || types[t].confirm {
                            continue;
                        }
                        last = t;
                        resp[i].confirms_membership = true;
                        let r2 = s.v.validate_membership(&cx.node_id, resp, *cand);
                        resp[i].confirms_membership = false;
                        loc.evals += 1;
                        loc.mono_flips += 1;
                        if !r2.is_valid {
                            cx.run.violation_lazy("C15.mono", feats(&[("mode", mode.into())]), || {
                                let (mut w, d) = wit("accepted set");
                                w["rejected_variant_with_one_more_confirmation"] = json!({"witnesses": witness_json(types, seq, pattern, Some(i)), "flipped_index": i,
                                    "result": {"is_valid": r2.is_valid, "failure_reasons": format!("{:?}", r2.failure_reasons)}});
                                (w, format!("turning confirmation #{i} into a denial turns reject {:?} into accept; {d}", r2.failure_reasons))
                            });
                        }
                    }
                } else {
                    // live
                    if ci == 0 && pattern == 0 && conf_all == n && n_tr == n && n >= s.cfg.min_peers_to_query && all_regions_known && (regions_any.count_ones() as usize) >= s.cfg.min_regions {
                        cx.run.violation_lazy("C15.live", feats(&[("mode", mode.into()), ("reasons", format!("{:?}", r.failure_reasons))]), || wit("unanimous trusted spread confirmation rejected"));
                    }
                }
                if ci == 0 && pattern == 0 && conf_all == n && n_tr == n && n >= s.cfg.min_peers_to_query && all_regions_known && (regions_any.count_ones() as usize) >= s.cfg.min_regions {
                    loc.live_premises += 1;
                }
                // f liars
                if s.attack && n_tr >= 4 && (n_tr - 1) % 3 == 0 && n_tr <= 10 {
                    let f = (n_tr - 1) / 3;
                    if conf_tr <= f {
                        loc.f_premises += 1;
                        if r.is_valid {
                            cx.run.violation_lazy("C15.f", feats(&[("f", f.to_string())]), || wit("f confirming liars among 3f+1 trusted witnesses got the claim accepted"));
                        }
                    }
                }
            }
        }
    }
}

#[allow(clippy::too_many_arguments)]
fn rec(cx: &Ctx<'_>, types: &[WType], k: usize, seq: &mut Vec<usize>, resp: &mut Vec<CloseGroupResponse>, now: Instant, loc: &mut Local, multisets: &mut u64) {
    if seq.len() == k {
        *multisets += 1;
        eval_multiset(cx, types, seq, resp, loc);
        return;
    }
    let from = seq.last().copied().unwrap_or(0);
    for t in from..types.len() {
        push(types, t, seq, resp, now);
        rec(cx, types, k, seq, resp, now, loc, multisets);
        seq.pop();
        resp.pop();
    }
}

fn push(types: &[WType], t: usize, seq: &mut Vec<usize>, resp: &mut Vec<CloseGroupResponse>, now: Instant) {
    let w = types[t];
    let i = seq.len();
    seq.push(t);
    let mut id = [0u8; 32];
    id[0] = 0xC1;
    id[31] = i as u8;
    resp.push(CloseGroupResponse {
        peer_id: NodeId::from_bytes(id),
        confirms_membership: w.confirm,
        peer_trust_score: w.trust,
        peer_region: if w.region < 4 { Some(REGION_NAMES[w.region as usize].to_string()) } else { None },
        response_latency: Duration::ZERO,
        received_at: now,
    });
}

struct Chunk {
    grid: usize,
    k: usize,
    prefix: Vec<usize>,
}

fn main() {
    let run = Run::new("C15", "exploration");
    quiet_panics();
    let distinct = Distinct::default();
    // internal wall-clock cap; VERIF_BUDGET_S overrides it (self-tests on a loaded machine)
    let budget_s = std::env::var("VERIF_BUDGET_S").ok().and_then(|s| s.parse().ok()).unwrap_or(run.tier.pick(52u64, 1700u64));
    let budget = Budget::new(Duration::from_secs(budget_s));

    let full = grid(&[(Some(0.9), 90), (Some(0.3), 30), (Some(0.29), 29), (Some(0.1), 10), (None, 50)], &[0, 1, 2, 3, 4]);
    let reduced = grid(&[(Some(0.9), 90), (Some(0.3), 30), (Some(0.1), 10)], &[0, 1, 2, 4]);
    let grids = [full, reduced];
    // size bounds: (grid, from, to). The reduced grid only adds the sizes above the full-grid bound.
    // quick = DESIGN bounds (<=5 full, 6..7 reduced: 7.1e8 evaluations, 11 s at load 12, ~28 s on a heavily shared machine);
    // size 8 (1.3e9) fits in ~20 s on 16 free cores but not when the machine is shared, so it is left to thorough.
    let (full_max, red_max) = run.tier.pick((5usize, 7usize), (6usize, 10usize));
    let plan: Vec<(usize, usize, usize)> = vec![(0, 0, full_max), (1, full_max + 1, red_max)];

    // settings: mode x enforcement x min_peers_to_query (7 comes from MaintenanceConfig::default(), threshold 5/7)
    let mut settings: Vec<Setting> = Vec::new();
    for attack in [true, false] {
        for enf in [CloseGroupEnforcementMode::Strict, CloseGroupEnforcementMode::LogOnly] {
            for q in [3usize, 5, 7] {
                let cfg = if q == 7 {
                    CloseGroupValidatorConfig::from_maintenance_config(&MaintenanceConfig::default()).with_enforcement_mode(enf)
                } else {
                    CloseGroupValidatorConfig { min_peers_to_query: q, enforcement_mode: enf, ..Default::default() }
                };
                if cfg.min_peers_to_query != q {
                    run.machinery_error(format!("from_maintenance_config gives min_peers_to_query {} (expected 7)", cfg.min_peers_to_query));
                }
                let v = CloseGroupValidator::new(cfg.clone());
                v.set_attack_mode(attack);
                settings.push(Setting { v, cfg, attack });
            }
        }
    }
    let cx = Ctx { run: &run, settings: &settings, node_id: NodeId::from_bytes([0x15; 32]) };

    // chunks ordered by size, then prefix (simplest first)
    let mut chunks: Vec<Chunk> = Vec::new();
    for &(g, from, to) in &plan {
        let t = grids[g].len();
        for k in from..=to {
            let p = k.min(if k >= 9 { 4 } else if k >= 7 { 3 } else { 2 });
            let mut pre = vec![0usize; p];
            if p == 0 {
                chunks.push(Chunk { grid: g, k, prefix: vec![] });
                continue;
            }
            'outer: loop {
                chunks.push(Chunk { grid: g, k, prefix: pre.clone() });
                // next non-decreasing prefix
                let mut i = p;
                loop {
                    if i == 0 {
                        break 'outer;
                    }
                    i -= 1;
                    if pre[i] + 1 < t {
                        pre[i] += 1;
                        for j in i + 1..p {
                            pre[j] = pre[i];
                        }
                        break;
                    }
                }
            }
        }
    }
    // per (grid, k): chunks total / done, multisets
    let levels: Vec<(usize, usize)> = plan.iter().flat_map(|&(g, from, to)| (from..=to).map(move |k| (g, k))).collect();
    let level_total: Vec<u64> = levels.iter().map(|l| chunks.iter().filter(|c| (c.grid, c.k) == *l).count() as u64).collect();
    let level_done: Vec<AtomicU64> = levels.iter().map(|_| AtomicU64::new(0)).collect();
    let level_multisets: Vec<AtomicU64> = levels.iter().map(|_| AtomicU64::new(0)).collect();
    let totals = Mutex::new(Local::default());
    let now = Instant::now();

    par_for(chunks.len(), |ci| {
        if budget.exceeded() {
            return;
        }
        let c = &chunks[ci];
        let types = &grids[c.grid];
        let mut loc = Local::default();
        let mut multisets = 0u64;
        let res = catch(|| {
            let mut seq = Vec::with_capacity(c.k);
            let mut resp = Vec::with_capacity(c.k);
            for &t in &c.prefix {
                push(types, t, &mut seq, &mut resp, now);
            }
            rec(&cx, types, c.k, &mut seq, &mut resp, now, &mut loc, &mut multisets);
        });
        if let Err(msg) = res {
            run.violation_lazy("C15.nopanic", feats(&[("entry", "CloseGroupValidator::validate_membership".into())]), || {
                (json!({"grid": c.grid, "size": c.k, "prefix_types": c.prefix, "panic": msg}), format!("panic in validate_membership: {msg}"))
            });
        }
        let li = levels.iter().position(|l| *l == (c.grid, c.k)).unwrap();
        level_done[li].fetch_add(1, Ordering::Relaxed);
        level_multisets[li].fetch_add(multisets, Ordering::Relaxed);
        let mut t = totals.lock().unwrap();
        t.evals += loc.evals;
        t.accepted += loc.accepted;
        t.strict_region_reading_would_reject += loc.strict_region_reading_would_reject;
        t.accepted_with_unknown_candidate += loc.accepted_with_unknown_candidate;
        t.norm_boundary += loc.norm_boundary;
        t.live_premises += loc.live_premises;
        t.f_premises += loc.f_premises;
        t.mono_flips += loc.mono_flips;
        for o in loc.outcomes {
            if t.outcomes.insert(o) {
                distinct.outcome(&o);
            }
        }
    });

    let t = totals.into_inner().unwrap();
    distinct.evals_add(t.evals);
    let mut completed = Vec::new();
    let mut incomplete = Vec::new();
    let mut total_multisets = 0u64;
    for (i, l) in levels.iter().enumerate() {
        let done = level_done[i].load(Ordering::Relaxed);
        let ms = level_multisets[i].load(Ordering::Relaxed);
        total_multisets += ms;
        let rec = json!({"grid": if l.0 == 0 { "full(50 types)" } else { "reduced(24 types)" }, "size": l.1, "multisets": ms, "chunks_done": done, "chunks": level_total[i]});
        if done == level_total[i] {
            completed.push(rec);
        } else {
            incomplete.push(rec);
        }
    }
    if budget.was_hit() {
        run.cap_hit(format!("wall-clock budget: {} of {} size levels complete", completed.len(), levels.len()));
        if completed.is_empty() {
            run.machinery_error("not even the base level completed");
        }
    }
    run.info_n("accepted_evaluations", t.accepted);
    run.info_n("attack_accepted_but_trusted_confirmers_span_fewer_regions(strict reading, informational)", t.strict_region_reading_would_reject);
    run.info_n("accepted_with_unknown_candidate_trust", t.accepted_with_unknown_candidate);
    run.info_n("normal_mode_accepted_exactly_on_threshold(rounding band, not judged)", t.norm_boundary);
    run.info_n("C15.live_premise_instances", t.live_premises);
    run.info_n("C15.f_premise_instances", t.f_premises);
    run.info_n("C15.mono_flip_evaluations", t.mono_flips);
    if t.live_premises == 0 || t.f_premises == 0 || t.mono_flips == 0 || t.accepted == 0 {
        run.machinery_error("an oracle premise was never exercised (live / f / mono / accepted)");
    }
    let wall = run.elapsed().as_secs_f64();
    let samples = vec![
        json!({"witnesses": witness_json(&grids[0], &[0, 1, 2, 25, 49], 0, None), "note": "size-5 multiset of the full grid, evaluated under 3 latency patterns x 12 settings x 3 candidate trusts"}),
        json!({"witnesses": witness_json(&grids[0], &[0, 5, 11], 1, None), "note": "all-equal latency pattern"}),
        json!({"witnesses": witness_json(&grids[1], &[0, 1, 2, 12, 13, 23], 2, None), "note": "reduced grid, equal-pairs latency pattern"}),
    ];
    let coverage = cov(vec![
        ("evaluations", json!(distinct.evaluations())),
        ("distinct_nontrivial", json!(distinct.distinct())),
        ("rule", json!("evaluation = one validate_membership call on (multiset, latency pattern, mode, enforcement, min_peers, candidate trust) incl. the mono re-evaluations; distinct = distinct observed (mode, is_valid, failure-reason set, confirming_regions, trusted-witness count) tuples")),
        ("samples", json!(samples)),
        ("exhaustive", json!(!budget.was_hit())),
        ("outcome_histogram", json!({"accepted": t.accepted, "rejected_or_mono": t.evals - t.accepted})),
        ("bounds", json!({"full_grid_types": grids[0].len(), "reduced_grid_types": grids[1].len(), "full_grid_max_size": full_max, "reduced_grid_sizes": [full_max + 1, red_max],
                           "settings": settings.len(), "candidate_trusts": CAND, "latency_patterns": PATTERNS, "multisets": total_multisets,
                           "levels_completed": completed, "levels_incomplete": incomplete, "evals_per_s": (t.evals as f64 / wall.max(0.001)) as u64})),
    ]);
    run.finish(
        coverage,
        vec![
            "witness sets are multisets: validate_membership never reads peer_id / received_at and is order-insensitive except for f64 summation order (normal mode), which the exact-boundary band absorbs".into(),
            "trusted witness = trust known and >= cfg.min_witness_trust (unknown trust is not trusted); normal-mode weight of an unknown-trust witness is 0.5 (anchor of the property)".into(),
            "'confirmations span the regions' = regions of all confirming responses (weakest reading); the trusted-confirmers-only reading is counted in info, not judged".into(),
            "collusion: judged by the SuspectedCollusion flag the validator reports, plus the one unambiguous case (>= 3 trusted witnesses, identical response times) as reference".into(),
            "thresholds are read from the config object handed to the validator (defaults; min 7 via from_maintenance_config => 5/7); C15.quorum additionally pins > 2/3".into(),
            "enforcement mode is varied although validate_membership does not read it (LogOnly only affects validate()/add_node)".into(),
            "'plus random larger sets' of the quantifier is not done: no sampling in this technique family".into(),
        ],
    );
}
