//! C16 — failing or distrusted peers are sidelined exactly as the stated policy says.
//!
//! (a) policy   BFS to fix-point over success/failure/trust/mark/forget histories on a real `EvictionManager`
//!              (rebuilt by replay), compared after every transition with the reference predicate of the statement.
//! (b) routing  BFS to fix-point over join/add/fail/evict histories on a real `DhtCoreEngine`: an evicted/failed id
//!              occurs in no `find_nodes` / FindNode answer for any probed key until it is added again.
//! (c) selector every ordered list of distinct candidates (<= 4, thorough 5) over an 8-id alphabet built around the
//!              f64 resolution of the score x every trust assignment over 8 values (incl. NaN, -0.5, 1.5; lists of the
//!              maximal length: the 6 boundary values) x counts 0..5 x 4 selector configurations, through
//!              `TrustAwarePeerSelector::{select_peers, select_storage_peers}`.
//! (d) engine   every routing table over the same alphabet x every pre-trusted subset (+ a family of 9..32-peer
//!              tables), trust selection disabled / enabled, through `DhtCoreEngine::{store, retrieve}`
//!              (`select_storage_peers` / `select_query_peers`), observing `StoreReceipt::stored_at` and the peers a
//!              recording `NetworkSender` is asked to query.
use saorsa_core::adaptive::{EigenTrustEngine, NodeId as AdaptiveNodeId, TrustProvider};
use saorsa_core::dht::core_engine::{DhtCoreEngine, DhtKey, DhtRequestWrapper, NodeCapacity, NodeId, NodeInfo};
use saorsa_core::dht::network_integration::{DhtMessage, DhtResponse};
use saorsa_core::dht::routing_maintenance::close_group_validator::{CloseGroupFailure, CloseGroupValidator, CloseGroupValidatorConfig};
use saorsa_core::dht::routing_maintenance::{EvictionManager, EvictionReason, MaintenanceConfig};
use saorsa_core::dht::trust_peer_selector::{TrustAwarePeerSelector, TrustSelectionConfig};
use serde_json::{Value, json};
use std::collections::{BTreeMap, HashMap, HashSet};
use std::sync::atomic::{AtomicU64, Ordering};
use std::sync::{Arc, Mutex};
use std::time::{Duration, SystemTime};
use vh::core::*;

// =====================================================================================================
// (a) eviction policy

#[derive(Clone, Debug)]
enum Ev {
    Success(usize),
    Failure(usize),
    Trust(usize, f64),
    Mark(usize, usize),
    Forget(usize),
}
fn mark_reason(i: usize) -> EvictionReason {
    match i {
        0 => EvictionReason::CloseGroupRejection,
        1 => EvictionReason::ConsecutiveFailures(99),
        2 => EvictionReason::Stale,
        _ => EvictionReason::LowTrust("marked".into()),
    }
}
fn ev_json(e: &Ev) -> Value {
    let p = |i: &usize| ["X", "Y", "Z"][*i];
    match e {
        Ev::Success(i) => json!({"record_success": p(i)}),
        Ev::Failure(i) => json!({"record_failure": p(i)}),
        Ev::Trust(i, t) => json!({"update_trust_score": [json!(p(i)), json!(t)]}),
        Ev::Mark(i, r) => json!({"record_eviction": [json!(p(i)), json!(format!("{:?}", mark_reason(*r)))]}),
        Ev::Forget(i) => json!({"remove_node": p(i)}),
    }
}
fn peer_id(i: usize) -> NodeId {
    let mut b = [0x16u8; 32];
    b[0] = 0xA0 + i as u8;
    NodeId::from_bytes(b)
}
#[derive(Clone, Default)]
struct RefPeer {
    fails: u32,
    trust: Option<f64>,
    marked: Option<EvictionReason>,
}
fn reason_kind(r: &EvictionReason) -> &'static str {
    match r {
        EvictionReason::ConsecutiveFailures(_) => "ConsecutiveFailures",
        EvictionReason::LowTrust(_) => "LowTrust",
        EvictionReason::CloseGroupRejection => "CloseGroupRejection",
        EvictionReason::Stale => "Stale",
    }
}

struct PolicyStats {
    states: u64,
    transitions: u64,
    fixpoint: bool,
    depth: usize,
    samples: Vec<Value>,
    revisits: u64,
}

fn policy_part(run: &Run, distinct: &Distinct, budget: &Budget, n_peers: usize, n_marks: usize, max_fail: u32, thr: f64, max_depth: usize) -> PolicyStats {
    let mut alpha: Vec<Ev> = Vec::new();
    for p in 0..n_peers {
        alpha.push(Ev::Failure(p));
        alpha.push(Ev::Success(p));
        for t in [0.1, 0.15, 0.2] {
            alpha.push(Ev::Trust(p, t));
        }
        for m in 0..n_marks {
            alpha.push(Ev::Mark(p, m));
        }
        alpha.push(Ev::Forget(p));
    }
    let cfg = MaintenanceConfig { max_consecutive_failures: max_fail, min_trust_threshold: thr, ..Default::default() };
    let cap = max_fail + 1;
    let stats = bfs(
        alpha.len(),
        max_depth,
        budget,
        |h: &[usize]| {
            let mut m = EvictionManager::new(cfg.clone());
            let mut r: Vec<RefPeer> = vec![RefPeer::default(); n_peers];
            for &i in h {
                match &alpha[i] {
                    Ev::Success(p) => {
                        m.record_success(&peer_id(*p));
                        r[*p].fails = 0;
                    }
                    Ev::Failure(p) => {
                        m.record_failure(&peer_id(*p));
                        r[*p].fails += 1;
                    }
                    Ev::Trust(p, t) => {
                        m.update_trust_score(&peer_id(*p), *t);
                        r[*p].trust = Some(*t);
                    }
                    Ev::Mark(p, k) => {
                        m.record_eviction(&peer_id(*p), mark_reason(*k));
                        r[*p].marked = Some(mark_reason(*k));
                    }
                    Ev::Forget(p) => {
                        m.remove_node(&peer_id(*p));
                        r[*p] = RefPeer::default();
                    }
                }
            }
            let hist = || json!({"config": {"max_consecutive_failures": max_fail, "min_trust_threshold": thr}, "events": h.iter().map(|&i| ev_json(&alpha[i])).collect::<Vec<_>>()});
            // ---- observe ----
            let cands = m.get_eviction_candidates();
            let mut canon: Vec<(u32, Option<u64>, (u8, u32), bool)> = Vec::new();
            let mut obs: Vec<(usize, (u8, u32), bool, bool)> = Vec::new();
            for p in 0..n_peers {
                let id = peer_id(p);
                let name = ["X", "Y", "Z"][p];
                let listed: Vec<&EvictionReason> = cands.iter().filter(|(i, _)| *i == id).map(|(_, r)| r).collect();
                let reason = m.get_eviction_reason(&id);
                let fails_obs = m.get_consecutive_failures(&id);
                let trust_obs = m.get_trust_score(&id);
                let se = m.should_evict(&id);
                let st = m.should_evict_for_trust(&id);
                distinct.eval();
                let exp_fail = r[p].fails >= max_fail;
                let exp_trust = r[p].trust.is_some_and(|t| t < thr);
                let exp_cand = r[p].marked.is_some() || exp_fail || exp_trust;
                let cause = if r[p].marked.is_some() {
                    "marked"
                } else if exp_fail {
                    "failures"
                } else if exp_trust {
                    "trust"
                } else {
                    "none"
                };
                distinct.outcome(&(max_fail, cause, listed.len(), reason.as_ref().map(reason_kind), r[p].fails.min(cap)));
                let wit = |what: String| {
                    let hv = hist();
                    let w = json!({"history": hv, "peer": name, "reference": {"failures_since_last_success": r[p].fails, "trust": r[p].trust, "marked": r[p].marked.as_ref().map(|x| format!("{x:?}")), "expected_candidate": exp_cand, "expected_cause": cause},
                        "observed": {"get_eviction_candidates": format!("{cands:?}"), "get_eviction_reason": format!("{reason:?}"), "get_consecutive_failures": fails_obs, "get_trust_score": trust_obs, "should_evict": se, "should_evict_for_trust": st}});
                    (w, what)
                };
                if listed.len() > 1 {
                    run.violation_lazy("C16.evict-candidates", feats(&[("entry", "get_eviction_candidates".into()), ("shape", "listed-twice".into())]), || wit(format!("peer {name} listed {} times", listed.len())));
                }
                if listed.is_empty() && exp_cand {
                    run.violation_lazy("C16.evict-candidates", feats(&[("entry", "get_eviction_candidates".into()), ("shape", format!("missing-{cause}"))]), || wit(format!("peer {name} should be a candidate ({cause}) but is not listed")));
                }
                if !listed.is_empty() && !exp_cand {
                    run.violation_lazy("C16.evict-candidates", feats(&[("entry", "get_eviction_candidates".into()), ("shape", format!("spurious-{}", reason_kind(listed[0])))]), || wit(format!("peer {name} listed as {:?} but no rule applies", listed[0])));
                }
                if reason.is_some() != exp_cand {
                    run.violation_lazy("C16.evict-candidates", feats(&[("entry", "get_eviction_reason".into()), ("shape", if exp_cand { format!("missing-{cause}") } else { "spurious".into() })]), || wit(format!("get_eviction_reason({name}) = {reason:?}, expected candidate = {exp_cand}")));
                }
                // reason precedence: marked > failures > trust
                for (entry, got) in [("get_eviction_candidates", listed.first().copied()), ("get_eviction_reason", reason.as_ref())] {
                    let Some(got) = got else { continue };
                    let ok = match cause {
                        "marked" => Some(got) == r[p].marked.as_ref(),
                        "failures" => *got == EvictionReason::ConsecutiveFailures(r[p].fails),
                        "trust" => matches!(got, EvictionReason::LowTrust(_)),
                        _ => true,
                    };
                    if !ok {
                        run.violation_lazy("C16.evict-reason", feats(&[("entry", entry.into()), ("expected", cause.into()), ("got", reason_kind(got).into())]), || wit(format!("{entry}: reason {got:?} for peer {name}, expected cause {cause}")));
                    }
                }
                if se != exp_fail {
                    run.violation_lazy("C16.evict-accessors", feats(&[("entry", "should_evict".into()), ("shape", if exp_fail { "false-at-threshold" } else { "true-below-threshold" }.into())]), || wit(format!("should_evict({name}) = {se} with {} consecutive failures (max {max_fail})", r[p].fails)));
                }
                if st != exp_trust {
                    run.violation_lazy("C16.evict-accessors", feats(&[("entry", "should_evict_for_trust".into()), ("shape", format!("expected-{exp_trust}"))]), || wit(format!("should_evict_for_trust({name}) = {st} with trust {:?} (threshold {thr})", r[p].trust)));
                }
                if fails_obs != r[p].fails {
                    run.violation_lazy("C16.evict-accessors", feats(&[("entry", "get_consecutive_failures".into()), ("shape", if fails_obs > r[p].fails { "too-high" } else { "too-low" }.into())]), || wit(format!("get_consecutive_failures({name}) = {fails_obs}, expected {}", r[p].fails)));
                }
                if trust_obs.map(f64::to_bits) != r[p].trust.map(f64::to_bits) {
                    run.violation_lazy("C16.evict-accessors", feats(&[("entry", "get_trust_score".into())]), || wit(format!("get_trust_score({name}) = {trust_obs:?}, expected {:?}", r[p].trust)));
                }
                if let Some(&last) = h.last()
                    && let Ev::Success(q) = &alpha[last]
                    && *q == p
                {
                    let bad = se || fails_obs != 0 || (r[p].marked.is_none() && matches!(reason, Some(EvictionReason::ConsecutiveFailures(_))));
                    if bad {
                        run.violation_lazy("C16.evict-success-clears", feats(&[("entry", "record_success".into())]), || wit(format!("after a success peer {name} still has failure-based candidacy (should_evict={se}, failures={fails_obs}, reason={reason:?})")));
                    }
                }
                let reason_c: (u8, u32) = match &reason {
                    None => (0, 0),
                    Some(EvictionReason::ConsecutiveFailures(n)) if r[p].marked.is_none() => (1, (*n).min(cap)),
                    Some(EvictionReason::ConsecutiveFailures(n)) => (2, *n),
                    Some(EvictionReason::LowTrust(x)) => (3, hash64(x) as u32),
                    Some(EvictionReason::CloseGroupRejection) => (4, 0),
                    Some(EvictionReason::Stale) => (5, 0),
                };
                canon.push((fails_obs.min(cap), trust_obs.map(f64::to_bits), reason_c, m.get_liveness_state(&id).is_some()));
                obs.push((listed.len(), reason_c, se, st));
            }
            for (id, rsn) in &cands {
                if !(0..n_peers).any(|p| peer_id(p) == *id) {
                    run.violation_lazy("C16.evict-candidates", feats(&[("entry", "get_eviction_candidates".into()), ("shape", "unknown-peer".into())]), || (json!({"history": hist(), "listed": format!("{id} {rsn:?}")}), "candidate list names a peer no event mentioned".into()));
                }
            }
            Some((canon, hash64(&obs)))
        },
        |a, b| run.machinery_error(format!("(a) canonicalisation mismatch between histories {a:?} and {b:?} (max_fail {max_fail})")),
    );
    PolicyStats {
        states: stats.states,
        transitions: stats.transitions,
        fixpoint: stats.fixpoint,
        depth: stats.max_depth,
        revisits: stats.revisits,
        samples: stats.sample_histories.iter().take(2).map(|h| json!({"part": "a", "max_consecutive_failures": max_fail, "events": h.iter().map(|&i| ev_json(&alpha[i])).collect::<Vec<_>>()})).collect(),
    }
}

// =====================================================================================================
// shared id helpers for (b), (c), (d)

fn key_bytes() -> [u8; 32] {
    *blake3::hash(b"vh-c16-key").as_bytes()
}
fn xor_at(mut b: [u8; 32], mask: &[(usize, u8)]) -> [u8; 32] {
    for &(i, m) in mask {
        b[i] ^= m;
    }
    b
}
fn node_at(id: [u8; 32], tag: usize, variant: u8) -> NodeInfo {
    NodeInfo {
        id: NodeId::from_bytes(id),
        // distinct /8 per id: the IP-diversity and region gates of add_node never bind here (C13 covers them)
        address: format!("{}.{}.{}.1:{}", 11 + (tag % 100), tag % 250, variant, 9000 + variant as u16),
        last_seen: SystemTime::UNIX_EPOCH + Duration::from_secs(1_700_000_000),
        capacity: NodeCapacity::default(),
    }
}
fn xor_dist(a: &[u8; 32], b: &[u8; 32]) -> [u8; 32] {
    let mut d = [0u8; 32];
    for i in 0..32 {
        d[i] = a[i] ^ b[i];
    }
    d
}

// =====================================================================================================
// (b) routing: evicted/failed ids are not listed until re-added

/// id = local id XOR mask; masks put peers in the same bucket (0x80/0xC0), neighbouring buckets and the deep buckets.
const ROUTE_MASKS: [&[(usize, u8)]; 9] = [&[(0, 0x80)], &[(0, 0xC0)], &[(0, 0x40)], &[(31, 0x01)], &[(0, 0x01)], &[(31, 0x03)], &[(15, 0x80)], &[(16, 0x01)], &[(0, 0x20)]];

fn route_local() -> [u8; 32] {
    *blake3::hash(b"vh-c16-local").as_bytes()
}
fn route_id(i: usize) -> [u8; 32] {
    xor_at(route_local(), ROUTE_MASKS[i])
}
#[derive(Clone, Debug)]
enum Rop {
    Join(usize),
    Add(usize),
    Fail(usize),
    Evict(usize),
    EvictSec(usize),
}
fn rop_json(o: &Rop) -> Value {
    let m = |i: &usize| format!("local^{:?}", ROUTE_MASKS[*i].iter().map(|(b, v)| format!("byte{b}:{v:#04x}")).collect::<Vec<_>>());
    match o {
        Rop::Join(i) => json!({"join_network": m(i)}),
        Rop::Add(i) => json!({"add_node": m(i)}),
        Rop::Fail(i) => json!({"handle_node_failure": m(i)}),
        Rop::Evict(i) => json!({"evict_node(Stale)": m(i)}),
        Rop::EvictSec(i) => json!({"evict_node_for_security(SuspectedCollusion)": m(i)}),
    }
}
async fn fresh_engine(local: [u8; 32]) -> DhtCoreEngine {
    let e = DhtCoreEngine::new(NodeId::from_bytes(local)).expect("engine");
    // production (DhtNetworkManager) uses LogOnly validation; the constructor for it is crate-private
    *e.close_group_validator().write().await = CloseGroupValidator::new(CloseGroupValidatorConfig::log_only());
    e
}

struct RouteStats {
    stats: BfsStats,
    samples: Vec<Value>,
}

fn routing_part(run: &Run, distinct: &Distinct, budget: &Budget, n_ids: usize, with_sec: bool, max_depth: usize) -> RouteStats {
    let mut ops: Vec<Rop> = Vec::new();
    for i in 0..n_ids {
        ops.push(Rop::Join(i));
    }
    for i in 0..n_ids {
        ops.push(Rop::Add(i));
    }
    for i in 0..n_ids {
        ops.push(Rop::Evict(i));
        ops.push(Rop::Fail(i));
        if with_sec {
            ops.push(Rop::EvictSec(i));
        }
    }
    // probed keys: every alphabet id, the local id, its complement, and a sweep over byte 0 / byte 31
    let mut targets: Vec<[u8; 32]> = (0..n_ids).map(route_id).collect();
    targets.push(route_local());
    targets.push(xor_at(route_local(), &[(0, 0xFF), (31, 0xFF)]));
    for v in [0x10u8, 0x30, 0x50, 0x70, 0x90, 0xB0, 0xD0, 0xF0] {
        targets.push(xor_at(route_local(), &[(0, v)]));
    }
    for v in [0x02u8, 0x04, 0x80] {
        targets.push(xor_at(route_local(), &[(31, v)]));
    }
    targets.push(key_bytes());
    const COUNTS: [usize; 5] = [1, 3, 8, 20, 64];
    let stats = bfs(
        ops.len(),
        max_depth,
        budget,
        |h: &[usize]| {
            let rt = tokio::runtime::Builder::new_current_thread().enable_all().build().unwrap();
            rt.block_on(async {
                let mut e = fresh_engine(route_local()).await;
                // reference: who was removed (and how) and not re-added since
                let mut removed: BTreeMap<usize, &'static str> = BTreeMap::new();
                for &i in h {
                    match &ops[i] {
                        Rop::Join(x) => {
                            if e.join_network(vec![node_at(route_id(*x), *x, 0)]).await.is_ok() {
                                removed.remove(x);
                            }
                        }
                        Rop::Add(x) => {
                            if e.add_node(node_at(route_id(*x), *x, 0)).await.is_ok() {
                                removed.remove(x);
                            }
                        }
                        Rop::Fail(x) => {
                            let _ = e.handle_node_failure(NodeId::from_bytes(route_id(*x))).await;
                            removed.insert(*x, "handle_node_failure");
                        }
                        Rop::Evict(x) => {
                            let _ = e.evict_node(&NodeId::from_bytes(route_id(*x)), EvictionReason::Stale).await;
                            removed.insert(*x, "evict_node");
                        }
                        Rop::EvictSec(x) => {
                            let _ = e.evict_node_for_security(&NodeId::from_bytes(route_id(*x)), CloseGroupFailure::SuspectedCollusion).await;
                            removed.insert(*x, "evict_node_for_security");
                        }
                    }
                }
                let hist = || json!(h.iter().map(|&i| rop_json(&ops[i])).collect::<Vec<_>>());
                let idx_of = |n: &NodeInfo| (0..n_ids).find(|&i| *n.id.as_bytes() == route_id(i));
                let mut listed_any = vec![false; n_ids];
                let mut obs: Vec<(usize, usize, Vec<usize>)> = Vec::new();
                for (ti, t) in targets.iter().enumerate() {
                    let key = DhtKey::from_bytes(*t);
                    for &count in COUNTS.iter() {
                        for entry in 0..2 {
                            let (name, nodes) = if entry == 0 {
                                ("DhtCoreEngine::find_nodes", e.find_nodes(&key, count).await.unwrap_or_default())
                            } else {
                                let rsp = e.handle_request(DhtRequestWrapper { id: "q".into(), message: DhtMessage::FindNode { target: key.clone(), count } }).await;
                                match rsp.response {
                                    DhtResponse::FindNodeReply { nodes, .. } => ("handle_request(FindNode)", nodes),
                                    _ => ("handle_request(FindNode)", vec![]),
                                }
                            };
                            distinct.eval();
                            let got: Vec<usize> = nodes.iter().map(|n| idx_of(n).unwrap_or(99)).collect();
                            for &g in &got {
                                if g < n_ids {
                                    listed_any[g] = true;
                                }
                                if let Some(by) = removed.get(&g) {
                                    run.violation_lazy("C16.route-evicted-listed", feats(&[("entry", name.into()), ("removed_by", (*by).into())]), || {
                                        (json!({"history": hist(), "key": hex::encode(t), "count": count, "entry": name, "answer_ids": got.iter().map(|&g| if g < n_ids { rop_json(&Rop::Join(g))["join_network"].clone() } else { json!("?") }).collect::<Vec<_>>(),
                                                "offending": rop_json(&Rop::Join(g))["join_network"], "local_id": hex::encode(route_local())}),
                                         format!("{name}: peer #{g} removed by {by} and not re-added is still listed (count {count})"))
                                    });
                                }
                            }
                            if entry == 0 {
                                obs.push((ti, count, got));
                            }
                        }
                    }
                }
                distinct.outcome(&(listed_any.clone(), removed.keys().copied().collect::<Vec<_>>()));
                // canon: per id (listed in some answer, reference removed-flag). The flag is input-derived and only
                // separates "never added" from "removed" for the oracle; the table itself is a function of `listed`.
                let canon: Vec<(bool, bool)> = (0..n_ids).map(|i| (listed_any[i], removed.contains_key(&i))).collect();
                Some((canon, hash64(&obs)))
            })
        },
        |a, b| run.machinery_error(format!("(b) canonicalisation mismatch between histories {a:?} and {b:?}")),
    );
    let samples = stats.sample_histories.iter().take(2).map(|h| json!({"part": "b", "ops": h.iter().map(|&i| rop_json(&ops[i])).collect::<Vec<_>>()})).collect();
    RouteStats { stats, samples }
}

// =====================================================================================================
// (c) selector

/// candidate id = key XOR mask. In true (256-bit) distance order: S6 < S7 < S5 < S3 < S4 < S2 < S0 < S1.
const SEL_MASKS: [&[(usize, u8)]; 8] = [
    &[(0, 0x80)],             // S0 far
    &[(0, 0x80), (15, 0x01)], // S1 far + 1 unit of the top-16-byte distance (below f64 resolution at this magnitude)
    &[(0, 0x01)],             // S2 differs in bit 7
    &[(15, 0x01)],            // S3 top-16 distance 1   (1 + 1e-30 == 1 in f64)
    &[(15, 0x02)],            // S4 top-16 distance 2
    &[(16, 0x01)],            // S5 differs only below byte 16
    &[(31, 0x01)],            // S6
    &[(31, 0x02)],            // S7
];
const TRUSTS: [f64; 8] = [0.5, 0.0, 0.19, 0.2, 1.0, f64::NAN, -0.5, 1.5];

fn sel_id(i: usize) -> [u8; 32] {
    xor_at(key_bytes(), SEL_MASKS[i])
}
fn sel_desc(i: usize) -> String {
    format!("S{i}=key^{:?}", SEL_MASKS[i].iter().map(|(b, v)| format!("byte{b}:{v:#04x}")).collect::<Vec<_>>())
}

struct TableTrust {
    ids: Vec<[u8; 32]>,
    vals: Vec<AtomicU64>,
}
impl TableTrust {
    fn new(ids: Vec<[u8; 32]>) -> Self {
        let vals = ids.iter().map(|_| AtomicU64::new(0f64.to_bits())).collect();
        TableTrust { ids, vals }
    }
    fn set(&self, i: usize, t: f64) {
        self.vals[i].store(t.to_bits(), Ordering::Relaxed);
    }
}
impl TrustProvider for TableTrust {
    fn get_trust(&self, node: &AdaptiveNodeId) -> f64 {
        for (i, id) in self.ids.iter().enumerate() {
            if *id == node.hash {
                return f64::from_bits(self.vals[i].load(Ordering::Relaxed));
            }
        }
        0.0
    }
    fn update_trust(&self, _from: &AdaptiveNodeId, _to: &AdaptiveNodeId, _success: bool) {}
    fn get_global_trust(&self) -> HashMap<AdaptiveNodeId, f64> {
        HashMap::new()
    }
    fn remove_node(&self, _node: &AdaptiveNodeId) {}
}

#[derive(Clone)]
struct SelCfg {
    name: &'static str,
    query: TrustSelectionConfig,
    storage: Option<TrustSelectionConfig>, // None: built with `new` (=> for_storage)
    use_storage_entry: bool,
}

/// What the statement allows to judge for a pair (a closer than b, equal non-NaN trust, both eligible).
fn closer_cause(a: usize, b: usize, trust: f64, trust_weight: f64, key: &[u8; 32], ids: &[[u8; 32]]) -> String {
    if trust < 0.0 {
        return "negative-trust".into();
    }
    if trust_weight == 0.0 && trust == 0.0 {
        return "zero-trust-factor(weight0,trust0)".into();
    }
    let da = xor_dist(&ids[a], key);
    let db = xor_dist(&ids[b], key);
    let first = (0..32).find(|&i| da[i] != db[i]).unwrap_or(32);
    if first >= 16 {
        "distance-differs-only-below-byte-16".into()
    } else if first >= 1 {
        "distance-differs-first-in-bytes-1..15".into()
    } else {
        "distance-differs-in-byte-0".into()
    }
}

#[derive(Default)]
struct SelLocal {
    calls: u64,
    outcomes: HashSet<u64>,
    trust_order_inverted_top16_equal: u64,
    nan_selected: u64,
}

struct SelCtx<'a> {
    run: &'a Run,
    cfgs: &'a [SelCfg],
    ids: Vec<[u8; 32]>,
    rank: Vec<usize>, // true-distance rank of each alphabet id
    key: [u8; 32],
    counts: Vec<usize>,
}

/// Judge one selection. `list` = candidate indices in input order, `trust[i]` = trust of alphabet id i.
#[allow(clippy::too_many_arguments)]
fn judge_selection(cx: &SelCtx<'_>, entry: &str, cfgname: &str, cfg: &TrustSelectionConfig, list: &[usize], trust: &[f64], count: usize, out: &[NodeInfo], cand_nodes: &[NodeInfo], loc: &mut SelLocal) {
    let n_alpha = cx.ids.len();
    let got: Vec<usize> = out.iter().map(|n| (0..n_alpha).find(|&i| *n.id.as_bytes() == cx.ids[i]).unwrap_or(99)).collect();
    let input_sorted = list.windows(2).all(|w| cx.rank[w[0]] < cx.rank[w[1]]);
    let wit = |what: String| {
        (
            json!({"entry": entry, "config": {"name": cfgname, "trust_weight": cfg.trust_weight, "min_trust_threshold": cfg.min_trust_threshold, "exclude_untrusted": cfg.exclude_untrusted},
               "key": hex::encode(cx.key), "count": count,
               "candidates_in_input_order": list.iter().map(|&i| json!({"id": sel_desc(i), "trust": format!("{}", trust[i]), "true_distance_rank": cx.rank[i]})).collect::<Vec<_>>(),
               "selected": got.iter().map(|&g| if g < n_alpha { sel_desc(g) } else { "UNKNOWN".into() }).collect::<Vec<_>>(),
               "input_sorted_by_distance": input_sorted}),
            what,
        )
    };
    let e = |s: &str| s.to_string();
    // subset / distinct / count
    for (pos, &g) in got.iter().enumerate() {
        let member = g < n_alpha && list.contains(&g) && cand_nodes.iter().any(|c| c.id == out[pos].id && c.address == out[pos].address);
        if !member {
            cx.run.violation_lazy("C16.sel-subset", feats(&[("entry", e(entry))]), || wit(format!("{entry}: selected peer #{pos} is not one of the candidates")));
        }
        if got[..pos].contains(&g) {
            cx.run.violation_lazy("C16.sel-distinct", feats(&[("entry", e(entry))]), || wit(format!("{entry}: peer selected twice")));
        }
    }
    if got.len() > count {
        cx.run.violation_lazy("C16.sel-count", feats(&[("entry", e(entry))]), || wit(format!("{entry}: {} peers selected, {count} requested", got.len())));
    }
    // floor
    if cfg.exclude_untrusted {
        for &g in &got {
            if g < n_alpha && trust[g] < cfg.min_trust_threshold {
                let cls = if trust[g] < 0.0 { "negative" } else { "in-range" };
                cx.run.violation_lazy("C16.sel-floor", feats(&[("entry", e(entry)), ("trust", cls.into())]), || wit(format!("{entry}: selected peer with trust {} below the floor {}", trust[g], cfg.min_trust_threshold)));
            }
        }
    }
    for &g in &got {
        if g < n_alpha && trust[g].is_nan() {
            loc.nan_selected += 1;
        }
    }
    // no farther-before-closer at equal trust (true 256-bit XOR distance)
    let eligible = |i: usize| !trust[i].is_nan() && !(cfg.exclude_untrusted && trust[i] < cfg.min_trust_threshold);
    for (jb, &b) in got.iter().enumerate() {
        if b >= n_alpha || trust[b].is_nan() {
            continue;
        }
        for &a in list {
            if a == b || trust[a].to_bits() != trust[b].to_bits() || cx.rank[a] >= cx.rank[b] || !eligible(a) {
                continue;
            }
            // a is closer than b with equal trust: it must be selected, ahead of b
            let pa = got.iter().position(|&g| g == a);
            if pa.is_none_or(|p| p > jb) {
                let cause = closer_cause(a, b, trust[a], cfg.trust_weight, &cx.key, &cx.ids);
                let form = if pa.is_none() { "closer peer dropped" } else { "farther peer first" };
                cx.run.violation_lazy("C16.sel-closer", feats(&[("entry", e(entry)), ("cause", cause.clone()), ("input_sorted", input_sorted.to_string())]), || {
                    wit(format!("{entry}[{cfgname}]: {} (trust {}) ranked ahead of closer {} of equal trust ({form}; {cause})", sel_desc(b), trust[b], sel_desc(a)))
                });
            }
        }
    }
    // informational: less-trusted ahead of more-trusted among ids the selector itself treats as equidistant
    // (equal first 16 bytes). Under exact XOR distance only identical ids are equidistant, so this is not a verdict.
    for (ja, &a) in got.iter().enumerate() {
        for &b in &got[ja + 1..] {
            if a < n_alpha && b < n_alpha && cx.ids[a][..16] == cx.ids[b][..16] && trust[a] < trust[b] && cfg.trust_weight < 1.0 && trust[a] >= 0.0 {
                loc.trust_order_inverted_top16_equal += 1;
            }
        }
    }
    let inv = got.windows(2).any(|w| w[0] < n_alpha && w[1] < n_alpha && cx.rank[w[0]] > cx.rank[w[1]]);
    loc.outcomes.insert(hash64(&(entry, cfgname, &got, inv)));
}

struct SelStats {
    lists: u64,
    assignments: u64,
    calls: u64,
    lists_done_by_len: Vec<(usize, u64, u64)>,
    info_trust_inv: u64,
    nan_selected: u64,
}

fn selector_part(run: &Run, distinct: &Distinct, budget: &Budget, max_len: usize, trusts_long: &[f64]) -> SelStats {
    let cfgs = vec![
        SelCfg { name: "default+for_storage", query: TrustSelectionConfig::default(), storage: None, use_storage_entry: true },
        SelCfg { name: "weight0", query: TrustSelectionConfig { trust_weight: 0.0, ..TrustSelectionConfig::for_queries() }, storage: Some(TrustSelectionConfig { trust_weight: 0.0, ..TrustSelectionConfig::for_storage() }), use_storage_entry: true },
        SelCfg { name: "weight1", query: TrustSelectionConfig { trust_weight: 1.0, ..TrustSelectionConfig::for_queries() }, storage: Some(TrustSelectionConfig { trust_weight: 1.0, ..TrustSelectionConfig::for_storage() }), use_storage_entry: true },
        SelCfg { name: "queries+exclude0.2", query: TrustSelectionConfig { exclude_untrusted: true, min_trust_threshold: 0.2, ..TrustSelectionConfig::for_queries() }, storage: None, use_storage_entry: false },
    ];
    let key = key_bytes();
    let ids: Vec<[u8; 32]> = (0..SEL_MASKS.len()).map(sel_id).collect();
    let mut order: Vec<usize> = (0..ids.len()).collect();
    order.sort_by_key(|&i| xor_dist(&ids[i], &key));
    let mut rank = vec![0usize; ids.len()];
    for (r, &i) in order.iter().enumerate() {
        rank[i] = r;
    }
    let cx = SelCtx { run, cfgs: &cfgs, ids: ids.clone(), rank, key, counts: (0..=5).collect() };
    // all ordered lists of distinct ids, shortest first
    let mut lists: Vec<Vec<usize>> = vec![vec![]];
    let mut level: Vec<Vec<usize>> = vec![vec![]];
    for _ in 0..max_len {
        let mut next = Vec::new();
        for l in &level {
            for i in 0..ids.len() {
                if !l.contains(&i) {
                    let mut l2 = l.clone();
                    l2.push(i);
                    next.push(l2);
                }
            }
        }
        lists.extend(next.iter().cloned());
        level = next;
    }
    let done_by_len: Vec<AtomicU64> = (0..=max_len).map(|_| AtomicU64::new(0)).collect();
    let totals = Mutex::new(SelLocal::default());
    let assignments = AtomicU64::new(0);
    par_for(lists.len(), |li| {
        if budget.exceeded() {
            return;
        }
        let list = &lists[li];
        let n = list.len();
        let trusts: &[f64] = if n >= max_len && n >= 4 { trusts_long } else { &TRUSTS };
        let table = Arc::new(TableTrust::new(ids.clone()));
        let selectors: Vec<TrustAwarePeerSelector<TableTrust>> = cx
            .cfgs
            .iter()
            .map(|c| match &c.storage {
                None => TrustAwarePeerSelector::new(table.clone(), c.query.clone()),
                Some(s) => TrustAwarePeerSelector::with_storage_config(table.clone(), c.query.clone(), s.clone()),
            })
            .collect();
        let cand_nodes: Vec<NodeInfo> = list.iter().map(|&i| node_at(ids[i], i, 0)).collect();
        let dkey = DhtKey::from_bytes(key);
        let mut loc = SelLocal::default();
        let mut trust = vec![0.0f64; ids.len()];
        let total = trusts.len().pow(n as u32);
        let r = catch(|| {
            for code in 0..total {
                let mut c = code;
                for &i in list.iter() {
                    trust[i] = trusts[c % trusts.len()];
                    table.set(i, trust[i]);
                    c /= trusts.len();
                }
                for (si, sel) in selectors.iter().enumerate() {
                    let cfg = &cx.cfgs[si];
                    for &count in &cx.counts {
                        let out = sel.select_peers(&dkey, &cand_nodes, count);
                        loc.calls += 1;
                        judge_selection(&cx, "TrustAwarePeerSelector::select_peers", cfg.name, sel.config(), list, &trust, count, &out, &cand_nodes, &mut loc);
                        if cfg.use_storage_entry {
                            let out = sel.select_storage_peers(&dkey, &cand_nodes, count);
                            loc.calls += 1;
                            judge_selection(&cx, "TrustAwarePeerSelector::select_storage_peers", cfg.name, sel.storage_config(), list, &trust, count, &out, &cand_nodes, &mut loc);
                        }
                    }
                }
            }
        });
        if let Err(msg) = r {
            run.violation_lazy("C16.nopanic", feats(&[("entry", "TrustAwarePeerSelector".into())]), || (json!({"candidates": list.iter().map(|&i| sel_desc(i)).collect::<Vec<_>>(), "panic": msg}), format!("selector panicked: {msg}")));
        }
        assignments.fetch_add(total as u64, Ordering::Relaxed);
        done_by_len[n].fetch_add(1, Ordering::Relaxed);
        let mut t = totals.lock().unwrap();
        t.calls += loc.calls;
        t.trust_order_inverted_top16_equal += loc.trust_order_inverted_top16_equal;
        t.nan_selected += loc.nan_selected;
        for o in loc.outcomes {
            if t.outcomes.insert(o) {
                distinct.outcome(&o);
            }
        }
    });
    let t = totals.into_inner().unwrap();
    distinct.evals_add(t.calls);
    let lists_done_by_len = (0..=max_len).map(|n| (n, done_by_len[n].load(Ordering::Relaxed), lists.iter().filter(|l| l.len() == n).count() as u64)).collect();
    SelStats { lists: lists.len() as u64, assignments: assignments.into_inner(), calls: t.calls, lists_done_by_len, info_trust_inv: t.trust_order_inverted_top16_equal, nan_selected: t.nan_selected }
}

// =====================================================================================================
// (d) engine: store()/retrieve() targets

struct Recorder {
    local: String,
    sent: Mutex<Vec<String>>,
}
#[async_trait::async_trait]
impl saorsa_core::NetworkSender for Recorder {
    async fn send_message(&self, peer_id: &saorsa_core::PeerId, _protocol: &str, _data: Vec<u8>) -> saorsa_core::Result<()> {
        self.sent.lock().unwrap().push(peer_id.clone());
        Ok(()) // never answered: the query times out on the paused clock
    }
    fn local_peer_id(&self) -> &saorsa_core::PeerId {
        &self.local
    }
}

struct EngCase {
    ids: Vec<[u8; 32]>,  // table content, in insertion order
    trusted: Vec<bool>,  // pre-trusted (0.9) or unknown (0.0)
    desc: Value,
}

fn engine_case(run: &Run, distinct: &Distinct, case: &EngCase, local: [u8; 32], keys: &[[u8; 32]], loc_outcomes: &mut HashSet<u64>) -> u64 {
    let mut runs = 0;
    for enabled in [false, true] {
        for key in keys {
            let rt = tokio::runtime::Builder::new_current_thread().enable_all().start_paused(true).build().unwrap();
            let res = catch(|| {
                rt.block_on(async {
                    let mut e = fresh_engine(local).await;
                    let nodes: Vec<NodeInfo> = case.ids.iter().enumerate().map(|(i, id)| node_at(*id, i, 0)).collect();
                    e.join_network(nodes).await.expect("join");
                    let rec = Arc::new(Recorder { local: hex::encode(local), sent: Mutex::new(Vec::new()) });
                    e.set_transport(rec.clone());
                    if enabled {
                        let pre: HashSet<AdaptiveNodeId> = case.ids.iter().zip(&case.trusted).filter(|(_, t)| **t).map(|(id, _)| AdaptiveNodeId::from_bytes(*id)).collect();
                        e.enable_trust_selection(Arc::new(EigenTrustEngine::new(pre)), TrustSelectionConfig::default());
                    }
                    let dkey = DhtKey::from_bytes(*key);
                    let _ = e.retrieve(&dkey).await;
                    let queried: Vec<String> = rec.sent.lock().unwrap().clone();
                    let receipt = e.store(&dkey, b"v".to_vec()).await.expect("store");
                    (queried, receipt.stored_at)
                })
            });
            runs += 1;
            let (queried, stored) = match res {
                Ok(x) => x,
                Err(msg) => {
                    run.violation_lazy("C16.nopanic", feats(&[("entry", "DhtCoreEngine::store/retrieve".into())]), || (json!({"table": case.desc, "panic": msg}), format!("engine panicked: {msg}")));
                    continue;
                }
            };
            let n = case.ids.len();
            let mut order: Vec<usize> = (0..n).collect();
            order.sort_by_key(|&i| xor_dist(&case.ids[i], key));
            let mut rank = vec![0usize; n];
            for (r, &i) in order.iter().enumerate() {
                rank[i] = r;
            }
            let idx_hex = |h: &str| (0..n).find(|&i| hex::encode(case.ids[i]) == h);
            let stored_idx: Vec<Option<usize>> = stored.iter().map(|s| (0..n).find(|&i| *s.as_bytes() == case.ids[i])).collect();
            let queried_idx: Vec<Option<usize>> = queried.iter().map(|s| idx_hex(s)).collect();
            for (entry, got, cap, floor) in [("DhtCoreEngine::store(stored_at)", &stored_idx, 8usize, enabled), ("DhtCoreEngine::retrieve(queried peers)", &queried_idx, 3usize, false)] {
                distinct.eval();
                loc_outcomes.insert(hash64(&(entry, enabled, got.iter().map(|g| g.map(|i| (rank[i], case.trusted[i]))).collect::<Vec<_>>())));
                let wit = |what: String| {
                    (
                        json!({"entry": entry, "trust_selection": if enabled { "enabled(default queries, for_storage)" } else { "disabled" }, "table": case.desc, "key": hex::encode(key), "local_id": hex::encode(local),
                           "table_by_true_distance": order.iter().map(|&i| json!({"insert_index": i, "id": hex::encode(case.ids[i]), "trust": if case.trusted[i] { 0.9 } else { 0.0 }})).collect::<Vec<_>>(),
                           "answer_as_distance_ranks": got.iter().map(|g| g.map(|i| rank[i])).collect::<Vec<_>>()}),
                        what,
                    )
                };
                let e = entry.to_string();
                if got.iter().any(|g| g.is_none()) {
                    run.violation_lazy("C16.sel-subset", feats(&[("entry", e.clone())]), || wit(format!("{entry}: a target is not in the routing table")));
                }
                let g: Vec<usize> = got.iter().flatten().copied().collect();
                if (0..g.len()).any(|i| g[..i].contains(&g[i])) {
                    run.violation_lazy("C16.sel-distinct", feats(&[("entry", e.clone())]), || wit(format!("{entry}: a peer is targeted twice")));
                }
                if g.len() > cap {
                    run.violation_lazy("C16.sel-count", feats(&[("entry", e.clone())]), || wit(format!("{entry}: {} targets, at most {cap} requested", g.len())));
                }
                if !enabled {
                    let want: Vec<usize> = order.iter().copied().take(cap).collect();
                    if g != want {
                        let same_set = {
                            let (mut a, mut b) = (g.clone(), want.clone());
                            a.sort();
                            b.sort();
                            a == b
                        };
                        let shape = if g.len() != want.len() {
                            "wrong-number"
                        } else if same_set {
                            "wrong-order"
                        } else {
                            "not-the-closest"
                        };
                        run.violation_lazy("C16.eng-disabled", feats(&[("entry", e.clone()), ("shape", shape.into())]), || wit(format!("{entry}: trust selection disabled but targets are ranks {:?}, expected {:?}", g.iter().map(|&i| rank[i]).collect::<Vec<_>>(), (0..want.len()).collect::<Vec<_>>())));
                    }
                    continue;
                }
                if floor {
                    if let Some(&bad) = g.iter().find(|&&i| !case.trusted[i]) {
                        run.violation_lazy("C16.sel-floor", feats(&[("entry", e.clone()), ("trust", "in-range".into())]), || wit(format!("{entry}: storage target (distance rank {}) has trust 0.0 < 0.2", rank[bad])));
                    }
                }
                // equal trust: a closer eligible peer is ahead of every selected farther one. Only peers inside the
                // candidate window the engine documents (2x / 3x the requested number, by distance) are demanded.
                let window = if floor { 24 } else { 16 };
                for (jb, &b) in g.iter().enumerate() {
                    for a in 0..n {
                        if a == b || case.trusted[a] != case.trusted[b] || rank[a] >= rank[b] || rank[a] >= window || (floor && !case.trusted[a]) {
                            continue;
                        }
                        let pa = g.iter().position(|&x| x == a);
                        if pa.is_none_or(|p| p > jb) {
                            let cause = closer_cause(a, b, if case.trusted[a] { 0.9 } else { 0.0 }, if floor { 0.5 } else { 0.3 }, key, &case.ids);
                            run.violation_lazy("C16.sel-closer", feats(&[("entry", e.clone()), ("cause", cause.clone()), ("input_sorted", "true".into())]), || wit(format!("{entry}: distance rank {} targeted ahead of closer rank {} of equal trust ({cause})", rank[b], rank[a])));
                        }
                    }
                }
            }
        }
    }
    runs
}

fn main() {
    let run = Run::new("C16", "model_checking");
    quiet_panics();
    let distinct = Distinct::default();
    // internal wall-clock cap; VERIF_BUDGET_S overrides it (self-tests on a loaded machine)
    let budget_s = std::env::var("VERIF_BUDGET_S").ok().and_then(|s| s.parse().ok()).unwrap_or(run.tier.pick(50u64, 1500u64));
    let budget = Budget::new(Duration::from_secs(budget_s));
    let thorough = run.tier == Tier::Thorough;

    // ---- (a) ----
    let mut a_states = 0;
    let mut a_trans = 0;
    let mut a_fix = true;
    let mut a_detail = Vec::new();
    let mut samples: Vec<Value> = Vec::new();
    let n_peers = run.tier.pick(2, 3);
    let n_marks = run.tier.pick(2, 2);
    for max_fail in [1u32, 2, 3] {
        let s = policy_part(&run, &distinct, &budget, n_peers, n_marks, max_fail, 0.15, 64);
        a_states += s.states;
        a_trans += s.transitions;
        a_fix &= s.fixpoint;
        a_detail.push(json!({"max_consecutive_failures": max_fail, "min_trust_threshold": 0.15, "peers": n_peers, "states": s.states, "transitions": s.transitions, "fixpoint": s.fixpoint, "max_depth": s.depth, "revisits_compared": s.revisits}));
        samples.extend(s.samples);
    }
    let t_a = run.elapsed().as_secs_f64();

    // ---- (b) ----
    let rs = routing_part(&run, &distinct, &budget, run.tier.pick(6, 8), thorough, 40);
    samples.extend(rs.samples.clone());
    let t_b = run.elapsed().as_secs_f64();


    // ---- (d) ----
    let key = key_bytes();
    let local = xor_at(key, &[(0, 0x20)]);
    let mut cases: Vec<EngCase> = Vec::new();
    let alpha: Vec<[u8; 32]> = (0..SEL_MASKS.len()).map(sel_id).collect();
    for set in 0u32..256 {
        let members: Vec<usize> = (0..8).rev().filter(|i| set >> i & 1 == 1).collect(); // inserted S7..S0: not in distance order
        let k = members.len();
        for tmask in 0u32..(1 << k) {
            let trusted: Vec<bool> = (0..k).map(|j| tmask >> j & 1 == 1).collect();
            cases.push(EngCase {
                ids: members.iter().map(|&i| alpha[i]).collect(),
                desc: json!({"family": "alphabet", "inserted_in_order": members.iter().map(|&i| sel_desc(i)).collect::<Vec<_>>(), "pre_trusted(0.9)": members.iter().zip(&trusted).filter(|(_, t)| **t).map(|(i, _)| format!("S{i}")).collect::<Vec<_>>()}),
                trusted,
            });
        }
    }
    // larger tables: ids = key ^ m in byte 0, four buckets of 8 relative to the local id; round-robin over the buckets
    let groups: [u8; 4] = [0x01, 0x30, 0x40, 0x80];
    let big_ids: Vec<[u8; 32]> = (0..32).map(|j| xor_at(key, &[(0, groups[j % 4] + (j / 4) as u8)])).collect();
    for n in [9usize, 16, 24, 25, 32] {
        let ids: Vec<[u8; 32]> = big_ids[..n].to_vec();
        let mut order: Vec<usize> = (0..n).collect();
        order.sort_by_key(|&i| xor_dist(&ids[i], &key));
        let mut rank = vec![0; n];
        for (r, &i) in order.iter().enumerate() {
            rank[i] = r;
        }
        let patterns: Vec<(&str, Box<dyn Fn(usize) -> bool>)> = vec![
            ("all-trusted", Box::new(|_| true)),
            ("none-trusted", Box::new(|_| false)),
            ("closest-8-untrusted", Box::new(|r| r >= 8)),
            ("every-other-by-distance", Box::new(|r| r % 2 == 0)),
            ("only-farthest-trusted", Box::new(move |r| r == n - 1)),
            ("closest-3-trusted", Box::new(|r| r < 3)),
        ];
        for (pname, f) in patterns {
            let trusted: Vec<bool> = (0..n).map(|i| f(rank[i])).collect();
            cases.push(EngCase { ids: ids.clone(), desc: json!({"family": "big", "peers": n, "ids": "key ^ m in byte 0, m = [0x01,0x30,0x40,0x80][j%4] + j/4 for j < peers", "trust_pattern": pname}), trusted });
        }
    }
    let keys_d = [key, local];
    let d_runs = AtomicU64::new(0);
    let d_done = AtomicU64::new(0);
    let d_outcomes = Mutex::new(HashSet::new());
    par_for(cases.len(), |i| {
        if budget.exceeded() {
            return;
        }
        let mut loc = HashSet::new();
        let r = engine_case(&run, &distinct, &cases[i], local, &keys_d, &mut loc);
        d_runs.fetch_add(r, Ordering::Relaxed);
        d_done.fetch_add(1, Ordering::Relaxed);
        let mut g = d_outcomes.lock().unwrap();
        for o in loc {
            if g.insert(o) {
                distinct.outcome(&o);
            }
        }
    });
    let d_runs = d_runs.into_inner();
    let d_done = d_done.into_inner();
    let t_d = run.elapsed().as_secs_f64();

    // ---- (c) ----
    // lists of the maximal length use the 6 trust values that sit on the decision boundaries; shorter lists all 8
    let trusts_long: Vec<f64> = vec![0.5, 0.0, 0.19, 0.2, f64::NAN, -0.5];
    let ss = selector_part(&run, &distinct, &budget, run.tier.pick(4, 5), &trusts_long);
    let t_c = run.elapsed().as_secs_f64();

    if budget.was_hit() {
        run.cap_hit(format!(
            "wall-clock budget: (a) fixpoint={a_fix}; (b) completed depth {} fixpoint={}; (c) lists done per length {:?}; (d) {} of {} tables",
            rs.stats.completed_depth, rs.stats.fixpoint, ss.lists_done_by_len, d_done, cases.len()
        ));
        if !a_fix {
            run.machinery_error("(a) did not reach its fix-point inside the budget");
        }
    }
    if !a_fix && !budget.was_hit() {
        run.machinery_error("(a) depth bound reached before the fix-point");
    }
    if !rs.stats.fixpoint && !budget.was_hit() {
        run.machinery_error("(b) depth bound reached before the fix-point");
    }
    run.info_n("(c) less-trusted ahead of more-trusted among ids with equal first 16 bytes (informational, not a verdict)", ss.info_trust_inv);
    run.info_n("(c) NaN-trust peer selected (informational)", ss.nan_selected);
    samples.push(json!({"part": "c", "candidates": [sel_desc(3), sel_desc(6), sel_desc(0)], "trust": [0.5, 0.5, 0.2], "count": 2, "entries": ["select_peers", "select_storage_peers"], "configs": ["default+for_storage", "weight0", "weight1", "queries+exclude0.2"]}));
    samples.push(json!({"part": "d", "table": cases[cases.len() / 2].desc, "ops": ["join_network(table)", "enable_trust_selection(pre-trusted)", "retrieve(key)", "store(key)"]}));
    let coverage = cov(vec![
        ("states", json!(a_states + rs.stats.states + ss.assignments + d_done)),
        ("transitions", json!(a_trans + rs.stats.transitions + ss.calls + d_runs)),
        ("traces_validated_against_impl", json!(a_trans + rs.stats.transitions + ss.calls + d_runs)),
        ("samples", json!(samples)),
        ("exhaustive", json!(!budget.was_hit())),
        ("evaluations", json!(distinct.evaluations())),
        ("distinct_nontrivial", json!(distinct.distinct())),
        ("rule", json!("evaluation = one judged observation: (a) per-peer policy comparison after a transition, (b) one closest-node answer, (c) one selector call, (d) one store/retrieve target list; distinct = distinct observed outcomes (cause/listing/reason; listed+removed sets; (entry, config, selected sequence); (entry, enabled, (rank,trust) sequence))")),
        ("bounds", json!({
            "a_policy": a_detail, "a_fixpoint_all": a_fix,
            "b_routing": {"alphabet_ids": run.tier.pick(6, 8), "states": rs.stats.states, "transitions": rs.stats.transitions, "fixpoint": rs.stats.fixpoint, "max_depth": rs.stats.max_depth, "revisits_compared": rs.stats.revisits, "frontier_sizes": rs.stats.frontier_sizes, "with_evict_node_for_security": thorough},
            "c_selector": {"alphabet": (0..8).map(sel_desc).collect::<Vec<_>>(), "trust_values": TRUSTS.iter().map(|t| format!("{t}")).collect::<Vec<_>>(), "trust_values_at_max_len": trusts_long.iter().map(|t| format!("{t}")).collect::<Vec<_>>(), "max_list_len": run.tier.pick(4, 5), "lists": ss.lists, "trust_assignments": ss.assignments, "selector_calls": ss.calls, "counts": [0, 1, 2, 3, 4, 5], "lists_done_by_len(len,done,total)": ss.lists_done_by_len},
            "d_engine": {"tables": cases.len(), "tables_done": d_done, "engine_runs": d_runs, "keys": 2},
            "wall_s_after_part(run order a,b,d,c)": {"a": t_a, "b": t_b, "d": t_d, "c": t_c},
        })),
    ]);
    run.finish(
        coverage,
        vec![
            "(a) peers are independent map keys in EvictionManager; 2 (thorough 3) peers cover cross-peer listing. Canon caps the consecutive-failure counter at max+1; candidacy and reported count are compared with the uncapped reference in every history".into(),
            "(a) LowTrust reasons are compared by variant only (the string is a rendering of the score); forget = EvictionManager::remove_node discards everything known about the peer, including an explicit rejection".into(),
            "(b) 'added again' = a later add_node/join_network for the id returned Ok; LogOnly close-group validation (the DhtNetworkManager configuration); distinct /8 addresses keep the IP/geo gates non-binding; 'any key' = the probed key set (all alphabet ids, local id, complement, sweeps over byte 0 and byte 31)".into(),
            "(c),(d) 'farther'/'closer' = full 256-bit XOR distance to the key; 'equal trust' = bitwise equal, non-NaN; a closer equal-trust eligible candidate that is left out while a farther one is selected counts as ranked behind it".into(),
            "(c) 'less trusted ahead of more trusted at equal distance' is vacuous under exact XOR distance for distinct ids (equal distance <=> equal id); the selector-metric variant (equal first 16 bytes) is logged as info only".into(),
            "(c) candidate lists have distinct ids; NaN trust is neither 'below the floor' nor comparable, so NaN peers are never judged".into(),
            "(d) trust values reachable through EigenTrustEngine without running the iteration: pre-trusted 0.9, unknown 0.0; store targets are read from StoreReceipt::stored_at (after the load balancer's stable sort with equal loads), query targets from a recording NetworkSender".into(),
            "quantifier '0..64 nodes' is covered up to 5 candidates in (c) and 32-peer tables in (d); 'many peers' by 2-3 peers in (a)".into(),
        ],
    );
}
