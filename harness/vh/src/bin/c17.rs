//! C17 — placement returns exactly k distinct diverse candidates or an error.
//!
//! Bounded-exhaustive enumeration of the real `WeightedPlacementStrategy::select_nodes` (trait entry) and
//! `PlacementEngine::select_nodes`, `WeightedSampler::{sample_nodes, calculate_weight}`,
//! `DiversityEnforcer::validate_selection`, `ReplicationFactor::new`, `ByzantineTolerance::is_valid`.
//!
//! Candidate sets are *multisets of node types* (location x ASN x region) — "all assignments up to node
//! permutation" — over a declared alphabet; for each (set, k) the sampler's randomness is owned through
//! `fastrand::seed(s)`, s = 0,1,2,... until every *possible observable outcome* was seen (every valid
//! k-subset returned as Ok at least once, and an Err if some k-subset is invalid) or the seed cap was spent.
//! The reference oracle is boring: own great-circle distance (vector form), counters per region / ASN.
//!
//! Reading used (weakest): `Ok` implies exactly k, distinct, subset of candidates, all with metadata,
//! <= 2 per region, <= 3 per ASN, pairwise >= 50 km; `Err` is always admissible (the statement does not
//! promise success when a valid set exists; spurious errors are counted as info only); never a panic.
use saorsa_core::adaptive::NodeId;
use saorsa_core::adaptive::performance::PerformanceMonitor;
use saorsa_core::adaptive::trust::EigenTrustEngine;
use saorsa_core::placement::{
    ByzantineTolerance, DiversityEnforcer, GeographicLocation, NetworkRegion, OptimizationWeights, PlacementConfig, PlacementDecision,
    PlacementEngine, PlacementError, PlacementStrategy, ReplicationFactor, WeightedPlacementStrategy, WeightedSampler,
};
use serde_json::{Value, json};
use std::collections::{HashMap, HashSet};
use std::sync::Mutex;
use std::sync::atomic::{AtomicU64, Ordering};
use std::time::Duration;
use vh::core::*;

const R_KM: f64 = 6371.0;
const FOREIGN: usize = usize::MAX;

// ------------------------------------------------------------------------------------------------
// alphabets

#[derive(Clone, Debug)]
struct Loc {
    name: String,
    lat: f64,
    lon: f64,
}

/// Reference great-circle distance (unit vectors, atan2 of |a x b| and a.b) — independent of the
/// subject's haversine formula.
fn ref_km(a: &Loc, b: &Loc) -> f64 {
    let v = |l: &Loc| {
        let (la, lo) = (l.lat.to_radians(), l.lon.to_radians());
        [la.cos() * lo.cos(), la.cos() * lo.sin(), la.sin()]
    };
    let (x, y) = (v(a), v(b));
    let c = [x[1] * y[2] - x[2] * y[1], x[2] * y[0] - x[0] * y[2], x[0] * y[1] - x[1] * y[0]];
    let cn = (c[0] * c[0] + c[1] * c[1] + c[2] * c[2]).sqrt();
    let d = x[0] * y[0] + x[1] * y[1] + x[2] * y[2];
    R_KM * cn.atan2(d)
}

struct LocTable {
    pts: Vec<Loc>,
    km: Vec<Vec<f64>>,
}
impl LocTable {
    fn new(pts: Vec<Loc>) -> LocTable {
        let km = pts.iter().map(|a| pts.iter().map(|b| ref_km(a, b)).collect()).collect();
        LocTable { pts, km }
    }
}

fn north_of_base(km: f64) -> f64 {
    48.0 + km / R_KM * 180.0 / std::f64::consts::PI
}

/// Full location alphabet (DESIGN: same point, 10 km, 49.9 km, 50.1 km, 99 km, 101 km, antipode, poles, +-180 meridian, 40 km east at 48 N).
/// "same point" arises from two nodes choosing the same entry.
fn full_locs() -> Vec<Loc> {
    let l = |n: &str, lat: f64, lon: f64| Loc { name: n.to_string(), lat, lon };
    vec![
        l("P0", 48.0, 10.0),
        l("N10km", north_of_base(10.0), 10.0),
        l("N49.9km", north_of_base(49.9), 10.0),
        l("N50.1km", north_of_base(50.1), 10.0),
        l("N99km", north_of_base(99.0), 10.0),
        l("N101km", north_of_base(101.0), 10.0),
        l("antipode", -48.0, -170.0),
        l("north-pole", 90.0, 0.0),
        l("north-pole@lon120", 90.0, 120.0),
        l("south-pole", -90.0, 0.0),
        l("equator@+180", 0.0, 180.0),
        l("equator@-180", 0.0, -180.0),
        // 40 km due east of P0 at 48 N: 0.54 degrees of longitude apart (a degree of longitude is 74 km there)
        l("E40km", 48.0, 10.0 + 40.0 / (R_KM * 48.0f64.to_radians().cos()) * 180.0 / std::f64::consts::PI),
    ]
}
/// Reduced alphabet for the larger-n family.
fn reduced_locs() -> Vec<Loc> {
    let f = full_locs();
    vec![f[0].clone(), f[2].clone(), f[3].clone(), f[6].clone()]
}

const ALL_REGIONS: [NetworkRegion; 8] = [
    NetworkRegion::Europe,
    NetworkRegion::NorthAmerica,
    NetworkRegion::AsiaPacific,
    NetworkRegion::SouthAmerica,
    NetworkRegion::Africa,
    NetworkRegion::MiddleEast,
    NetworkRegion::Oceania,
    NetworkRegion::Unknown,
];

#[derive(Clone, Copy, Debug, PartialEq, Eq, Hash, PartialOrd, Ord)]
struct NodeT {
    loc: u16,
    asn: u16,
    reg: u8, // index into ALL_REGIONS
}

fn node_id(i: usize) -> NodeId {
    NodeId::from_bytes([(i + 1) as u8; 32])
}
fn foreign_id() -> NodeId {
    NodeId::from_bytes([0xEE; 32])
}
fn idx_of(id: &NodeId, n: usize) -> usize {
    let b = id.as_bytes();
    if b.iter().all(|x| *x == b[0]) && b[0] >= 1 && (b[0] as usize) <= n { b[0] as usize - 1 } else { FOREIGN }
}

// ------------------------------------------------------------------------------------------------
// an instance = candidate multiset (+ optional metadata gap, weights) and its reference facts

struct Inst<'a> {
    tab: &'a LocTable,
    nodes: Vec<NodeT>,
    gap: Option<usize>,
    cands: HashSet<NodeId>,
    meta: HashMap<NodeId, (GeographicLocation, u32, NetworkRegion)>,
}

impl<'a> Inst<'a> {
    fn new(tab: &'a LocTable, nodes: &[NodeT], gap: Option<usize>) -> Inst<'a> {
        let mut cands = HashSet::new();
        let mut meta = HashMap::new();
        for (i, t) in nodes.iter().enumerate() {
            cands.insert(node_id(i));
            if gap != Some(i) {
                let p = &tab.pts[t.loc as usize];
                meta.insert(node_id(i), (GeographicLocation { latitude: p.lat, longitude: p.lon }, t.asn as u32, ALL_REGIONS[t.reg as usize]));
            }
        }
        // metadata for a node that is NOT a candidate: must never be selected (C17.subset)
        meta.insert(foreign_id(), (GeographicLocation { latitude: -30.0, longitude: 60.0 }, 777, NetworkRegion::Oceania));
        Inst { tab, nodes: nodes.to_vec(), gap, cands, meta }
    }
    fn n(&self) -> usize {
        self.nodes.len()
    }
    fn km(&self, i: usize, j: usize) -> f64 {
        self.tab.km[self.nodes[i].loc as usize][self.nodes[j].loc as usize]
    }
    /// reference: is this index set an admissible selection?
    fn valid_set(&self, sel: &[usize]) -> bool {
        self.first_breach(sel).is_none()
    }
    /// reference: first breached constraint of a selection: (clause, shape)
    fn first_breach(&self, sel: &[usize]) -> Option<(&'static str, String)> {
        if let Some(g) = self.gap {
            if sel.contains(&g) {
                return Some(("C17.gap", "selected-node-without-metadata".into()));
            }
        }
        let mut reg = [0usize; 8];
        let mut asn: HashMap<u16, usize> = HashMap::new();
        for &i in sel {
            reg[self.nodes[i].reg as usize] += 1;
            *asn.entry(self.nodes[i].asn).or_insert(0) += 1;
        }
        for a in 0..sel.len() {
            for b in a + 1..sel.len() {
                let d = self.km(sel[a], sel[b]);
                if d < 50.0 {
                    let band = if d < 1e-6 { "0km" } else if d < 25.0 { "(0,25)km" } else { "[25,50)km" };
                    let (pa, pb) = (&self.tab.pts[self.nodes[sel[a]].loc as usize], &self.tab.pts[self.nodes[sel[b]].loc as usize]);
                    let geom = if pa.lat.abs() == 90.0 || pb.lat.abs() == 90.0 {
                        "pole"
                    } else if pa.lon.abs() == 180.0 || pb.lon.abs() == 180.0 {
                        "meridian180"
                    } else {
                        "plain"
                    };
                    return Some(("C17.distance", format!("{band}/{geom}")));
                }
            }
        }
        if let Some(c) = reg.iter().max() {
            if *c > 2 {
                return Some(("C17.region", format!("{c}-in-one-region")));
            }
        }
        if let Some(c) = asn.values().max() {
            if *c > 3 {
                return Some(("C17.asn", format!("{c}-in-one-asn")));
            }
        }
        None
    }
    fn json(&self) -> Value {
        json!(
            self.nodes
                .iter()
                .enumerate()
                .map(|(i, t)| {
                    let p = &self.tab.pts[t.loc as usize];
                    json!({"idx": i, "id": format!("[{:#04x};32]", i + 1), "loc": p.name, "lat": p.lat, "lon": p.lon, "asn": t.asn,
                           "region": format!("{:?}", ALL_REGIONS[t.reg as usize]), "metadata_present": self.gap != Some(i)})
                })
                .collect::<Vec<_>>()
        )
    }
}

#[derive(Clone, Copy, PartialEq, Eq, Hash, Debug)]
enum Entry {
    Strategy,
    Engine(u8),
}
impl Entry {
    fn name(&self) -> String {
        match self {
            Entry::Strategy => "WeightedPlacementStrategy::select_nodes".into(),
            Entry::Engine(c) => format!("PlacementEngine::select_nodes(cfg{c})"),
        }
    }
}

fn engine_cfg(c: u8, w: &OptimizationWeights) -> PlacementConfig {
    match c {
        0 => PlacementConfig { optimization_weights: w.clone(), ..PlacementConfig::default() },
        _ => PlacementConfig {
            replication_factor: ReplicationFactor { min: 1, default: 2, max: 20 },
            placement_timeout: Duration::from_secs(30),
            byzantine_tolerance: ByzantineTolerance::None,
            optimization_weights: w.clone(),
        },
    }
}

fn err_kind(e: &PlacementError) -> String {
    match e {
        PlacementError::DiversityViolation { constraint, .. } => format!("DiversityViolation:{constraint}"),
        other => {
            let d = format!("{other:?}");
            d.split(|c: char| !c.is_alphanumeric()).next().unwrap_or("?").to_string()
        }
    }
}

#[derive(Default)]
struct Stats {
    calls: AtomicU64,
    ok: AtomicU64,
    err: AtomicU64,
    panics: AtomicU64,
    pairs: AtomicU64,
    pairs_covered: AtomicU64,
    outcomes_possible: AtomicU64,
    outcomes_observed: AtomicU64,
    max_seeds: AtomicU64,
    spurious_err: AtomicU64,
    uncovered: Mutex<Vec<Value>>,
    samples: Mutex<Vec<Value>>,
}

struct Ctx<'a> {
    run: &'a Run,
    distinct: &'a Distinct,
    budget: &'a Budget,
    st: &'a Stats,
}

/// per-work-unit local accumulators (flushed once; keeps the shared mutexes out of the hot loop)
#[derive(Default)]
struct Local {
    evals: u64,
    outcomes: HashSet<u64>,
    calls: u64,
    ok: u64,
    err: u64,
}
impl Local {
    fn flush(&mut self, cx: &Ctx) {
        cx.distinct.evals_add(self.evals);
        for o in self.outcomes.drain() {
            cx.distinct.outcome(&o);
        }
        cx.st.calls.fetch_add(self.calls, Ordering::Relaxed);
        cx.st.ok.fetch_add(self.ok, Ordering::Relaxed);
        cx.st.err.fetch_add(self.err, Ordering::Relaxed);
        *self = Local::default();
    }
}

struct Subjects {
    te: EigenTrustEngine,
    pm: PerformanceMonitor,
    rt: tokio::runtime::Runtime,
}
impl Subjects {
    fn new() -> Subjects {
        Subjects {
            te: EigenTrustEngine::new(HashSet::new()),
            pm: PerformanceMonitor::new(),
            rt: tokio::runtime::Builder::new_current_thread().enable_time().build().unwrap(),
        }
    }
}

enum Sut {
    Strategy(WeightedPlacementStrategy),
    Engine(PlacementEngine),
}
fn make_sut(entry: Entry, w: &OptimizationWeights) -> Sut {
    match entry {
        Entry::Strategy => Sut::Strategy(WeightedPlacementStrategy::new(PlacementConfig { optimization_weights: w.clone(), ..PlacementConfig::default() })),
        Entry::Engine(c) => Sut::Engine(PlacementEngine::new(engine_cfg(c, w))),
    }
}

fn call(sut: &mut Sut, sub: &Subjects, inst: &Inst, k: u8, seed: u64) -> Result<Result<PlacementDecision, PlacementError>, String> {
    fastrand::seed(seed);
    match sut {
        Sut::Strategy(s) => catch(|| futures::executor::block_on(s.select_nodes(&inst.cands, k, &sub.te, &sub.pm, &inst.meta))),
        Sut::Engine(e) => catch(|| sub.rt.block_on(e.select_nodes(&inst.cands, k, &sub.te, &sub.pm, &inst.meta))),
    }
}

fn weights_json(w: &OptimizationWeights) -> Value {
    json!({"trust_weight": format!("{:e}", w.trust_weight), "performance_weight": format!("{:e}", w.performance_weight),
           "capacity_weight": format!("{:e}", w.capacity_weight), "diversity_weight": format!("{:e}", w.diversity_weight)})
}

/// Judge one result. Returns Some(sorted selected indices) for Ok.
#[allow(clippy::too_many_arguments)]
fn judge(
    cx: &Ctx,
    lo: &mut Local,
    inst: &Inst,
    entry: Entry,
    w: &OptimizationWeights,
    k: u8,
    seed: u64,
    res: &Result<Result<PlacementDecision, PlacementError>, String>,
) -> Option<Vec<usize>> {
    lo.evals += 1;
    lo.calls += 1;
    let n = inst.n();
    let wit = |got: Value, what: String| {
        (
            json!({"entry": entry.name(), "candidates": inst.json(), "replication_factor": k, "fastrand_seed": seed, "weights": weights_json(w),
                   "result": got, "metadata_also_lists_non_candidate": "[0xee;32]",
                   "note": "the uniform each candidate receives also depends on std HashSet order; replay by sweeping seeds 0..4096"}),
            what,
        )
    };
    match res {
        Err(p) => {
            cx.st.panics.fetch_add(1, Ordering::Relaxed);
            cx.run.violation_lazy("C17.nopanic", feats(&[("entry", entry.name()), ("shape", p.chars().take(60).collect())]), || {
                wit(json!({"panic": p}), format!("{} panicked: {p}", entry.name()))
            });
            None
        }
        Ok(Err(e)) => {
            lo.err += 1;
            lo.outcomes.insert(hash64(&(entry, k.min(9), "err", err_kind(e))));
            None
        }
        Ok(Ok(d)) => {
            lo.ok += 1;
            let sel: Vec<usize> = d.selected_nodes.iter().map(|id| idx_of(id, n)).collect();
            let got = || json!({"Ok_selected_idx": sel.iter().map(|i| if *i == FOREIGN { json!("non-candidate") } else { json!(i) }).collect::<Vec<_>>()});
            let e = entry.name();
            if sel.len() != k as usize {
                let shape = if sel.len() < k as usize { "short" } else { "long" };
                cx.run.violation_lazy("C17.count", feats(&[("entry", e.clone()), ("shape", shape.into())]), || {
                    wit(got(), format!("{e}: Ok with {} nodes for k={k}", sel.len()))
                });
            }
            if sel.contains(&FOREIGN) {
                cx.run.violation_lazy("C17.subset", feats(&[("entry", e.clone())]), || wit(got(), format!("{e}: Ok names a node that is not a candidate")));
                return None;
            }
            let mut sorted = sel.clone();
            sorted.sort();
            if sorted.windows(2).any(|p| p[0] == p[1]) {
                cx.run.violation_lazy("C17.distinct", feats(&[("entry", e.clone())]), || wit(got(), format!("{e}: Ok repeats a node: {sel:?}")));
                sorted.dedup();
            }
            if let Some((clause, shape)) = inst.first_breach(&sorted) {
                cx.run.violation_lazy(clause, feats(&[("entry", e.clone()), ("shape", shape.clone())]), || {
                    wit(got(), format!("{e}: Ok({sel:?}) breaks {clause} ({shape})"))
                });
            }
            let mut types: Vec<NodeT> = sorted.iter().map(|i| inst.nodes[*i]).collect();
            types.sort();
            if k >= 1 {
                lo.outcomes.insert(hash64(&(entry, "ok", types)));
            }
            Some(sorted)
        }
    }
}

/// Seed sweep for one (instance, k): until every possible observable outcome was seen or `cap` seeds spent.
fn sweep(cx: &Ctx, lo: &mut Local, sub: &Subjects, sut: &mut Sut, inst: &Inst, entry: Entry, w: &OptimizationWeights, k: u8, cap: u64) {
    let n = inst.n();
    // possible outcomes by reference: every valid k-subset as Ok; Err if some k-subset is invalid (or k>n, n=0)
    let mut valid: Vec<u64> = Vec::new();
    let mut any_invalid = false;
    // PlacementEngine additionally refuses k below its configured minimum / Byzantine requirement (config-derived, not judged)
    let engine_refuses = match entry {
        Entry::Engine(c) => {
            let cfg = engine_cfg(c, w);
            k < cfg.replication_factor.min_value() || (k as usize) < cfg.byzantine_tolerance.required_nodes()
        }
        Entry::Strategy => false,
    };
    if n == 0 || (k as usize) > n || engine_refuses {
        any_invalid = true;
    } else {
        let mut idx: Vec<usize> = Vec::with_capacity(k as usize);
        for mask in 0u64..(1u64 << n) {
            if mask.count_ones() != k as u32 {
                continue;
            }
            idx.clear();
            idx.extend((0..n).filter(|i| mask >> i & 1 == 1));
            if inst.valid_set(&idx) {
                valid.push(mask);
            } else {
                any_invalid = true;
            }
        }
    }
    let possible = valid.len() as u64 + any_invalid as u64;
    let mut seen_ok: Vec<bool> = vec![false; valid.len()];
    let mut left = valid.len();
    let mut seen_err = false;
    let mut seeds = 0u64;
    while seeds < cap && (left > 0 || (any_invalid && !seen_err)) {
        let res = call(sut, sub, inst, k, seeds);
        if let Some(sorted) = judge(cx, lo, inst, entry, w, k, seeds, &res) {
            let mask = sorted.iter().fold(0u64, |m, i| m | 1 << i);
            if let Some(p) = valid.iter().position(|v| *v == mask) {
                if !seen_ok[p] {
                    seen_ok[p] = true;
                    left -= 1;
                }
            }
        } else if matches!(res, Ok(Err(_))) {
            if !any_invalid && !seen_err {
                cx.st.spurious_err.fetch_add(1, Ordering::Relaxed);
            }
            seen_err = true;
        } else if res.is_err() {
            break; // panic: reported, do not spin
        }
        seeds += 1;
        if seeds % 256 == 0 && cx.budget.exceeded() {
            break;
        }
    }
    let observed = (valid.len() - left) as u64 + (any_invalid && seen_err) as u64;
    cx.st.pairs.fetch_add(1, Ordering::Relaxed);
    cx.st.outcomes_possible.fetch_add(possible, Ordering::Relaxed);
    cx.st.outcomes_observed.fetch_add(observed, Ordering::Relaxed);
    cx.st.max_seeds.fetch_max(seeds, Ordering::Relaxed);
    if observed == possible {
        cx.st.pairs_covered.fetch_add(1, Ordering::Relaxed);
    } else {
        let mut u = cx.st.uncovered.lock().unwrap();
        if u.len() < 12 {
            u.push(json!({"entry": entry.name(), "candidates": inst.json(), "k": k, "seeds_spent": seeds, "outcomes_observed": observed, "outcomes_possible": possible}));
        }
    }
    if valid.len() >= 3 && any_invalid {
        let mut s = cx.st.samples.lock().unwrap();
        if s.len() < 4 {
            s.push(json!({"entry": entry.name(), "candidates": inst.json(), "k": k, "seeds_spent": seeds, "valid_k_subsets": valid.len(), "some_k_subset_invalid": any_invalid,
                          "outcomes_observed": observed, "outcomes_possible": possible}));
        }
    }
}

/// All multisets of size n over `types` with a fixed prefix (non-decreasing index sequences).
fn for_multisets(t: usize, n: usize, prefix: &[usize], f: &mut dyn FnMut(&[usize])) {
    fn rec(t: usize, n: usize, cur: &mut Vec<usize>, f: &mut dyn FnMut(&[usize])) {
        if cur.len() == n {
            f(cur);
            return;
        }
        let lo = cur.last().copied().unwrap_or(0);
        for x in lo..t {
            cur.push(x);
            rec(t, n, cur, f);
            cur.pop();
        }
    }
    let mut cur = prefix.to_vec();
    rec(t, n, &mut cur, f);
}
/// work units: all non-decreasing prefixes of length min(n, 2)
fn prefixes(t: usize, n: usize) -> Vec<Vec<usize>> {
    let mut out = Vec::new();
    for_multisets(t, n.min(2), &[], &mut |p| out.push(p.to_vec()));
    out
}
fn multiset_count(t: usize, n: usize) -> u64 {
    // C(t+n-1, n)
    let mut r: u128 = 1;
    for i in 0..n as u128 {
        r = r * (t as u128 + i) / (i + 1);
    }
    r as u64
}

fn type_alphabet(nloc: usize, asns: &[u16], nreg: usize) -> Vec<NodeT> {
    // simplest first: location, then ASN, then region vary fastest-last so (P0, asn1, EU) is type 0
    let mut v = Vec::new();
    for loc in 0..nloc {
        for &asn in asns {
            for reg in 0..nreg {
                v.push(NodeT { loc: loc as u16, asn, reg: reg as u8 });
            }
        }
    }
    v
}

fn default_w() -> OptimizationWeights {
    OptimizationWeights::default()
}

// ------------------------------------------------------------------------------------------------

fn main() {
    let run = Run::new("C17", "exploration");
    quiet_panics();
    let distinct = Distinct::default();
    let budget = Budget::new(Duration::from_secs(run.tier.pick(50, 1500)));
    let st = Stats::default();
    let cx = Ctx { run: &run, distinct: &distinct, budget: &budget, st: &st };
    let thorough = run.tier == Tier::Thorough;
    let mut levels_done: Vec<String> = Vec::new();
    let mut bounds = serde_json::Map::new();

    // ---- alphabet self-checks: no reference distance inside the ambiguity band of the 50 km verdict -----------
    let full = LocTable::new(full_locs());
    let reduced = LocTable::new(reduced_locs());
    for tab in [&full, &reduced] {
        for (i, a) in tab.pts.iter().enumerate() {
            for (j, b) in tab.pts.iter().enumerate() {
                let d = tab.km[i][j];
                if (d - 50.0).abs() < 0.05 || (d - 100.0).abs() < 0.05 {
                    run.machinery_error(format!("alphabet pair {}-{} at {d} km is inside the ambiguity band", a.name, b.name));
                }
            }
        }
    }

    // ---- family G: ReplicationFactor::new over the full u8^3 grid, ByzantineTolerance::is_valid over 0..=255 ----
    {
        let rf_ok = AtomicU64::new(0);
        par_for(256, |min| {
            let mut lo = Local::default();
            for default in 0..=255u8 {
                for max in 0..=255u8 {
                    let min = min as u8;
                    lo.evals += 1;
                    let want = min >= 1 && min <= default && default <= max;
                    let r = catch(|| ReplicationFactor::new(min, default, max));
                    let shape = match &r {
                        Err(_) => Some("panic"),
                        Ok(Ok(v)) => {
                            if !want {
                                Some("accepted-out-of-order-or-zero")
                            } else if (v.min_value(), v.default_value(), v.max_value()) != (min, default, max) {
                                Some("fields-changed")
                            } else if !(v.is_valid(min) && v.is_valid(max) && v.is_valid(default)) || (min > 0 && v.is_valid(min - 1)) || (max < 255 && v.is_valid(max + 1)) {
                                Some("is_valid-bounds")
                            } else {
                                None
                            }
                        }
                        Ok(Err(_)) => want.then_some("rejected-valid"),
                    };
                    if want && shape.is_none() {
                        rf_ok.fetch_add(1, Ordering::Relaxed);
                    }
                    if let Some(shape) = shape {
                        let clause = if shape == "panic" { "C17.nopanic" } else { "C17.rf" };
                        run.violation_lazy(clause, feats(&[("entry", "ReplicationFactor::new".into()), ("shape", shape.into())]), || {
                            (json!({"min": min, "default": default, "max": max, "result": format!("{r:?}")}), format!("ReplicationFactor::new({min},{default},{max}) -> {r:?}"))
                        });
                    }
                }
            }
            lo.outcomes.insert(hash64(&("rf", min.min(2))));
            lo.flush(&cx);
        });
        let bt_n = 256usize;
        par_for(bt_n, |total| {
            let mut lo = Local::default();
            for f in 0..bt_n {
                lo.evals += 1;
                let bt = ByzantineTolerance::Custom { total_nodes: total, max_faults: f };
                let want = total > 2 * f;
                let r = catch(|| (bt.is_valid(), bt.required_nodes(), bt.max_faults()));
                let bad = match &r {
                    Err(_) => Some("panic"),
                    Ok((v, rq, mf)) => (*v != want || *rq != total || *mf != f).then_some("custom"),
                };
                if let Some(shape) = bad {
                    let clause = if shape == "panic" { "C17.nopanic" } else { "C17.bft" };
                    run.violation_lazy(clause, feats(&[("entry", "ByzantineTolerance::is_valid".into()), ("shape", shape.into())]), || {
                        (json!({"total_nodes": total, "max_faults": f, "result": format!("{r:?}")}), format!("Custom{{total_nodes:{total},max_faults:{f}}} -> {r:?}, reference valid={want}"))
                    });
                }
                lo.outcomes.insert(hash64(&("bft", want)));
            }
            // Classic{f = total}
            let f = total;
            lo.evals += 1;
            let bt = ByzantineTolerance::Classic { f };
            let r = catch(|| (bt.is_valid(), bt.required_nodes(), bt.max_faults()));
            if r != Ok((f > 0, 3 * f + 1, f)) {
                run.violation_lazy("C17.bft", feats(&[("entry", "ByzantineTolerance::is_valid".into()), ("shape", "classic".into())]), || {
                    (json!({"classic_f": f, "result": format!("{r:?}")}), format!("Classic{{f:{f}}} -> {r:?}"))
                });
            }
            lo.flush(&cx);
        });
        let none = ByzantineTolerance::None;
        if !(none.is_valid() && none.required_nodes() == 1 && none.max_faults() == 0) {
            run.violation("C17.bft", feats(&[("entry", "ByzantineTolerance::is_valid".into()), ("shape", "none".into())]), json!({"variant": "None"}), "ByzantineTolerance::None misreported");
        }
        // informational probe outside the declared grid: usize extremes (overflow-checked build panics are not judged)
        for (t, f) in [(usize::MAX, usize::MAX / 2 + 1), (usize::MAX, usize::MAX / 2)] {
            let r = catch(|| ByzantineTolerance::Custom { total_nodes: t, max_faults: f }.is_valid());
            if r.is_err() {
                run.info("probe.bft_is_valid_overflow_panic_at_usize_extremes");
            }
        }
        bounds.insert("replication_factor_grid".into(), json!({"triples": 256u64 * 256 * 256, "accepted": rf_ok.load(Ordering::Relaxed)}));
        bounds.insert("byzantine_grid".into(), json!({"custom_total_x_faults": bt_n * bt_n, "classic_f": bt_n}));
        levels_done.push(format!("G: rf/bft grids @{:.1}s", run.elapsed().as_secs_f64()));
    }

    // ---- family W: calculate_weight over degenerate scores and exponents -----------------------------------------
    let deg9: [f64; 9] = [1.0, 0.0, 1e308, 5e-324, -0.0, -1.0, f64::NAN, f64::INFINITY, f64::NEG_INFINITY];
    {
        let scores: [f64; 11] = [0.5, 0.0, -0.0, 5e-324, 1.0, 1.0 + f64::EPSILON, -1.0, 1e308, f64::NAN, f64::INFINITY, f64::NEG_INFINITY];
        let ns = scores.len();
        par_for(ns * ns, |i| {
            let mut lo = Local::default();
            let sampler = WeightedSampler::new();
            let id = node_id(0);
            let (t, s) = (scores[i / ns], scores[i % ns]);
            for &c in &scores {
                for &d in &scores {
                    for &a in &deg9 {
                        for &b in &deg9 {
                            for &g in &deg9 {
                                lo.evals += 1;
                                let r = catch(|| sampler.calculate_weight(&id, t, s, c, d, a, b, g));
                                let bad = match &r {
                                    Err(_) => Some(("C17.nopanic", "panic")),
                                    Ok(Ok(w)) if !(w.is_finite() && *w > 0.0) => Some(("C17.weight", "ok-nonpositive-or-nonfinite")),
                                    _ => None,
                                };
                                if let Ok(Ok(w)) = &r {
                                    lo.outcomes.insert(hash64(&("cw", w.to_bits())));
                                }
                                if let Some((clause, shape)) = bad {
                                    run.violation_lazy(clause, feats(&[("entry", "WeightedSampler::calculate_weight".into()), ("shape", shape.into())]), || {
                                        (
                                            json!({"trust": format!("{t:e}"), "stability": format!("{s:e}"), "capacity": format!("{c:e}"), "diversity": format!("{d:e}"),
                                                   "alpha": format!("{a:e}"), "beta": format!("{b:e}"), "gamma": format!("{g:e}"), "result": format!("{r:?}")}),
                                            format!("calculate_weight({t:e},{s:e},{c:e},{d:e};{a:e},{b:e},{g:e}) -> {r:?}"),
                                        )
                                    });
                                }
                            }
                        }
                    }
                }
            }
            lo.flush(&cx);
        });
        bounds.insert("calculate_weight_grid".into(), json!({"scores": ns, "exponents": deg9.len(), "calls": (ns as u64).pow(4) * 9u64.pow(3)}));
        levels_done.push(format!("W: calculate_weight grid @{:.1}s", run.elapsed().as_secs_f64()));
    }

    // ---- family S: sample_nodes alone ------------------------------------------------------------------------------
    // S1: weight vectors over {tiny, 1, 3, huge}^n, all k, a complete fixed seed set: per-call clauses + C17.favour
    // S2: degenerate vectors over deg9^n: nopanic / count / distinct / subset (+ favour when every seed gave Ok)
    // S3: n in {21, 33, 60}: NaN at every single (and pair) position of an all-1.0 vector
    let sample_call = |lo: &mut Local, ws: &[f64], k: usize, seed: u64, counts: Option<&mut Vec<u64>>| -> bool {
        let cands: Vec<(NodeId, f64)> = ws.iter().enumerate().map(|(i, w)| (node_id(i), *w)).collect();
        let mut sampler = WeightedSampler::new();
        fastrand::seed(seed);
        let r = catch(|| sampler.sample_nodes(&cands, k));
        lo.evals += 1;
        lo.calls += 1;
        let e = "WeightedSampler::sample_nodes".to_string();
        let wit = |got: String, what: String| (json!({"entry": e, "weights": ws.iter().map(|w| format!("{w:e}")).collect::<Vec<_>>(), "k": k, "fastrand_seed": seed, "result": got}), what);
        match &r {
            Err(p) => {
                st.panics.fetch_add(1, Ordering::Relaxed);
                let has_nan = ws.iter().any(|w| w.is_nan());
                run.violation_lazy("C17.nopanic", feats(&[("entry", e.clone()), ("shape", if has_nan { "nan-weight".into() } else { p.chars().take(40).collect() })]), || {
                    wit(format!("panic: {p}"), format!("sample_nodes panicked (n={}, k={k}, seed={seed}): {p}", ws.len()))
                });
                false
            }
            Ok(Err(er)) => {
                lo.err += 1;
                lo.outcomes.insert(hash64(&("sn-err", err_kind(er))));
                false
            }
            Ok(Ok(sel)) => {
                lo.ok += 1;
                let idx: Vec<usize> = sel.iter().map(|id| idx_of(id, ws.len())).collect();
                if idx.len() != k {
                    run.violation_lazy("C17.count", feats(&[("entry", e.clone()), ("shape", if idx.len() < k { "short".into() } else { "long".into() })]), || {
                        wit(format!("{idx:?}"), format!("sample_nodes returned {} ids for k={k}", idx.len()))
                    });
                }
                if idx.contains(&FOREIGN) {
                    run.violation_lazy("C17.subset", feats(&[("entry", e.clone())]), || wit(format!("{sel:?}"), "sample_nodes returned a non-candidate".into()));
                }
                let mut s = idx.clone();
                s.sort();
                if s.windows(2).any(|p| p[0] == p[1]) {
                    run.violation_lazy("C17.distinct", feats(&[("entry", e.clone())]), || wit(format!("{idx:?}"), format!("sample_nodes drew with replacement: {idx:?}")));
                }
                if ws.len() <= 6 {
                    lo.outcomes.insert(hash64(&("sn-ok", ws.iter().map(|w| w.to_bits()).collect::<Vec<_>>(), &idx)));
                }
                if let Some(c) = counts {
                    for i in idx {
                        if i != FOREIGN {
                            c[i] += 1;
                        }
                    }
                }
                true
            }
        }
    };
    let favour = |cmp: &[f64], ws: &[f64], k: usize, seeds: u64, counts: &[u64]| {
        for i in 0..ws.len() {
            for j in 0..ws.len() {
                if cmp[i] > cmp[j] && counts[i] < counts[j] {
                    let shape = if ws[j] <= 0.0 { "nonpositive-beats-positive" } else { "lighter-chosen-more-often" };
                    run.violation_lazy("C17.favour", feats(&[("entry", "WeightedSampler::sample_nodes".into()), ("shape", shape.into())]), || {
                        (
                            json!({"weights": ws.iter().map(|w| format!("{w:e}")).collect::<Vec<_>>(), "k": k, "seeds": format!("0..{seeds}"), "times_chosen": counts, "heavier_idx": i, "lighter_idx": j}),
                            format!("over seeds 0..{seeds}, k={k}: weight {:e} chosen {} times, weight {:e} chosen {} times", ws[i], counts[i], ws[j], counts[j]),
                        )
                    });
                }
            }
        }
    };
    {
        let w4: [f64; 4] = [1e-300, 1.0, 3.0, 1e300];
        let nmax = run.tier.pick(5, 6);
        let seeds = run.tier.pick(512u64, 4096);
        let mut vecs: Vec<Vec<f64>> = Vec::new();
        for n in 1..=nmax {
            for code in 0..4usize.pow(n as u32) {
                vecs.push((0..n).map(|p| w4[code / 4usize.pow(p as u32) % 4]).collect());
            }
        }
        par_for(vecs.len(), |i| {
            if budget.exceeded() {
                return;
            }
            let mut lo = Local::default();
            let ws = &vecs[i];
            for k in 0..=ws.len() {
                let mut counts = vec![0u64; ws.len()];
                for s in 0..seeds {
                    sample_call(&mut lo, ws, k, s, Some(&mut counts));
                }
                favour(ws, ws, k, seeds, &counts);
            }
            lo.flush(&cx);
        });
        bounds.insert("sample_nodes_favour".into(), json!({"alphabet": ["1e-300", "1", "3", "1e300"], "n_max": nmax, "vectors": vecs.len(), "k": "0..=n", "seeds_per_vector_and_k": seeds}));
        // S2
        let n2 = run.tier.pick(4, 5);
        let seeds2 = 16u64;
        let mut vecs2: Vec<Vec<f64>> = vec![vec![]];
        for n in 1..=n2 {
            for code in 0..9usize.pow(n as u32) {
                vecs2.push((0..n).map(|p| deg9[code / 9usize.pow(p as u32) % 9]).collect());
            }
        }
        par_for(vecs2.len(), |i| {
            if budget.exceeded() {
                return;
            }
            let mut lo = Local::default();
            let ws = &vecs2[i];
            for k in 0..=ws.len() + 1 {
                let mut counts = vec![0u64; ws.len()];
                let mut all_ok = true;
                for s in 0..seeds2 {
                    all_ok &= sample_call(&mut lo, ws, k, s, Some(&mut counts));
                }
                if all_ok && ws.iter().all(|w| !w.is_nan()) {
                    // 16 seeds: only classes whose keys cannot tie are compared: nonpositive < tiny (key 0) < 1 (key in (0,1)) < {1e308, +inf} (key 1.0)
                    let class: Vec<f64> = ws.iter().map(|w| if *w <= 0.0 { -1.0 } else if *w < 1e-300 { 0.0 } else if *w >= 1e308 { 2.0 } else { 1.0 }).collect();
                    favour(&class, ws, k, seeds2, &counts);
                }
            }
            lo.flush(&cx);
        });
        bounds.insert("sample_nodes_degenerate".into(), json!({"alphabet": ["1", "0", "1e308", "5e-324", "-0", "-1", "NaN", "+inf", "-inf"], "n_max": n2, "vectors": vecs2.len(), "k": "0..=n+1", "seeds": seeds2}));
        // S3
        let big: Vec<usize> = (5..=24).chain([32, 33, 59, 60]).collect();
        let mut cases: Vec<(usize, usize, usize)> = Vec::new(); // (n, pos a, pos b) with a==b for single
        for &n in &big {
            for a in 0..n {
                cases.push((n, a, a));
            }
            if thorough || n <= 33 {
                for a in 0..n {
                    for b in a + 1..n {
                        cases.push((n, a, b));
                    }
                }
            }
        }
        par_for(cases.len(), |i| {
            let (n, a, b) = cases[i];
            let mut lo = Local::default();
            for special in [f64::NAN, f64::INFINITY, 5e-324] {
                let mut ws = vec![1.0; n];
                ws[a] = special;
                ws[b] = special;
                for k in [1usize, n / 2, n] {
                    for s in 0..run.tier.pick(2u64, 8) {
                        sample_call(&mut lo, &ws, k, s, None);
                    }
                }
            }
            lo.flush(&cx);
        });
        bounds.insert("sample_nodes_large".into(), json!({"n": big, "special_values": ["NaN", "+inf", "5e-324"], "sites": "every single position; every pair of positions (n<=33 quick, all thorough)", "cases": cases.len()}));
        levels_done.push(format!("S: sample_nodes sweeps @{:.1}s", run.elapsed().as_secs_f64()));
    }

    // ---- family V: DiversityEnforcer::validate_selection on every multiset of the full alphabet ---------------------
    let types_full = type_alphabet(full.pts.len(), &[1, 2], 2);
    {
        let nmax = run.tier.pick(5, 6);
        let enforcer = DiversityEnforcer::new();
        let spurious = AtomicU64::new(0);
        for n in 0..=nmax {
            let units = prefixes(types_full.len(), n);
            par_for(units.len(), |u| {
                if budget.exceeded() {
                    return;
                }
                let mut lo = Local::default();
                for_multisets(types_full.len(), n, &units[u], &mut |ms| {
                    let nodes: Vec<NodeT> = ms.iter().map(|i| types_full[*i]).collect();
                    let sel: Vec<(NodeId, GeographicLocation, u32, NetworkRegion)> = nodes
                        .iter()
                        .enumerate()
                        .map(|(i, t)| {
                            let p = &full.pts[t.loc as usize];
                            (node_id(i), GeographicLocation { latitude: p.lat, longitude: p.lon }, t.asn as u32, ALL_REGIONS[t.reg as usize])
                        })
                        .collect();
                    lo.evals += 1;
                    let r = catch(|| enforcer.validate_selection(&sel));
                    let inst_breach = {
                        // reference without building the hash maps of Inst
                        let inst = Inst { tab: &full, nodes: nodes.clone(), gap: None, cands: HashSet::new(), meta: HashMap::new() };
                        let all: Vec<usize> = (0..n).collect();
                        let b = inst.first_breach(&all);
                        (inst, b)
                    };
                    let (inst, breach) = inst_breach;
                    match (&r, &breach) {
                        (Err(p), _) => run.violation_lazy("C17.nopanic", feats(&[("entry", "DiversityEnforcer::validate_selection".into()), ("shape", "panic".into())]), || {
                            (json!({"selection": inst.json(), "panic": p}), format!("validate_selection panicked: {p}"))
                        }),
                        (Ok(Ok(())), Some((clause, shape))) => run.violation_lazy(clause, feats(&[("entry", "DiversityEnforcer::validate_selection".into()), ("shape", shape.clone())]), || {
                            (json!({"selection": inst.json(), "result": "Ok(())"}), format!("validate_selection accepted a selection that breaks {clause} ({shape})"))
                        }),
                        (Ok(Err(_)), None) => {
                            spurious.fetch_add(1, Ordering::Relaxed);
                        }
                        _ => {}
                    }
                    lo.outcomes.insert(hash64(&("vs", matches!(r, Ok(Ok(()))), breach.as_ref().map(|b| (b.0, b.1.clone())))));
                });
                lo.flush(&cx);
            });
        }
        if spurious.load(Ordering::Relaxed) > 0 {
            run.info_n("validate_selection_rejected_admissible_selection", spurious.load(Ordering::Relaxed));
        }
        bounds.insert("validate_selection".into(), json!({"types": types_full.len(), "n_max": nmax, "multisets": (0..=nmax).map(|n| multiset_count(types_full.len(), n)).sum::<u64>()}));
        levels_done.push(format!("V: validate_selection n<={nmax} @{:.1}s", run.elapsed().as_secs_f64()));
    }

    // ---- family A: select_nodes on every multiset of the full alphabet (44+ types), small n --------------------------
    let seed_cap = 4096u64;
    let run_family = |name: &str, tab: &LocTable, types: &[NodeT], ns: &[usize], entries: &[Entry], gaps: bool, k_extra: bool, cap: u64, done: &mut Vec<String>| {
        for &n in ns {
            if budget.exceeded() {
                break;
            }
            let units = prefixes(types.len(), n);
            par_for(units.len(), |u| {
                if budget.exceeded() {
                    return;
                }
                let sub = Subjects::new();
                let mut lo = Local::default();
                let w = default_w();
                let mut suts: Vec<(Entry, Sut)> = entries.iter().map(|e| (*e, make_sut(*e, &w))).collect();
                for_multisets(types.len(), n, &units[u], &mut |ms| {
                    if budget.exceeded() {
                        return;
                    }
                    let nodes: Vec<NodeT> = ms.iter().map(|i| types[*i]).collect();
                    let gap_list: Vec<Option<usize>> = if gaps { (0..n).map(Some).collect() } else { vec![None] };
                    for gap in gap_list {
                        let inst = Inst::new(tab, &nodes, gap);
                        for (entry, sut) in suts.iter_mut() {
                            if gap.is_some() {
                                // metadata gap: fixed seeds, no outcome-space accounting (what is possible here is the implementation's choice)
                                for k in 0..=n as u8 {
                                    for seed in 0..cap {
                                        let res = call(sut, &sub, &inst, k, seed);
                                        judge(&cx, &mut lo, &inst, *entry, &w, k, seed, &res);
                                    }
                                }
                                continue;
                            }
                            for k in 0..=n as u8 {
                                sweep(&cx, &mut lo, &sub, sut, &inst, *entry, &w, k, cap);
                            }
                            let extra: Vec<u8> = if k_extra { (n as u8 + 1..=20).collect() } else { vec![n as u8 + 1, 20] };
                            for k in extra {
                                sweep(&cx, &mut lo, &sub, sut, &inst, *entry, &w, k, 1);
                            }
                        }
                    }
                });
                lo.flush(&cx);
            });
            if !budget.was_hit() {
                done.push(format!("{name}: n={n} ({} multisets) @{:.1}s", multiset_count(types.len(), n), run.elapsed().as_secs_f64()));
            }
        }
    };
    // thorough runs n = 6 of this family LAST (largest level: a wall-clock cap then only truncates that level)
    let na: Vec<usize> = (0..=run.tier.pick(4, 5)).collect();
    run_family("A(full alphabet, strategy)", &full, &types_full, &na, &[Entry::Strategy], false, false, seed_cap, &mut levels_done);
    let na_small: Vec<usize> = (0..=run.tier.pick(4, 5)).collect();
    run_family("A'(full alphabet, PlacementEngine cfg0+cfg1, all k<=20)", &full, &types_full, &na_small, &[Entry::Engine(0), Entry::Engine(1)], false, true, 512, &mut levels_done);
    run_family("A''(full alphabet, each single node without metadata)", &full, &types_full, &na_small, &[Entry::Strategy], true, false, 2, &mut levels_done);
    bounds.insert("family_A".into(), json!({"locations": full.pts.iter().map(|p| p.name.clone()).collect::<Vec<_>>(), "asn": [1, 2], "regions": ["Europe", "NorthAmerica"], "types": types_full.len(),
        "n_strategy": if thorough { json!([0, 1, 2, 3, 4, 5, 6]) } else { json!(na) }, "n_engine_and_gaps": na_small, "k": "0..=n exhaustively seeded; n+1..=20 one call (engine family) / n+1 and 20 (others)", "seed_cap": seed_cap}));

    // ---- family B: reduced location alphabet, three regions, larger n (Ok reachable for k = 5, 6) --------------------
    let types_b_small: Vec<NodeT> = {
        // 4 locations x {(asn1,EU),(asn1,NA),(asn2,EU),(asn1,AP)}
        let mut v = Vec::new();
        for loc in 0..reduced.pts.len() as u16 {
            for (asn, reg) in [(1u16, 0u8), (1, 1), (2, 0), (1, 2)] {
                v.push(NodeT { loc, asn, reg });
            }
        }
        v
    };
    let types_b_full = type_alphabet(reduced.pts.len(), &[1, 2], 3);
    let (b24, b16): (Vec<usize>, Vec<usize>) = run.tier.pick((vec![5], vec![6, 7]), (vec![5, 6, 7], vec![8]));
    run_family("B(reduced alphabet 24 types, strategy)", &reduced, &types_b_full, &b24, &[Entry::Strategy], false, false, seed_cap, &mut levels_done);
    run_family("B'(reduced alphabet 16 types, strategy)", &reduced, &types_b_small, &b16, &[Entry::Strategy], false, false, seed_cap, &mut levels_done);
    bounds.insert("family_B".into(), json!({"locations": reduced.pts.iter().map(|p| p.name.clone()).collect::<Vec<_>>(), "types_16": "4 loc x {(1,EU),(1,NA),(2,EU),(1,AP)}", "types_24": "4 loc x asn{1,2} x {EU,NA,AP}",
        "n": json!({"24 types": b24, "16 types": b16}), "seed_cap": seed_cap}));

    // ---- family X: degenerate optimisation weights (struct built literally; also through the validating constructors) --
    {
        let reps: Vec<Vec<NodeT>> = {
            let t = |loc: u16, asn: u16, reg: u8| NodeT { loc, asn, reg };
            vec![
                vec![],
                vec![t(0, 1, 0)],
                vec![t(0, 1, 0), t(0, 1, 0)],                                  // same point
                vec![t(0, 1, 0), t(5, 1, 0), t(6, 2, 1), t(7, 1, 1)],          // all admissible
                vec![t(0, 1, 0), t(3, 1, 0), t(5, 1, 0), t(6, 1, 1), t(9, 1, 1)], // 3 EU, 5 in one ASN
            ]
        };
        let combos: Vec<[f64; 4]> = {
            let mut v = Vec::new();
            for a in deg9 {
                for b in deg9 {
                    for c in deg9 {
                        for d in [1.0, 0.0, f64::NAN] {
                            v.push([a, b, c, d]);
                        }
                    }
                }
            }
            v
        };
        par_for(combos.len(), |i| {
            if budget.exceeded() {
                return;
            }
            let c = combos[i];
            let sub = Subjects::new();
            let mut lo = Local::default();
            let w = OptimizationWeights { trust_weight: c[0], performance_weight: c[1], capacity_weight: c[2], diversity_weight: c[3] };
            // the validating constructors must not panic either
            lo.evals += 1;
            let r = catch(|| OptimizationWeights::new(c[0], c[1], c[2], c[3]).and_then(|w| PlacementConfig::new(ReplicationFactor::default(), Duration::from_secs(30), ByzantineTolerance::default(), w.normalized())));
            if let Err(p) = &r {
                run.violation_lazy("C17.nopanic", feats(&[("entry", "OptimizationWeights::new/PlacementConfig::new".into()), ("shape", "panic".into())]), || {
                    (json!({"weights": weights_json(&w), "panic": p}), format!("config constructors panicked: {p}"))
                });
            }
            for entry in [Entry::Strategy, Entry::Engine(1)] {
                let mut sut = make_sut(entry, &w);
                for nodes in &reps {
                    let inst = Inst::new(&full, nodes, None);
                    for k in 0..=(nodes.len() as u8 + 1) {
                        for seed in 0..run.tier.pick(4u64, 32) {
                            let res = call(&mut sut, &sub, &inst, k, seed);
                            judge(&cx, &mut lo, &inst, entry, &w, k, seed, &res);
                        }
                    }
                }
            }
            lo.flush(&cx);
        });
        bounds.insert("degenerate_weights".into(), json!({"per_component": ["1", "0", "1e308", "5e-324", "-0", "-1", "NaN", "+inf", "-inf"], "diversity_weight": ["1", "0", "NaN"], "combinations": combos.len(),
            "candidate_sets": reps.len(), "k": "0..=n+1", "entries": ["strategy", "engine cfg1"], "seeds": run.tier.pick(4, 32)}));
        if !budget.was_hit() {
            levels_done.push(format!("X: degenerate optimisation weights @{:.1}s", run.elapsed().as_secs_f64()));
        }
    }

    // ---- family L: large structured candidate sets (n up to 60), k = 0..=20 --------------------------------------------
    {
        let big_pts: Vec<Loc> = (0..60).map(|i| Loc { name: format!("grid{i}"), lat: -85.0 + 10.0 * (i % 18) as f64, lon: -170.0 + 40.0 * (i / 18) as f64 }).collect();
        let mut pts = big_pts.clone();
        pts.push(Loc { name: "P0".into(), lat: 48.0, lon: 10.0 });
        let bigtab = LocTable::new(pts);
        for row in &bigtab.km {
            for d in row {
                if (*d - 50.0).abs() < 0.05 {
                    run.machinery_error("large-family location pair inside ambiguity band");
                }
            }
        }
        let layouts: Vec<(&str, Box<dyn Fn(usize) -> NodeT + Sync>)> = vec![
            ("spread: 8 regions cycling, asn=i%30", Box::new(|i| NodeT { loc: i as u16, asn: (i % 30) as u16, reg: (i % 8) as u8 })),
            ("one region", Box::new(|i| NodeT { loc: i as u16, asn: i as u16, reg: 0 })),
            ("one asn, 8 regions", Box::new(|i| NodeT { loc: i as u16, asn: 1, reg: (i % 8) as u8 })),
            ("all at P0, 8 regions, distinct asn", Box::new(|i| NodeT { loc: 60, asn: i as u16, reg: (i % 8) as u8 })),
            ("one node at P0 twice, rest spread", Box::new(|i| NodeT { loc: if i < 2 { 60 } else { i as u16 }, asn: i as u16, reg: (i % 8) as u8 })),
        ];
        let sizes: Vec<usize> = vec![9, 10, 16, 17, 20, 21, 32, 33, 59, 60];
        let seeds = run.tier.pick(24u64, 512);
        let cases: Vec<(usize, usize)> = (0..layouts.len()).flat_map(|l| sizes.iter().map(move |s| (l, *s))).collect();
        par_for(cases.len(), |ci| {
            if budget.exceeded() {
                return;
            }
            let (l, n) = cases[ci];
            let nodes: Vec<NodeT> = (0..n).map(|i| (layouts[l].1)(i)).collect();
            let inst = Inst::new(&bigtab, &nodes, None);
            let sub = Subjects::new();
            let mut lo = Local::default();
            let w = default_w();
            for entry in [Entry::Strategy, Entry::Engine(1)] {
                let mut sut = make_sut(entry, &w);
                for k in 0..=20u8 {
                    for seed in 0..seeds {
                        let res = call(&mut sut, &sub, &inst, k, seed);
                        judge(&cx, &mut lo, &inst, entry, &w, k, seed, &res);
                    }
                }
            }
            lo.flush(&cx);
        });
        bounds.insert("family_L".into(), json!({"layouts": layouts.iter().map(|l| l.0).collect::<Vec<_>>(), "n": sizes, "k": "0..=20", "seeds": seeds, "coverage": "fixed seed set, outcome space not enumerated (not claimed exhaustive)"}));
        if !budget.was_hit() {
            levels_done.push(format!("L: large structured sets @{:.1}s", run.elapsed().as_secs_f64()));
        }
    }

    if thorough {
        run_family("A(full alphabet, strategy)", &full, &types_full, &[6], &[Entry::Strategy], false, false, seed_cap, &mut levels_done);
    }
    if budget.was_hit() {
        run.cap_hit(format!("wall-clock budget hit; completed levels: {levels_done:?}"));
        if levels_done.len() < 4 {
            run.machinery_error("not even the base families completed");
        }
    }
    let pairs = st.pairs.load(Ordering::Relaxed);
    let covered = st.pairs_covered.load(Ordering::Relaxed);
    run.info_n("select_nodes_calls", st.calls.load(Ordering::Relaxed));
    run.info_n("calls_ok", st.ok.load(Ordering::Relaxed));
    run.info_n("calls_err", st.err.load(Ordering::Relaxed));
    run.info_n("panics", st.panics.load(Ordering::Relaxed));
    run.info_n("err_although_every_k_subset_admissible(info, not judged)", st.spurious_err.load(Ordering::Relaxed));
    bounds.insert("seed_sweep".into(), json!({"instance_k_pairs": pairs, "pairs_with_every_possible_outcome_observed": covered, "outcomes_possible": st.outcomes_possible.load(Ordering::Relaxed),
        "outcomes_observed": st.outcomes_observed.load(Ordering::Relaxed), "max_seeds_spent_on_one_pair": st.max_seeds.load(Ordering::Relaxed),
        "not_covered_examples": st.uncovered.lock().unwrap().clone()}));
    bounds.insert("levels_completed".into(), json!(levels_done));
    let exhaustive = !budget.was_hit() && pairs == covered;
    let coverage = cov(vec![
        ("evaluations", json!(distinct.evaluations())),
        ("distinct_nontrivial", json!(distinct.distinct())),
        ("rule", json!("evaluation = one call of the real code judged by the oracle (select_nodes / sample_nodes / calculate_weight / validate_selection / ReplicationFactor::new / ByzantineTolerance accessors); distinct = distinct observed outcomes: (entry, Ok: sorted multiset of selected node types | Err: error variant + constraint) for select_nodes, (weights, ordered result) for sample_nodes n<=6, result bits for calculate_weight, (accepted?, breached clause/shape) for validate_selection")),
        ("samples", json!(st.samples.lock().unwrap().clone())),
        ("exhaustive", json!(exhaustive)),
        ("bounds", Value::Object(bounds)),
    ]);
    run.finish(
        coverage,
        vec![
            "weakest reading: Err is always admissible; an Err although every k-subset is admissible is counted (info) but not judged, because the statement promises no success".into(),
            "distances are judged with an independent great-circle formula on the R=6371 km sphere; the alphabet keeps every pair >= 0.05 km away from the 50 km and 100 km thresholds".into(),
            "sampler randomness is owned through fastrand::seed per call; the iteration order of the std HashSet of candidates is not owned: it permutes which uniform a candidate receives, so seed->outcome differs between processes, while the oracle clauses are universal over outcomes and coverage is counted on observed outcomes (verdicts are run-independent, evaluation counts vary by a few percent)".into(),
            "C17.favour is a count over a complete fixed seed set (0..512 quick / 0..4096 thorough) per (weight vector, k); weight ratios are 3:1 or astronomically large, so the count comparison is far outside sampling noise".into(),
            "trust/stability/capacity scores inside select_nodes are the constants the crate currently uses (0.8/0.9/1.0); per-node score variation is exercised only through calculate_weight and sample_nodes directly".into(),
            "DESIGN bounds (n<=6 quick / <=8 thorough over the full product alphabet) were scaled to measured throughput: full 48-type alphabet to n<=4 quick / <=6 thorough, reduced 24-type alphabet for n=5 quick / 5..7 thorough, 16-type alphabet for n=6,7 quick / n=8 thorough".into(),
            "ByzantineTolerance is judged on 0..=255 only; usize extremes are probed as info (2*max_faults overflows there)".into(),
        ],
    );
}
