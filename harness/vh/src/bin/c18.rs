//! C18 — stored keys open only with the current password; tampering is detected; an interrupted
//! update leaves the old or the new file.
//!
//! Real `EncryptedKeyStorageManager` (SecurityLevel::Fast) over scratch files in /dev/shm, rebuilt by replay.
//!  (A) operation histories over {store(id, seed, pw), retrieve(id, pw), change_password(old, fresh),
//!      clear_cache, reopen} with pw in {current, previous, never-valid}:
//!        - explicit-state BFS to fix-point, states merged by (id->seed map, ids served in this process since the
//!          last reopen/clear/change, whether a previous password exists);
//!        - every history up to a depth bound WITHOUT merging.
//!      After every history every (id, password) pair is asked once more (wrong passwords first).
//!  (B) corruption: every byte of the store file x {8 bit flips, 0x00, 0xFF}, every truncation, trailing bytes;
//!      reopened with a fresh manager.
//!  (C) crash images around the rename of every write (no hooks in the crate yet): old file + complete ".tmp";
//!      only the new file; old file + every byte-prefix of the new content in ".tmp"; plus torn writes produced by
//!      the kernel (RLIMIT_FSIZE makes the subject's own write fail after n bytes). Each image is reopened and then
//!      written to again.
//!
//! Reference: (current password, id -> seed).
//!   C18.right  the current password returns the stored seed unchanged (and a mutation with it succeeds)
//!   C18.wrong  any other password never gets Ok — from retrieve, store or change_password
//!   C18.tamper damaged file => Err or Ok(original seed)
//!   C18.crash  reopened image == old content or new content, and stays usable
//!   C18.nopanic
use saorsa_core::encrypted_key_storage::{EncryptedKeyStorageManager, SecurityLevel};
use saorsa_core::key_derivation::MasterSeed;
use saorsa_core::secure_memory::SecureString;
use serde_json::{Value, json};
use std::collections::BTreeMap;
use std::path::{Path, PathBuf};
use std::sync::atomic::{AtomicU64, Ordering};
use std::time::{Duration, Instant};
use vh::core::*;

const IDS: [&str; 2] = ["s1", "s2"];

fn seed_bytes(i: usize) -> [u8; 32] {
    *blake3::hash(format!("vh-c18-seed-{i}").as_bytes()).as_bytes()
}
fn seed(i: usize) -> MasterSeed {
    MasterSeed::from_entropy(&seed_bytes(i)).expect("seed")
}
/// g-th password of the store's life (g = 0 initial). All pass `validate_password`.
fn pw_text(g: usize) -> String {
    format!("Kx-C18_Vq7rd#g{g}")
}
const NEVER: &str = "Nv-C18_Zt4mw#q9";
fn ss(s: &str) -> SecureString {
    SecureString::from_plain_str(s).expect("secure string")
}

#[derive(Clone, Copy, PartialEq, Eq, Hash, Debug, PartialOrd, Ord)]
enum Pw {
    Cur,
    Prev,
    Never,
}
impl Pw {
    fn name(&self) -> &'static str {
        match self {
            Pw::Cur => "current",
            Pw::Prev => "previous",
            Pw::Never => "never-valid",
        }
    }
}
#[derive(Clone, Copy, Debug, PartialEq, Eq)]
enum Op {
    Store(usize, usize, Pw),
    Retrieve(usize, Pw),
    Change(Pw),     // old = Pw, new = next fresh password
    ChangeBack,     // old = current, new = the previous password (thorough)
    ChangeWeak,     // old = current, new = "short" (must be refused, nothing changes) (thorough)
    ClearCache,
    Reopen,
}
fn op_json(o: &Op) -> Value {
    match o {
        Op::Store(i, s, p) => json!({"store_master_seed": {"id": IDS[*i], "seed": format!("S{s}"), "password": p.name()}}),
        Op::Retrieve(i, p) => json!({"retrieve_master_seed": {"id": IDS[*i], "password": p.name()}}),
        Op::Change(p) => json!({"change_password": {"old": p.name(), "new": "fresh"}}),
        Op::ChangeBack => json!({"change_password": {"old": "current", "new": "the previous password"}}),
        Op::ChangeWeak => json!({"change_password": {"old": "current", "new": "short (fails validation)"}}),
        Op::ClearCache => json!("clear_cache"),
        Op::Reopen => json!("reopen (fresh manager on the same file)"),
    }
}

#[derive(Clone, Default, PartialEq, Eq, Debug)]
struct Ref {
    cur: String,
    prev: Option<String>,
    gen_next: usize,
    map: BTreeMap<usize, usize>, // id -> seed index
    warm: [bool; 2],             // id served (stored / returned) by this manager instance since the last clear / change
}
impl Ref {
    fn pw(&self, p: Pw) -> Option<String> {
        match p {
            Pw::Cur => Some(self.cur.clone()),
            Pw::Prev => self.prev.clone(),
            Pw::Never => Some(NEVER.to_string()),
        }
    }
}

struct Cx<'a> {
    run: &'a Run,
    distinct: &'a Distinct,
    root: PathBuf,
    template: Vec<u8>, // store file initialised with password g0, no seeds
    hist: std::sync::Mutex<BTreeMap<String, u64>>,
}
static SEQ: AtomicU64 = AtomicU64::new(0);
impl Cx<'_> {
    fn tally(&self, key: String) {
        *self.hist.lock().unwrap().entry(key).or_insert(0) += 1;
    }
    fn scratch(&self) -> PathBuf {
        let d = self.root.join(format!("w{}", SEQ.fetch_add(1, Ordering::Relaxed)));
        std::fs::create_dir_all(&d).expect("scratch dir");
        d
    }
}
fn mgr(path: &Path) -> EncryptedKeyStorageManager {
    EncryptedKeyStorageManager::new(path, SecurityLevel::Fast).expect("manager")
}
fn rt() -> tokio::runtime::Runtime {
    tokio::runtime::Builder::new_current_thread().enable_all().build().unwrap()
}
async fn guarded<T>(f: impl std::future::Future<Output = T>) -> Result<T, String> {
    futures::FutureExt::catch_unwind(std::panic::AssertUnwindSafe(f)).await.map_err(|_| "panic".to_string())
}
/// Ok(Some(seed bytes)) / Ok(None) = Err from the library / Err = panic
async fn retrieve(m: &EncryptedKeyStorageManager, id: usize, pw: &str) -> Result<Result<Vec<u8>, String>, String> {
    let p = ss(pw);
    guarded(async { m.retrieve_master_seed(IDS[id], &p).await.map(|s| s.seed_material().to_vec()).map_err(|e| e.to_string()) }).await
}
fn err_class(e: &str) -> String {
    // coarse class of an error text: up to the second ':'
    e.splitn(3, ':').take(2).collect::<Vec<_>>().join(":").chars().take(60).collect()
}

/// Judge one retrieve result. Returns false if the reference can no longer be trusted (stop the history).
#[allow(clippy::too_many_arguments)]
fn judge_retrieve(cx: &Cx, r: &Ref, id: usize, p: Pw, res: &Result<Result<Vec<u8>, String>, String>, phase: &str, wit: &dyn Fn(Value) -> Value) {
    cx.distinct.eval();
    let warm = if r.warm[id] { "seed-served-earlier-by-this-manager" } else { "cold" };
    match res {
        Err(_) => {
            cx.run.violation_lazy("C18.nopanic", feats(&[("entry", "retrieve_master_seed".into())]), || (wit(json!({"retrieve": IDS[id], "password": p.name()})), "retrieve_master_seed panicked".into()));
        }
        Ok(got) => {
            let class = match got {
                Ok(_) => "ok".to_string(),
                Err(e) => err_class(e),
            };
            cx.distinct.outcome(&("retrieve", p, r.map.contains_key(&id), warm, class));
            match p {
                Pw::Cur => {
                    let want = r.map.get(&id).map(|s| seed_bytes(*s).to_vec());
                    let shape = match (got, &want) {
                        (Ok(b), Some(w)) if b == w => None,
                        (Ok(_), Some(_)) => Some("different-seed"),
                        (Ok(_), None) => Some("ok-for-id-never-stored"),
                        (Err(_), Some(_)) => Some("error-with-current-password"),
                        (Err(_), None) => None,
                    };
                    if let Some(shape) = shape {
                        cx.run.violation_lazy("C18.right", feats(&[("entry", "retrieve_master_seed".into()), ("shape", shape.into()), ("phase", phase.into())]), || {
                            (wit(json!({"retrieve": IDS[id], "password": "current", "got": got.as_ref().map(hex::encode).map_err(|e| e.clone()), "expected": want.as_ref().map(hex::encode)})), format!("retrieve({}, current password): {shape}", IDS[id]))
                        });
                    }
                }
                _ => {
                    if let Ok(b) = got {
                        cx.run.violation_lazy("C18.wrong", feats(&[("entry", "retrieve_master_seed".into()), ("password", p.name().into()), ("cache", warm.into())]), || {
                            (wit(json!({"retrieve": IDS[id], "password": p.name(), "got": hex::encode(b)})), format!("retrieve({}, {} password) returned Ok({}..)", IDS[id], p.name(), hex_short(b)))
                        });
                    }
                }
            }
        }
    }
}

/// Replay `h` on a fresh manager over a copy of the initialised template; judge the last op; probe the state.
fn hist_step(cx: &Cx, ops: &[Op], h: &[usize], merged: bool) -> Option<(Vec<u64>, u64)> {
    let dir = cx.scratch();
    let path = dir.join("store.enc");
    std::fs::write(&path, &cx.template).expect("template copy");
    let out = rt().block_on(async {
        let mut m = mgr(&path);
        let mut r = Ref { cur: pw_text(0), prev: None, gen_next: 1, ..Default::default() };
        let wit = |extra: Value| json!({"security_level": "Fast", "start": "store initialised with the password called current", "history": h.iter().map(|&i| op_json(&ops[i])).collect::<Vec<_>>(), "last": extra,
            "passwords": "current = password of the last successful initialize/change_password; previous = the one before; never-valid was never used; fresh = a new valid password"});
        for (pos, &oi) in h.iter().enumerate() {
            let last = pos + 1 == h.len();
            match ops[oi] {
                Op::Store(id, s, p) => {
                    let pw = r.pw(p)?;
                    let sp = ss(&pw);
                    let sd = seed(s);
                    let res = guarded(async { m.store_master_seed(IDS[id], &sd, &sp).await.map_err(|e| e.to_string()) }).await;
                    if last {
                        cx.distinct.eval();
                        cx.distinct.outcome(&("store", p, res.as_ref().map(|x| x.as_ref().map(|_| ()).map_err(|e| err_class(e))).map_err(|_| ())));
                    }
                    match res {
                        Err(_) => {
                            cx.run.violation_lazy("C18.nopanic", feats(&[("entry", "store_master_seed".into())]), || (wit(json!({})), "store_master_seed panicked".into()));
                            return None;
                        }
                        Ok(Ok(())) if p == Pw::Cur => {
                            r.map.insert(id, s);
                            r.warm[id] = true;
                        }
                        Ok(Ok(())) => {
                            cx.run.violation_lazy("C18.wrong", feats(&[("entry", "store_master_seed".into()), ("password", p.name().into())]), || (wit(json!({"store": IDS[id], "password": p.name(), "returned": "Ok"})), format!("store_master_seed accepted the {} password", p.name())));
                            return None;
                        }
                        Ok(Err(e)) if p == Pw::Cur => {
                            if last {
                                cx.run.violation_lazy("C18.right", feats(&[("entry", "store_master_seed".into()), ("shape", "error-with-current-password".into()), ("phase", "history".into())]), || (wit(json!({"store": IDS[id], "returned": e})), format!("store_master_seed with the current password failed: {e}")));
                            }
                            return None;
                        }
                        Ok(Err(_)) => {}
                    }
                }
                Op::Retrieve(id, p) => {
                    let pw = r.pw(p)?;
                    let res = retrieve(&m, id, &pw).await;
                    if last {
                        judge_retrieve(cx, &r, id, p, &res, "history", &wit);
                    }
                    match (&res, p) {
                        (Ok(Ok(_)), Pw::Cur) => r.warm[id] = true,
                        (Ok(Ok(_)), _) => {} // wrong-password success: reported when it was the last op; the store itself is unchanged
                        _ => {}
                    }
                }
                Op::Change(_) | Op::ChangeBack | Op::ChangeWeak => {
                    let (oldp, new, must_fail) = match ops[oi] {
                        Op::Change(p) => (p, pw_text(r.gen_next), false),
                        Op::ChangeBack => (Pw::Cur, r.prev.clone()?, false),
                        _ => (Pw::Cur, "short".to_string(), true),
                    };
                    let old = r.pw(oldp)?;
                    let (so, sn) = (ss(&old), ss(&new));
                    let res = guarded(async { m.change_password(&so, &sn).await.map_err(|e| e.to_string()) }).await;
                    if last {
                        cx.distinct.eval();
                        cx.distinct.outcome(&("change", oldp, must_fail, res.as_ref().map(|x| x.as_ref().map(|_| ()).map_err(|e| err_class(e))).map_err(|_| ())));
                    }
                    match res {
                        Err(_) => {
                            cx.run.violation_lazy("C18.nopanic", feats(&[("entry", "change_password".into())]), || (wit(json!({})), "change_password panicked".into()));
                            return None;
                        }
                        Ok(Ok(())) if oldp == Pw::Cur && !must_fail => {
                            r.prev = Some(r.cur.clone());
                            r.cur = new;
                            r.gen_next += 1;
                            r.warm = [false; 2];
                        }
                        Ok(Ok(())) => {
                            let shape = if must_fail { "weak-new-password-accepted" } else { "wrong-old-password-accepted" };
                            cx.run.violation_lazy("C18.wrong", feats(&[("entry", "change_password".into()), ("password", oldp.name().into()), ("shape", shape.into())]), || (wit(json!({"old": oldp.name(), "returned": "Ok"})), format!("change_password: {shape}")));
                            return None;
                        }
                        Ok(Err(e)) if oldp == Pw::Cur && !must_fail => {
                            if last {
                                cx.run.violation_lazy("C18.right", feats(&[("entry", "change_password".into()), ("shape", "error-with-current-password".into()), ("phase", "history".into())]), || (wit(json!({"returned": e})), format!("change_password with the current password failed: {e}")));
                            }
                            return None;
                        }
                        Ok(Err(_)) => {}
                    }
                }
                Op::ClearCache => {
                    if !r.warm.iter().any(|w| *w) && merged {
                        // nothing served since the last reset: clear_cache is a no-op on an empty cache; still executed
                    }
                    let _ = m.clear_cache();
                    r.warm = [false; 2];
                }
                Op::Reopen => {
                    m = mgr(&path);
                    r.warm = [false; 2];
                }
            }
        }
        // ---- probe the reached state: every id x every password, wrong ones first (they must not change anything)
        let mut obs: Vec<(usize, Pw, Option<Vec<u8>>)> = Vec::new();
        let warm0 = r.warm;
        for p in [Pw::Prev, Pw::Never, Pw::Cur] {
            for id in 0..2 {
                let Some(pw) = r.pw(p) else { continue };
                let res = retrieve(&m, id, &pw).await;
                let mut rr = r.clone();
                rr.warm = if p == Pw::Cur { r.warm } else { warm0 };
                judge_retrieve(cx, &rr, id, p, &res, "state-probe", &wit);
                if let (Ok(Ok(_)), Pw::Cur) = (&res, p) {
                    r.warm[id] = true;
                }
                obs.push((id, p, res.ok().and_then(|x| x.ok())));
            }
        }
        let canon: Vec<u64> = if merged {
            vec![hash64(&(r.map.clone(), warm0, r.prev.is_some()))]
        } else {
            h.iter().map(|&i| i as u64).collect()
        };
        Some((canon, hash64(&obs)))
    });
    let _ = std::fs::remove_dir_all(&dir);
    out
}

// ---------------------------------------------------------------------------------------------
// (B) corruption

struct Image {
    name: &'static str,
    bytes: Vec<u8>,
    cur: String,
    prev: Option<String>,
    map: BTreeMap<usize, usize>,
}

/// run `script` on a fresh store and return the resulting file
fn build_image(cx: &Cx, name: &'static str, script: &[Op]) -> Image {
    let dir = cx.scratch();
    let path = dir.join("store.enc");
    std::fs::write(&path, &cx.template).unwrap();
    let img = rt().block_on(async {
        let m = mgr(&path);
        let mut cur = pw_text(0);
        let mut prev = None;
        let mut g = 1;
        let mut map = BTreeMap::new();
        for op in script {
            match *op {
                Op::Store(id, s, _) => {
                    m.store_master_seed(IDS[id], &seed(s), &ss(&cur)).await.expect("image store");
                    map.insert(id, s);
                }
                Op::Change(_) => {
                    let n = pw_text(g);
                    g += 1;
                    m.change_password(&ss(&cur), &ss(&n)).await.expect("image change");
                    prev = Some(cur.clone());
                    cur = n;
                }
                _ => {}
            }
        }
        Image { name, bytes: std::fs::read(&path).unwrap(), cur, prev, map }
    });
    let _ = std::fs::remove_dir_all(&dir);
    img
}

#[derive(Clone, Debug)]
enum Damage {
    Flip(usize, u8),
    Set(usize, u8),
    Truncate(usize),
    Append(u8),
}
fn apply_damage(b: &[u8], d: &Damage) -> Option<Vec<u8>> {
    let mut v = b.to_vec();
    match *d {
        Damage::Flip(i, bit) => v[i] ^= 1 << bit,
        Damage::Set(i, x) => {
            if v[i] == x {
                return None;
            }
            v[i] = x
        }
        Damage::Truncate(n) => v.truncate(n),
        Damage::Append(x) => v.push(x),
    }
    Some(v)
}
fn damage_json(d: &Damage) -> Value {
    match d {
        Damage::Flip(i, b) => json!({"flip_bit": b, "offset": i}),
        Damage::Set(i, x) => json!({"set_byte": format!("{x:#04x}"), "offset": i}),
        Damage::Truncate(n) => json!({"truncate_to": n}),
        Damage::Append(x) => json!({"append_byte": format!("{x:#04x}")}),
    }
}
fn damage_kind(d: &Damage) -> &'static str {
    match d {
        Damage::Flip(..) => "bit-flip",
        Damage::Set(..) => "byte-set",
        Damage::Truncate(..) => "truncation",
        Damage::Append(..) => "trailing-byte",
    }
}

fn corruption_case(cx: &Cx, img: &Image, d: &Damage, ids: &[usize], also_wrong: bool) -> u64 {
    let Some(bytes) = apply_damage(&img.bytes, d) else { return 0 };
    let dir = cx.scratch();
    let path = dir.join("store.enc");
    std::fs::write(&path, &bytes).unwrap();
    let mut evals = 0;
    rt().block_on(async {
        let m = mgr(&path);
        let wit = |extra: Value| json!({"image": img.name, "file_len": img.bytes.len(), "original_file_hex": hex::encode(&img.bytes), "damage": damage_json(d), "then": "fresh manager, retrieve_master_seed", "last": extra});
        if also_wrong {
            for p in [Some(NEVER.to_string()), img.prev.clone()].into_iter().flatten() {
                let res = retrieve(&m, ids[0], &p).await;
                cx.distinct.eval();
                evals += 1;
                if let Ok(Ok(b)) = &res {
                    cx.run.violation_lazy("C18.wrong", feats(&[("entry", "retrieve_master_seed".into()), ("password", "not-current".into()), ("cache", "cold-damaged-file".into())]), || (wit(json!({"got": hex::encode(b)})), format!("a damaged file ({}) opened with a wrong password", damage_kind(d))));
                }
            }
        }
        for &id in ids {
            let res = retrieve(&m, id, &img.cur).await;
            cx.distinct.eval();
            evals += 1;
            let orig = seed_bytes(img.map[&id]).to_vec();
            match &res {
                Err(_) => cx.run.violation_lazy("C18.nopanic", feats(&[("entry", "retrieve_master_seed".into()), ("damage", damage_kind(d).into())]), || (wit(json!({})), format!("retrieve panicked on a damaged file ({})", damage_kind(d)))),
                Ok(Ok(b)) if *b == orig => {
                    cx.tally(format!("corruption/{}: Ok(original)", damage_kind(d)));
                    cx.distinct.outcome(&("tamper", damage_kind(d), "ok-original"))
                }
                Ok(Ok(b)) => cx.run.violation_lazy("C18.tamper", feats(&[("entry", "retrieve_master_seed".into()), ("damage", damage_kind(d).into()), ("shape", "different-key-material".into())]), || {
                    (wit(json!({"id": IDS[id], "got": hex::encode(b), "original": hex::encode(&orig)})), format!("after {} the store returned different key material", damage_kind(d)))
                }),
                Ok(Err(e)) => {
                    cx.tally(format!("corruption/{}: Err {}", damage_kind(d), err_class(e)));
                    cx.distinct.outcome(&("tamper", damage_kind(d), err_class(e)))
                }
            }
        }
    });
    let _ = std::fs::remove_dir_all(&dir);
    evals
}

// ---------------------------------------------------------------------------------------------
// (C) crash images

#[derive(Clone)]
struct Content {
    pw: String,
    map: BTreeMap<usize, usize>,
}
#[derive(Clone, Copy, Debug)]
enum WriteOp {
    StoreNew,       // store(s2, S1) next to s1
    StoreOverwrite, // store(s1, S1) over S0
    ChangePw,
}
impl WriteOp {
    fn name(&self) -> &'static str {
        match self {
            WriteOp::StoreNew => "store_master_seed(new id)",
            WriteOp::StoreOverwrite => "store_master_seed(overwrite)",
            WriteOp::ChangePw => "change_password",
        }
    }
}
async fn do_write(m: &EncryptedKeyStorageManager, w: WriteOp, old: &Content) -> (Result<(), String>, Content) {
    let mut new = old.clone();
    let r = match w {
        WriteOp::StoreNew => {
            new.map.insert(1, 1);
            m.store_master_seed(IDS[1], &seed(1), &ss(&old.pw)).await
        }
        WriteOp::StoreOverwrite => {
            new.map.insert(0, 1);
            m.store_master_seed(IDS[0], &seed(1), &ss(&old.pw)).await
        }
        WriteOp::ChangePw => {
            new.pw = pw_text(7);
            m.change_password(&ss(&old.pw), &ss(&new.pw)).await
        }
    };
    (r.map_err(|e| e.to_string()), new)
}

/// which of the two contents does the store at `path` hold? (fresh manager per question so that no cache helps)
async fn classify(path: &Path, old: &Content, new: &Content) -> (Option<&'static str>, Value) {
    let mut detail = Vec::new();
    let mut verdict = None;
    for (label, c) in [("old", old), ("new", new)] {
        let m = mgr(path);
        let mut all = true;
        for id in 0..2 {
            let got = retrieve(&m, id, &c.pw).await;
            let want = c.map.get(&id).map(|s| seed_bytes(*s).to_vec());
            let ok = match (&got, &want) {
                (Ok(Ok(b)), Some(w)) => b == w,
                (Ok(Err(_)), None) => {
                    // absent id: the password itself must still open the file — checked through the ids that exist
                    true
                }
                _ => false,
            };
            detail.push(json!({"as": label, "id": IDS[id], "got": match &got { Ok(Ok(b)) => json!(hex_short(b)), Ok(Err(e)) => json!(err_class(e)), Err(_) => json!("panic") }, "matches": ok}));
            all &= ok;
        }
        if all && verdict.is_none() {
            verdict = Some(label);
        }
    }
    (verdict, json!(detail))
}

/// image = (main file bytes or None, tmp bytes or None); reopen, classify, then keep using it.
fn crash_image_case(cx: &Cx, w: WriteOp, kind: &str, k: Option<usize>, main: Option<&[u8]>, tmp: Option<&[u8]>, old: &Content, new: &Content) {
    let dir = cx.scratch();
    let path = dir.join("store.enc");
    if let Some(b) = main {
        std::fs::write(&path, b).unwrap();
    }
    if let Some(b) = tmp {
        std::fs::write(path.with_extension("tmp"), b).unwrap();
    }
    rt().block_on(async {
        let (verdict, detail) = classify(&path, old, new).await;
        cx.distinct.eval();
        cx.distinct.outcome(&("crash", w.name(), kind, verdict));
        cx.tally(format!("crash/{}/{}: reopened as {:?}", w.name(), &kind[..1], verdict));
        let wit = |extra: Value| json!({"write": w.name(), "image": kind, "tmp_prefix_len": k, "old_content": {"ids": old.map.keys().map(|i| IDS[*i]).collect::<Vec<_>>()}, "reopen": detail, "last": extra,
            "how": "old file = store with s1=S0 under password g0; image built from the byte contents before/after the real write"});
        match verdict {
            None => cx.run.violation_lazy("C18.crash", feats(&[("write", w.name().into()), ("image", kind.into()), ("shape", "neither-old-nor-new".into())]), || (wit(json!({})), format!("after a crash image '{kind}' of {} the store is neither the old nor the new content", w.name()))),
            Some(v) => {
                // continue: the recovered store must stay usable (a stale .tmp must not get in the way)
                let c = if v == "old" { old } else { new };
                let m = mgr(&path);
                let r1 = guarded(async { m.store_master_seed(IDS[1], &seed(0), &ss(&c.pw)).await.map_err(|e| e.to_string()) }).await;
                let m2 = mgr(&path);
                let r2 = retrieve(&m2, 1, &c.pw).await;
                cx.distinct.eval();
                let fine = matches!(&r1, Ok(Ok(()))) && matches!(&r2, Ok(Ok(b)) if *b == seed_bytes(0).to_vec());
                if !fine {
                    cx.run.violation_lazy("C18.crash", feats(&[("write", w.name().into()), ("image", kind.into()), ("shape", "recovered-store-unusable".into())]), || (wit(json!({"store_after_recovery": format!("{r1:?}"), "retrieve": format!("{:?}", r2.as_ref().map(|x| x.as_ref().map(|b| hex_short(b))))})), format!("after recovering from '{kind}' a further store/retrieve fails")));
                }
            }
        }
    });
    let _ = std::fs::remove_dir_all(&dir);
}

/// Torn write produced by the kernel: RLIMIT_FSIZE = n makes the subject's own write of the new file fail after n bytes.
/// Must run while no other thread writes files. Returns the number of cases run.
fn torn_write_cases(cx: &Cx, w: WriteOp, old_bytes: &[u8], old: &Content, offsets: &[usize]) -> u64 {
    let mut n_cases = 0;
    unsafe {
        libc::signal(libc::SIGXFSZ, libc::SIG_IGN);
    }
    let mut lim0 = libc::rlimit { rlim_cur: 0, rlim_max: 0 };
    unsafe {
        libc::getrlimit(libc::RLIMIT_FSIZE, &mut lim0);
    }
    for &n in offsets {
        let dir = cx.scratch();
        let path = dir.join("store.enc");
        std::fs::write(&path, old_bytes).unwrap();
        let (res, new) = rt().block_on(async {
            let m = mgr(&path);
            let lim = libc::rlimit { rlim_cur: n as libc::rlim_t, rlim_max: lim0.rlim_max };
            unsafe {
                libc::setrlimit(libc::RLIMIT_FSIZE, &lim);
            }
            let r = guarded(do_write(&m, w, old)).await;
            unsafe {
                libc::setrlimit(libc::RLIMIT_FSIZE, &lim0);
            }
            let (res, new) = match r {
                Ok((res, new)) => (Ok(res), new),
                Err(p) => (Err(p), old.clone()),
            };
            // the manager that saw the write fail keeps serving: what it returns for the current password (old or new)
            // must be what a fresh manager reads from the file ("in the same process or after reopening the file")
            let mut pws = vec![old.pw.clone()];
            if new.pw != old.pw {
                pws.push(new.pw.clone());
            }
            for pw in &pws {
                for id in 0..2 {
                    let same = retrieve(&m, id, pw).await;
                    let reopened = retrieve(&mgr(&path), id, pw).await;
                    cx.distinct.eval();
                    let agree = match (&same, &reopened) {
                        (Ok(Ok(a)), Ok(Ok(b))) => a == b,
                        (Ok(Err(_)), Ok(Err(_))) => true,
                        _ => false,
                    };
                    if !agree {
                        let show = |r: &Result<Result<Vec<u8>, String>, String>| match r { Ok(Ok(b)) => json!(hex_short(b)), Ok(Err(e)) => json!(err_class(e)), Err(_) => json!("panic") };
                        let (a, b) = (show(&same), show(&reopened));
                        cx.run.violation_lazy("C18.same", feats(&[("write", w.name().into()), ("shape", "same-process-answer-differs-from-the-file-after-a-failed-write".into())]), || {
                            (json!({"write": w.name(), "write_fails_after_bytes": n, "operation_returned": format!("{res:?}"), "id": IDS[id], "password": if *pw == old.pw { "the one before the write" } else { "the new one" }, "same_process": a, "after_reopen": b}),
                             format!("{} failed after {n} bytes; the same manager then answers {} for {} where the file holds {}", w.name(), a, IDS[id], b))
                        });
                    }
                }
            }
            (res, new)
        });
        n_cases += 1;
        rt().block_on(async {
            let (verdict, detail) = classify(&path, old, &new).await;
            cx.distinct.eval();
            cx.distinct.outcome(&("torn", w.name(), res.as_ref().map(|r| r.is_ok()).ok(), verdict));
            cx.tally(format!("torn-write/{}: returned {} ; reopened as {:?}", w.name(), match &res { Ok(Ok(())) => "Ok".to_string(), Ok(Err(e)) => format!("Err {}", err_class(e)), Err(_) => "panic".into() }, verdict));
            let wit = |extra: Value| json!({"write": w.name(), "image": "write-of-the-new-file-fails-after-n-bytes (RLIMIT_FSIZE)", "n": n, "operation_returned": format!("{res:?}"), "reopen": detail, "last": extra});
            match (&res, verdict) {
                (Err(_), _) => cx.run.violation_lazy("C18.nopanic", feats(&[("entry", w.name().into()), ("shape", "write-error".into())]), || (wit(json!({})), format!("{} panicked on a write error", w.name()))),
                (_, None) => cx.run.violation_lazy("C18.crash", feats(&[("write", w.name().into()), ("image", "torn-write".into()), ("shape", "neither-old-nor-new".into())]), || (wit(json!({})), format!("{} interrupted after {n} bytes leaves neither the old nor the new content", w.name()))),
                (Ok(Err(_)), Some("new")) | (Ok(Ok(())), Some("old")) => cx.run.violation_lazy("C18.crash", feats(&[("write", w.name().into()), ("image", "torn-write".into()), ("shape", "result-disagrees-with-file".into())]), || (wit(json!({})), format!("{} interrupted after {n} bytes: return value and file content disagree", w.name()))),
                _ => {}
            }
        });
        let _ = std::fs::remove_dir_all(&dir);
    }
    n_cases
}

// ---------------------------------------------------------------------------------------------

fn main() {
    let run = Run::new("C18", "model_checking");
    quiet_panics();
    let distinct = Distinct::default();
    let quick = run.tier == Tier::Quick;
    let budget = Budget::new(Duration::from_secs(run.tier.pick(50, 1700)));
    let root = PathBuf::from(format!("/dev/shm/vh-c18-{}", std::process::id()));
    let _ = std::fs::remove_dir_all(&root);
    std::fs::create_dir_all(&root).expect("scratch root");

    // template: initialise once with the real code, measure one derivation
    let t0 = Instant::now();
    let template = {
        let p = root.join("template.enc");
        rt().block_on(async { mgr(&p).initialize(&ss(&pw_text(0))).await.expect("initialize") });
        std::fs::read(&p).expect("template")
    };
    let init_ms = t0.elapsed().as_secs_f64() * 1e3;
    let cx = Cx { run: &run, distinct: &distinct, root: root.clone(), template, hist: Default::default() };

    // development aid: VH_C18_PARTS=A,B,C selects families (default all; a partial run is reported as a cap).
    // Order: the cheap families (crash images, corruption) first, the Argon2-heavy history search last, so that a
    // wall-clock cap on a loaded machine cuts depth, not families.
    let parts = std::env::var("VH_C18_PARTS").unwrap_or_else(|_| "A,B,C".into());
    let part_on = |p: &str| parts.split(',').any(|x| x == p);
    if parts != "A,B,C" {
        run.cap_hit(format!("only families {parts} were run (VH_C18_PARTS)"));
    }
    // ---- (C) crash images ----------------------------------------------------------------------
    let t_c = Instant::now();
    let old_img = build_image(&cx, "init; store(s1,S0)", &[Op::Store(0, 0, Pw::Cur)]);
    let old = Content { pw: old_img.cur.clone(), map: old_img.map.clone() };
    let writes: Vec<WriteOp> = if part_on("C") { vec![WriteOp::StoreNew, WriteOp::StoreOverwrite, WriteOp::ChangePw] } else { vec![] };
    struct CrashJob {
        w: WriteOp,
        kind: &'static str,
        k: Option<usize>,
        main: Option<Vec<u8>>,
        tmp: Option<Vec<u8>>,
        new: Content,
    }
    let mut cjobs: Vec<CrashJob> = Vec::new();
    for &w in &writes {
        // run the real write once to obtain the new file content
        let dir = cx.scratch();
        let path = dir.join("store.enc");
        std::fs::write(&path, &old_img.bytes).unwrap();
        let (res, new) = rt().block_on(async { do_write(&mgr(&path), w, &old).await });
        if res.is_err() {
            run.machinery_error(format!("crash family: {} failed on the clean store: {res:?}", w.name()));
            continue;
        }
        let new_bytes = std::fs::read(&path).unwrap();
        if path.with_extension("tmp").exists() {
            run.info("a .tmp file is left behind after a completed write");
        }
        let _ = std::fs::remove_dir_all(&dir);
        cjobs.push(CrashJob { w, kind: "A: old file + complete .tmp (crash before rename)", k: None, main: Some(old_img.bytes.clone()), tmp: Some(new_bytes.clone()), new: new.clone() });
        cjobs.push(CrashJob { w, kind: "B: only the new file (crash after rename)", k: None, main: Some(new_bytes.clone()), tmp: None, new: new.clone() });
        let stride = if quick && !matches!(w, WriteOp::StoreNew) { 7 } else { 1 };
        for k in (0..new_bytes.len()).step_by(stride) {
            cjobs.push(CrashJob { w, kind: "P: old file + byte-prefix of the new content in .tmp", k: Some(k), main: Some(old_img.bytes.clone()), tmp: Some(new_bytes[..k].to_vec()), new: new.clone() });
        }
    }
    let crash_done = AtomicU64::new(0);
    par_for(cjobs.len(), |i| {
        if budget.exceeded() {
            return;
        }
        let j = &cjobs[i];
        crash_image_case(&cx, j.w, j.kind, j.k, j.main.as_deref(), j.tmp.as_deref(), &old, &j.new);
        crash_done.fetch_add(1, Ordering::Relaxed);
    });
    // torn writes (serial: RLIMIT_FSIZE is process-wide; no worker thread is alive here)
    let len_guess = old_img.bytes.len() + 120;
    let mut torn = 0;
    for &w in &writes {
        if budget.exceeded() {
            break;
        }
        if quick && !matches!(w, WriteOp::StoreNew) {
            continue;
        }
        let offsets: Vec<usize> = if quick { (0..len_guess).step_by(16).chain([1, 2, old_img.bytes.len() - 1, old_img.bytes.len()]).collect() } else { (0..len_guess).collect() };
        torn += torn_write_cases(&cx, w, &old_img.bytes, &old, &offsets);
    }
    let wall_c = t_c.elapsed().as_secs_f64();
    // ---- (B) corruption ------------------------------------------------------------------------
    let t_b = Instant::now();
    let mut images = vec![build_image(&cx, "init; store(s1,S0); store(s2,S1)", &[Op::Store(0, 0, Pw::Cur), Op::Store(1, 1, Pw::Cur)])];
    if !quick {
        images.push(build_image(&cx, "init; store(s1,S0); change_password; store(s2,S1)", &[Op::Store(0, 0, Pw::Cur), Op::Change(Pw::Cur), Op::Store(1, 1, Pw::Cur)]));
        images.push(build_image(&cx, "init; store(s1,S1)", &[Op::Store(0, 1, Pw::Cur)]));
    }
    let mut cases: Vec<(usize, Damage)> = Vec::new();
    if !part_on("B") {
        images.clear();
    }
    for (ii, img) in images.iter().enumerate() {
        for i in 0..img.bytes.len() {
            for b in 0..8 {
                cases.push((ii, Damage::Flip(i, b)));
            }
            cases.push((ii, Damage::Set(i, 0x00)));
            cases.push((ii, Damage::Set(i, 0xFF)));
        }
        for n in 0..img.bytes.len() {
            cases.push((ii, Damage::Truncate(n)));
        }
        cases.push((ii, Damage::Append(0x00)));
        cases.push((ii, Damage::Append(0xFF)));
    }
    let corr_evals = AtomicU64::new(0);
    let corr_done = AtomicU64::new(0);
    par_for(cases.len(), |i| {
        if budget.exceeded() {
            return;
        }
        let (ii, d) = &cases[i];
        let img = &images[*ii];
        let ids: Vec<usize> = if quick { vec![0] } else { img.map.keys().copied().collect() };
        let n = corruption_case(&cx, img, d, &ids, !quick);
        corr_evals.fetch_add(n, Ordering::Relaxed);
        corr_done.fetch_add(1, Ordering::Relaxed);
    });
    let wall_b = t_b.elapsed().as_secs_f64();

    // ---- (A) histories -------------------------------------------------------------------------
    let mut ops: Vec<Op> = Vec::new();
    for p in [Pw::Cur, Pw::Prev, Pw::Never] {
        for id in 0..2 {
            ops.push(Op::Retrieve(id, p));
        }
    }
    for p in [Pw::Cur, Pw::Prev, Pw::Never] {
        for id in 0..2 {
            for s in 0..2 {
                ops.push(Op::Store(id, s, p));
            }
        }
    }
    for p in [Pw::Cur, Pw::Prev, Pw::Never] {
        ops.push(Op::Change(p));
    }
    ops.push(Op::ClearCache);
    ops.push(Op::Reopen);
    if !quick {
        ops.push(Op::ChangeBack);
        ops.push(Op::ChangeWeak);
    }
    let t_a = Instant::now();
    let mismatch = AtomicU64::new(0);
    // merged search to fix-point
    let st_m = bfs(
        ops.len(),
        if part_on("A") { 12 } else { 0 },
        &budget,
        |h| hist_step(&cx, &ops, h, true),
        |_a, _b| {
            mismatch.fetch_add(1, Ordering::Relaxed);
        },
    );
    let wall_merged = t_a.elapsed().as_secs_f64();
    // every history up to depth d without merging
    let d_plain = if part_on("A") { run.tier.pick(2, 4) } else { 0 };
    let t_p = Instant::now();
    let st_p = bfs(ops.len(), d_plain, &budget, |h| hist_step(&cx, &ops, h, false), |_a, _b| {});
    let wall_plain = t_p.elapsed().as_secs_f64();

    let _ = std::fs::remove_dir_all(&root);

    // ---- wrap up ---------------------------------------------------------------------------------
    let mm = mismatch.into_inner();
    if mm > 0 {
        if run.violation_count() == 0 {
            run.machinery_error(format!("{mm} canonicalisation mismatches without any clause violation"));
        } else {
            run.info_n("merge-mismatches (equal reference state, different answers; explained by the reported violations)", mm);
        }
    }
    if budget.was_hit() {
        run.cap_hit(format!("wall-clock budget; merged BFS depth {} (fixpoint {}), unmerged depth {} of {}, corruptions {} of {}, crash images {} of {}", st_m.completed_depth, st_m.fixpoint, st_p.completed_depth, d_plain, corr_done.load(Ordering::Relaxed), cases.len(), crash_done.load(Ordering::Relaxed), cjobs.len()));
        if st_m.completed_depth == 0 && part_on("A") {
            run.machinery_error("not even depth 1 of the history search completed");
        }
    }
    let corr_done = corr_done.into_inner();
    let crash_done = crash_done.into_inner();
    eprintln!("C18 timing: initialize {init_ms:.1} ms; merged BFS {wall_merged:.1}s ({} transitions), unmerged depth {d_plain} {wall_plain:.1}s ({} transitions), corruption {wall_b:.1}s ({corr_done} cases), crash {wall_c:.1}s ({crash_done} images + {torn} torn writes)", st_m.transitions, st_p.transitions);
    let mut samples: Vec<Value> = st_m.sample_histories.iter().take(3).map(|h| json!(h.iter().map(|&i| op_json(&ops[i])).collect::<Vec<_>>())).collect();
    samples.extend(st_p.sample_histories.iter().rev().take(2).map(|h| json!(h.iter().map(|&i| op_json(&ops[i])).collect::<Vec<_>>())));
    let coverage = cov(vec![
        ("states", json!(st_m.states + st_p.states + corr_done + crash_done + torn)),
        ("transitions", json!(st_m.transitions + st_p.transitions + corr_done + crash_done + torn)),
        ("traces_validated_against_impl", json!(st_m.transitions + st_p.transitions + corr_done + crash_done + torn)),
        ("samples", json!(samples)),
        ("exhaustive", json!(!budget.was_hit())),
        ("evaluations", json!(distinct.evaluations())),
        ("distinct_nontrivial", json!(distinct.distinct())),
        ("outcome_histogram", json!(*cx.hist.lock().unwrap())),
        ("rule", json!("evaluation = one judged store/retrieve/change result, one reopened damaged file, or one reopened crash image; distinct = distinct (operation, password kind, presence, cache warmth, result class) / (damage kind, result class) / (write, image kind, verdict) tuples")),
        ("bounds", json!({
            "alphabet_ops": ops.len(), "ids": IDS, "seeds": 2, "passwords": ["current", "previous", "never-valid"], "security_level": "Fast (Argon2id 4 MiB, 1 pass)",
            "merged_bfs": {"states": st_m.states, "transitions": st_m.transitions, "fixpoint": st_m.fixpoint, "completed_depth": st_m.completed_depth, "revisits_compared": st_m.revisits, "frontier_sizes": st_m.frontier_sizes},
            "unmerged": {"depth": d_plain, "completed_depth": st_p.completed_depth, "histories": st_p.transitions},
            "corruption": {"images": images.iter().map(|i| json!({"name": i.name, "file_len": i.bytes.len()})).collect::<Vec<_>>(), "cases": cases.len(), "done": corr_done, "retrieves": corr_evals.into_inner()},
            "crash": {"writes": writes.iter().map(|w| w.name()).collect::<Vec<_>>(), "images": cjobs.len(), "done": crash_done, "torn_writes_via_rlimit": torn},
            "wall_s": {"initialize_ms": init_ms, "merged_bfs": wall_merged, "unmerged": wall_plain, "corruption": wall_b, "crash": wall_c},
        })),
    ]);
    run.finish(
        coverage,
        vec![
            "every step is an execution of the real EncryptedKeyStorageManager on a scratch file; reference = (current password, id -> seed)".into(),
            "each history starts from a byte copy of one store file produced by the real initialize() (saves one Argon2 derivation per history)".into(),
            "merged search: states with equal (id->seed map, ids served by the live manager since the last reopen/clear/change, a previous password exists) are explored once; the unmerged enumeration to the stated depth does not rely on this".into(),
            "store/change_password accepting a non-current password counts as C18.wrong (the store was opened with it)".into(),
            "tamper: Ok(original seed) is accepted (unauthenticated header fields such as timestamps may change); only different key material or a panic is a violation".into(),
            "crash images are built from the byte contents before/after the real write (no crash hooks in the crate): before-rename, after-rename, every prefix of the new content in .tmp; torn writes are injected with RLIMIT_FSIZE on the subject's own write".into(),
            "SecurityLevel::Fast only; password strength rules are not part of the property (all passwords used are valid, one deliberately weak new password in the thorough tier)".into(),
        ],
    );
}
