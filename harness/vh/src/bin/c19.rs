//! C19 — addresses survive every textual round trip the library itself performs.
//!
//! Bounded-exhaustive enumeration (no network simulation in this binary): boundary grid of IPv4 octets x ports,
//! all-ports sweeps, /16 sweeps, IPv6 classes; for every address the word round trip, the separator/case variants,
//! Display -> FromStr, serde JSON / postcard cycles, the identity::FourWordAddress / fwid views of the same words;
//! every 1-site mutation of the valid renderings; and the cross-component table restricted to consumers that are
//! callable directly (NetworkAddress::from_str, Config::bootstrap_addrs, DhtCoreEngine::add_node's admission gate —
//! observed differentially: the Ok/Err sequence of admissions from one /24, one IP, one /64 for a library-rendered
//! string must equal the sequence for the plain `ip:port` string).
//!
//! NOT covered here (private functions of DhtNetworkManager / need the netsim engine): multiaddr_from_address,
//! dial_candidate, get_peer_id_by_address, register_new_peer -> handle_peer_connected.
use saorsa_core::NetworkAddress;
use saorsa_core::bootstrap::ContactEntry;
use saorsa_core::dht::core_engine::{DhtCoreEngine, NodeCapacity, NodeId, NodeInfo};
use saorsa_core::dht::routing_maintenance::close_group_validator::{CloseGroupValidator, CloseGroupValidatorConfig};
use saorsa_core::identity::{FourWordAddress, WordEncoder};
use serde_json::{Value, json};
use std::collections::HashSet;
use std::net::{IpAddr, Ipv4Addr, Ipv6Addr, SocketAddr, SocketAddrV6};
use std::sync::atomic::{AtomicU64, Ordering};
use std::time::{Duration, SystemTime};
use vh::core::*;

const OCTETS: [u8; 15] = [0, 1, 9, 10, 99, 100, 126, 127, 128, 191, 192, 223, 224, 254, 255];
const PORTS: [u16; 15] = [0, 1, 79, 80, 255, 256, 1023, 1024, 9000, 32767, 32768, 49151, 49152, 65534, 65535];

#[derive(Clone, Copy, PartialEq, Eq, PartialOrd, Ord)]
enum Level {
    /// library words -> from_four_words, Display -> FromStr
    Core,
    /// + word variants, serde cycles, SocketAddr/multiaddr renderings, FourWordAddress / fwid / ContactEntry
    Full,
}

fn same(a: &SocketAddr, b: &SocketAddr) -> bool {
    // weakest reading: "the same IP and port" (IPv6 flow label / zone are not part of the claim)
    a.ip() == b.ip() && a.port() == b.port()
}
thread_local! {
    /// address-class label of the address under test ("v4", "v6:<class>") and word count of its library rendering
    static LABEL: std::cell::RefCell<(String, usize)> = std::cell::RefCell::new((String::new(), 0));
}
fn set_label(label: &str, words: usize) {
    LABEL.with(|l| *l.borrow_mut() = (label.to_string(), words));
}
fn fam(a: &SocketAddr) -> String {
    let l = LABEL.with(|l| l.borrow().0.clone());
    if !l.is_empty() {
        return l;
    }
    match a {
        SocketAddr::V4(_) => "v4".into(),
        SocketAddr::V6(_) => "v6".into(),
    }
}
fn word_count() -> usize {
    LABEL.with(|l| l.borrow().1)
}
fn port_class(a: &SocketAddr) -> String {
    if a.port() == 65535 { "65535".into() } else { "other".into() }
}

#[derive(Default)]
struct Local {
    evals: u64,
    outcomes: HashSet<u64>,
}
impl Local {
    fn flush(&mut self, d: &Distinct) {
        d.evals_add(self.evals);
        for o in self.outcomes.drain() {
            d.outcome(&o);
        }
        self.evals = 0;
    }
}

struct Ctx<'a> {
    run: &'a Run,
    no_words: &'a AtomicU64,
    variant_rejected: &'a AtomicU64,
}

/// Judge `parsed` (result of a decode/parse of `text`, produced by `producer` from `a`) against `a`.
#[allow(clippy::too_many_arguments)]
fn expect_same(cx: &Ctx, lo: &mut Local, clause: &str, entry: &str, a: &SocketAddr, text: &str, producer: &str, r: Result<Result<SocketAddr, String>, String>, extra: &[(&str, String)]) {
    lo.evals += 1;
    let shape = match &r {
        Err(_) => "panic",
        Ok(Err(_)) => "rejected",
        Ok(Ok(b)) if !same(a, b) => "different-address",
        Ok(Ok(_)) => {
            lo.outcomes.insert(hash64(&(clause, entry, fam(a), "ok")));
            return;
        }
    };
    lo.outcomes.insert(hash64(&(clause, entry, fam(a), shape, port_class(a))));
    let clause = if shape == "panic" { "C19.nopanic" } else { clause };
    // signature: consumer, failure shape, and the witness-derived cause class: port 65535 (the word crate's "no port" marker)
    // dominates; otherwise the address class ("v4", "v6:<class>"). Display failures are total, so they carry no cause.
    let mut f = vec![("entry", entry.to_string()), ("shape", shape.to_string())];
    if clause == "C19.words" {
        f.push(("cause", if a.port() == 65535 { format!("port-65535:{}", if a.is_ipv4() { "v4" } else { "v6" }) } else { fam(a) }));
    } else if clause != "C19.display" {
        f.push(("family", if a.is_ipv4() { "v4".into() } else { "v6".into() }));
    }
    for (k, v) in extra {
        if *k != "variant" {
            f.push((k, v.clone()));
        }
    }
    cx.run.violation_lazy(clause, feats(&f), || {
        (
            json!({"address": a.to_string(), "text_handed_over": text, "produced_by": producer, "consumer": entry, "result": format!("{r:?}"), "library_word_count": word_count()}),
            format!("{entry} on {producer} of {a} = {text:?} -> {}", match &r { Ok(Ok(b)) => format!("Ok({b})"), Ok(Err(e)) => format!("Err({e})"), Err(p) => format!("panic: {p}") }),
        )
    });
}

fn parse_na(s: &str) -> Result<Result<SocketAddr, String>, String> {
    catch(|| s.parse::<NetworkAddress>().map(|n| n.socket_addr()).map_err(|e| e.to_string()))
}
fn from_words(s: &str) -> Result<Result<SocketAddr, String>, String> {
    catch(|| NetworkAddress::from_four_words(s).map(|n| n.socket_addr()).map_err(|e| e.to_string()))
}

fn title(w: &str) -> String {
    let mut c = w.chars();
    match c.next() {
        Some(f) => f.to_uppercase().collect::<String>() + c.as_str(),
        None => String::new(),
    }
}

/// multiaddr text exactly as DhtNetworkManager::socket_addr_to_multiaddr renders it (private fn; format copied)
fn multiaddr_text(a: &SocketAddr) -> String {
    format!("/{}/{}/tcp/{}", if a.ip().is_ipv4() { "ip4" } else { "ip6" }, a.ip(), a.port())
}

fn battery(cx: &Ctx, lo: &mut Local, a: SocketAddr, label: &str, level: Level) {
    set_label(label, 0);
    let na = match catch(|| NetworkAddress::new(a)) {
        Ok(n) => n,
        Err(p) => {
            cx.run.violation_lazy("C19.nopanic", feats(&[("entry", "NetworkAddress::new".into()), ("family", fam(&a))]), || (json!({"address": a.to_string(), "panic": p}), format!("NetworkAddress::new({a}) panicked: {p}")));
            return;
        }
    };
    let has_words = if na.four_words().is_some() { "with-words" } else { "no-words" };
    set_label(label, na.four_words().map(|w| w.split('-').count()).unwrap_or(0));
    // Display -> FromStr
    let shown = na.to_string();
    expect_same(cx, lo, "C19.display", "NetworkAddress::from_str", &a, &shown, "NetworkAddress::to_string", parse_na(&shown), &[("rendering", has_words.into())]);
    let Some(words) = na.four_words().map(|s| s.to_string()) else {
        cx.no_words.fetch_add(1, Ordering::Relaxed);
        return;
    };
    // canonical (hyphen) form the library produced
    expect_same(cx, lo, "C19.words", "NetworkAddress::from_four_words", &a, &words, "NetworkAddress::four_words", from_words(&words), &[]);
    if level < Level::Full {
        return;
    }
    expect_same(cx, lo, "C19.words", "NetworkAddress::from_str", &a, &words, "NetworkAddress::four_words", parse_na(&words), &[]);
    // separator / case variants. Weakest reading: the space form is produced by the re-exported encoder
    // (saorsa_core::fourwords) and must decode; upper / title / mixed forms are never produced by the library: they may be
    // rejected (counted), but must not decode to a different address or panic.
    let parts: Vec<&str> = words.split('-').collect();
    let space = parts.join(" ");
    let mixed: String = parts.iter().enumerate().map(|(i, p)| if i == 0 { p.to_string() } else if i % 2 == 1 { format!("-{p}") } else { format!(" {p}") }).collect();
    let upper = words.to_uppercase();
    let titled = parts.iter().map(|p| title(p)).collect::<Vec<_>>().join("-");
    expect_same(cx, lo, "C19.words", "NetworkAddress::from_four_words", &a, &space, "fourwords encoder (space separated)", from_words(&space), &[("variant", "space".into())]);
    // differential: a variant that is accepted must decode to what the canonical form decodes to (so a defect of the canonical
    // round trip is reported once, under C19.words, not once per variant)
    let canon = from_words(&words);
    expect_same(cx, lo, "C19.words", "NetworkAddress::from_str", &a, &space, "fourwords encoder (space separated)", parse_na(&space), &[("variant", "space".into())]);
    for (name, v) in [("mixed", &mixed), ("upper", &upper), ("title", &titled), ("space-upper", &space.to_uppercase())] {
        let r = from_words(v);
        lo.evals += 1;
        match (&r, &canon) {
            (Ok(Err(_)), c) => {
                if matches!(c, Ok(Ok(_))) {
                    cx.variant_rejected.fetch_add(1, Ordering::Relaxed);
                }
                lo.outcomes.insert(hash64(&("variant-rejected", name)));
            }
            (Ok(Ok(b)), Ok(Ok(c))) if same(b, c) => {
                lo.outcomes.insert(hash64(&("variant-ok", name)));
            }
            _ => {
                let shape = if r.is_err() { "panic" } else { "differs-from-canonical-form" };
                cx.run.violation_lazy(if r.is_err() { "C19.nopanic" } else { "C19.variant" }, feats(&[("entry", "NetworkAddress::from_four_words".into()), ("variant", name.into()), ("shape", shape.into()), ("family", fam(&a))]), || {
                    (json!({"address": a.to_string(), "library_words": words, "variant": v, "variant_result": format!("{r:?}"), "canonical_result": format!("{canon:?}")}), format!("from_four_words({v:?}) = {r:?} but from_four_words({words:?}) = {canon:?}"))
                });
            }
        }
    }
    // other renderings the library produces
    let plain = a.to_string();
    expect_same(cx, lo, "C19.fromstr", "NetworkAddress::from_str", &a, &plain, "SocketAddr::to_string", parse_na(&plain), &[("rendering", "socketaddr".into())]);
    let ma = multiaddr_text(&a);
    expect_same(cx, lo, "C19.fromstr", "NetworkAddress::from_str", &a, &ma, "socket_addr_to_multiaddr format", parse_na(&ma), &[("rendering", "multiaddr".into())]);
    // serde cycles
    let j = catch(|| serde_json::to_string(&na).map_err(|e| e.to_string()).and_then(|s| serde_json::from_str::<NetworkAddress>(&s).map(|n| n.socket_addr()).map_err(|e| e.to_string())));
    expect_same(cx, lo, "C19.serde", "serde_json cycle of NetworkAddress", &a, "(json)", "serde_json::to_string", j, &[("codec", "json".into())]);
    let p = catch(|| postcard::to_stdvec(&na).map_err(|e| e.to_string()).and_then(|b| postcard::from_bytes::<NetworkAddress>(&b).map(|n| n.socket_addr()).map_err(|e| e.to_string())));
    expect_same(cx, lo, "C19.serde", "postcard cycle of NetworkAddress", &a, "(postcard)", "postcard::to_stdvec", p, &[("codec", "postcard".into())]);
    // identity::FourWordAddress / fwid views (IPv4 only: 6 bytes = ip + port)
    if let SocketAddr::V4(v4) = a {
        let mut six = [0u8; 6];
        six[..4].copy_from_slice(&v4.ip().octets());
        six[4..].copy_from_slice(&v4.port().to_be_bytes());
        let back6 = |b: &[u8]| -> Result<SocketAddr, String> {
            if b.len() != 6 {
                return Err(format!("{} bytes", b.len()));
            }
            Ok(SocketAddr::new(IpAddr::V4(Ipv4Addr::new(b[0], b[1], b[2], b[3])), u16::from_be_bytes([b[4], b[5]])))
        };
        match catch(|| FourWordAddress::from_bytes(&six)) {
            Ok(Ok(fwa)) => {
                let s = fwa.as_str().to_string();
                // the identity module's words handed to the address module
                expect_same(cx, lo, "C19.words", "NetworkAddress::from_four_words", &a, &s, "identity::FourWordAddress::from_bytes", from_words(&s), &[]);
                expect_same(cx, lo, "C19.identity", "FourWordAddress::to_hash_prefix", &a, &s, "identity::FourWordAddress::from_bytes", catch(|| fwa.to_hash_prefix().map_err(|e| e.to_string()).and_then(|b| back6(&b))), &[]);
                expect_same(cx, lo, "C19.identity", "WordEncoder::decode", &a, &s, "identity::WordEncoder::encode", catch(|| WordEncoder::encode(&six).and_then(|e| WordEncoder::decode(&e)).map_err(|e| e.to_string()).and_then(|b| back6(&b))), &[]);
                // the address module's words handed to the identity module
                expect_same(cx, lo, "C19.identity", "FourWordAddress::parse_str+to_hash_prefix", &a, &words, "NetworkAddress::four_words", catch(|| FourWordAddress::parse_str(&words).and_then(|f| f.to_hash_prefix()).map_err(|e| e.to_string()).and_then(|b| back6(&b))), &[]);
                lo.evals += 1;
                let w4: Vec<String> = words.split('-').map(|s| s.to_string()).collect();
                if w4.len() == 4 {
                    let arr = [w4[0].clone(), w4[1].clone(), w4[2].clone(), w4[3].clone()];
                    let ok = catch(|| saorsa_core::fwid::fw_check(arr.clone()) && saorsa_core::fwid::fw_to_key(arr.clone()).is_ok());
                    if ok != Ok(true) {
                        cx.run.violation_lazy("C19.identity", feats(&[("entry", "fwid::fw_check".into()), ("shape", "library-words-rejected".into())]), || (json!({"address": a.to_string(), "words": words, "result": format!("{ok:?}")}), format!("fwid::fw_check rejects the library's own words {words} of {a}")));
                    }
                }
            }
            other => {
                lo.evals += 1;
                cx.run.violation_lazy("C19.identity", feats(&[("entry", "FourWordAddress::from_bytes".into()), ("shape", "cannot-encode".into())]), || (json!({"address": a.to_string(), "result": format!("{other:?}")}), format!("FourWordAddress::from_bytes fails for {a}: {other:?}")));
            }
        }
    }
    // bootstrap contact: serde JSON cycle keeps the socket address
    let peer = "c19-peer".to_string();
    let c = catch(|| {
        let e = ContactEntry::new(peer.clone(), vec![a]);
        serde_json::to_string(&e).map_err(|e| e.to_string()).and_then(|s| serde_json::from_str::<ContactEntry>(&s).map_err(|e| e.to_string())).and_then(|e| e.addresses.first().copied().ok_or("no address".to_string()))
    });
    expect_same(cx, lo, "C19.serde", "serde_json cycle of bootstrap::ContactEntry", &a, "(json)", "serde_json::to_string", c, &[("codec", "json-contact".into())]);
}

// ------------------------------------------------------------------------------------------------
// malformed strings: every 1-site mutation of the valid renderings

/// reference: is `s` an acceptable rendering of `a`? (std parser / strict multiaddr shape / word variant / "X (..)" with X = std rendering)
fn acceptable(s: &str, a: &SocketAddr) -> Option<&'static str> {
    // "<rendering> (anything" : the part before " (" decides (the suffix of the Display form is informational)
    if let Some((head, _tail)) = s.split_once(" (") {
        return acceptable_core(head, a).map(|_| "display");
    }
    acceptable_core(s, a)
}
fn acceptable_core(s: &str, a: &SocketAddr) -> Option<&'static str> {
    if let Ok(b) = s.parse::<SocketAddr>() {
        return same(a, &b).then_some("std");
    }
    if s.starts_with("/ip4/") || s.starts_with("/ip6/") {
        // the address spelled by the segments, empty segments and trailing segments ignored (lenient acceptance is counted, not judged)
        let parts: Vec<&str> = s.split('/').filter(|p| !p.is_empty()).collect();
        if parts.len() >= 4 && parts[2] == "tcp" {
            if let (Ok(ip), Ok(port)) = (parts[1].parse::<IpAddr>(), parts[3].parse::<u16>()) {
                if ip == a.ip() && port == a.port() {
                    return Some(if s == multiaddr_text(a) { "multiaddr" } else { "multiaddr-lenient" });
                }
            }
        }
    }
    // word form: a well-formed word string (4, 6, 9 or 12 dictionary words, any separators/case) is not malformed —
    // it is the spelling of whatever address the decoder assigns to it (the mutation hit another dictionary word)
    let toks: Vec<String> = s.split(|c: char| c == '-' || c == '.' || c.is_whitespace()).filter(|p| !p.is_empty()).map(|p| p.to_lowercase()).collect();
    if [4, 6, 9, 12].contains(&toks.len()) && toks.iter().all(|t| saorsa_core::bootstrap::fourwords::dictionary4k::DICTIONARY.get_index(t).is_some()) {
        return Some("words");
    }
    None
}

/// panic message with digit runs collapsed (so one indexing bug = one signature)
fn panic_class(p: &str) -> String {
    let mut out = String::new();
    let mut in_num = false;
    for c in p.chars().take(90) {
        if c.is_ascii_digit() {
            if !in_num {
                out.push('N');
            }
            in_num = true;
        } else {
            in_num = false;
            out.push(c);
        }
    }
    out
}

/// witness-derived shape of a text: "<n>-dictionary-words" when every token is a dictionary word, else "other"
fn word_shape(s: &str) -> String {
    let toks: Vec<String> = s.split(|c: char| c == '-' || c == '.' || c.is_whitespace()).filter(|p| !p.is_empty()).map(|p| p.to_lowercase()).collect();
    if !toks.is_empty() && toks.iter().all(|t| saorsa_core::bootstrap::fourwords::dictionary4k::DICTIONARY.get_index(t).is_some()) {
        format!("{}-dictionary-words", toks.len())
    } else {
        "other".into()
    }
}

fn mutations(base: &str) -> Vec<(String, String)> {
    const M: [&str; 20] = ["0", "9", "a", "z", "A", ":", ".", "-", " ", "(", ")", "/", "%", "[", "]", "\u{0}", "\u{e9}", "x", "5", "\n"];
    let chars: Vec<char> = base.chars().collect();
    let mut out = Vec::new();
    let build = |pre: &[char], mid: &str, post: &[char]| -> String { pre.iter().collect::<String>() + mid + &post.iter().collect::<String>() };
    for i in 0..chars.len() {
        out.push((format!("delete@{i}"), build(&chars[..i], "", &chars[i + 1..])));
        out.push((format!("truncate@{i}"), build(&chars[..i], "", &[])));
        for m in M {
            if m.chars().next() != Some(chars[i]) {
                out.push((format!("replace@{i}"), build(&chars[..i], m, &chars[i + 1..])));
            }
        }
    }
    for i in 0..=chars.len() {
        for m in M {
            out.push((format!("insert@{i}"), build(&chars[..i], m, &chars[i..])));
        }
    }
    out
}

// ------------------------------------------------------------------------------------------------
// admission gate (differential)

fn gate_id(j: usize) -> NodeId {
    // distinct k-buckets: differ from the local id in the top byte by 0x80 >> j
    let mut b = *blake3::hash(b"vh-c19-local").as_bytes();
    b[0] ^= 0x80u8 >> (j % 8);
    b[1] ^= (j / 8) as u8;
    NodeId::from_bytes(b)
}

async fn admit_sequence(addrs: &[String]) -> Vec<bool> {
    let mut e = DhtCoreEngine::new(NodeId::from_bytes(*blake3::hash(b"vh-c19-local").as_bytes())).expect("engine");
    *e.close_group_validator().write().await = CloseGroupValidator::new(CloseGroupValidatorConfig::log_only());
    let mut out = Vec::new();
    for (j, s) in addrs.iter().enumerate() {
        let n = NodeInfo { id: gate_id(j), address: s.clone(), last_seen: SystemTime::UNIX_EPOCH + Duration::from_secs(1_700_000_000), capacity: NodeCapacity::default() };
        out.push(e.add_node(n).await.is_ok());
    }
    out
}

fn main() {
    let run = Run::new("C19", "exploration");
    quiet_panics();
    let distinct = Distinct::default();
    let budget = Budget::new(Duration::from_secs(run.tier.pick(50, 1500)));
    let no_words = AtomicU64::new(0);
    let variant_rejected = AtomicU64::new(0);
    let cx = Ctx { run: &run, no_words: &no_words, variant_rejected: &variant_rejected };
    let thorough = run.tier == Tier::Thorough;
    let mut bounds = serde_json::Map::new();
    let mut levels: Vec<String> = Vec::new();
    let mut samples: Vec<Value> = Vec::new();

    // ---- address families ---------------------------------------------------------------------------------------
    // (a) boundary grid: OCTETS^4 x PORTS; Full battery where the last two octets are in {0,1,255} or thorough
    let full_sub: [u8; 9] = [0, 1, 10, 100, 127, 128, 192, 254, 255];
    let grid_units: Vec<(u8, u8)> = OCTETS.iter().flat_map(|a| OCTETS.iter().map(move |b| (*a, *b))).collect();
    let grid_full = AtomicU64::new(0);
    let grid_core = AtomicU64::new(0);
    par_for(grid_units.len(), |u| {
        if budget.exceeded() {
            return;
        }
        let (o1, o2) = grid_units[u];
        let mut lo = Local::default();
        for &o3 in &OCTETS {
            for &o4 in &OCTETS {
                for &p in &PORTS {
                    let full = thorough || (full_sub.contains(&o1) && full_sub.contains(&o2) && full_sub.contains(&o3) && full_sub.contains(&o4));
                    let a = SocketAddr::new(IpAddr::V4(Ipv4Addr::new(o1, o2, o3, o4)), p);
                    battery(&cx, &mut lo, a, "v4", if full { Level::Full } else { Level::Core });
                    if full { &grid_full } else { &grid_core }.fetch_add(1, Ordering::Relaxed);
                }
            }
        }
        lo.flush(&distinct);
    });
    levels.push(format!("grid @{:.1}s", run.elapsed().as_secs_f64()));
    bounds.insert("boundary_grid".into(), json!({"octets": OCTETS, "ports": PORTS, "addresses": 15u64.pow(5), "full_battery": grid_full.load(Ordering::Relaxed), "core_battery(words+display)": grid_core.load(Ordering::Relaxed),
        "full_battery_rule": if thorough { "all" } else { "all four octets in {0,1,10,100,127,128,192,254,255}" }}));

    // (b) all 65 536 ports for 3 addresses; (c) all (c,d) of two /16s at 2 ports
    let mut port_hosts = vec![Ipv4Addr::new(10, 0, 0, 1), Ipv4Addr::new(203, 0, 113, 77), Ipv4Addr::new(255, 255, 255, 255)];
    if thorough {
        port_hosts.extend([Ipv4Addr::new(0, 0, 0, 0), Ipv4Addr::new(127, 0, 0, 1), Ipv4Addr::new(192, 168, 1, 1), Ipv4Addr::new(8, 8, 8, 8), Ipv4Addr::new(100, 64, 0, 1)]);
    }
    par_for(256 * port_hosts.len(), |u| {
        if budget.exceeded() {
            return;
        }
        let mut lo = Local::default();
        let h = port_hosts[u / 256];
        for lowb in 0..256u32 {
            let p = ((u % 256) as u32 * 256 + lowb) as u16;
            battery(&cx, &mut lo, SocketAddr::new(IpAddr::V4(h), p), "v4", if thorough || lowb % 16 == 15 || lowb == 0 { Level::Full } else { Level::Core });
        }
        lo.flush(&distinct);
    });
    levels.push(format!("all-ports @{:.1}s", run.elapsed().as_secs_f64()));
    let nets: Vec<(u8, u8)> = run.tier.pick(vec![(10, 0), (198, 51)], vec![(10, 0), (198, 51), (0, 0), (255, 255), (192, 168), (127, 0)]);
    let net_ports: Vec<u16> = run.tier.pick(vec![80, 65534], vec![80, 65534, 0, 65535]);
    par_for(256 * nets.len() * net_ports.len(), |u| {
        if budget.exceeded() {
            return;
        }
        let mut lo = Local::default();
        let (n1, n2) = nets[u / 256 % nets.len()];
        let p = net_ports[u / (256 * nets.len())];
        let c = (u % 256) as u8;
        for d in 0..=255u8 {
            battery(&cx, &mut lo, SocketAddr::new(IpAddr::V4(Ipv4Addr::new(n1, n2, c, d)), p), "v4", if thorough { Level::Full } else { Level::Core });
        }
        lo.flush(&distinct);
    });
    levels.push(format!("/16 sweeps @{:.1}s", run.elapsed().as_secs_f64()));
    bounds.insert("sweeps".into(), json!({"all_ports_hosts": port_hosts.iter().map(|h| h.to_string()).collect::<Vec<_>>(), "ports_each": 65536, "slash16": nets.iter().map(|n| format!("{}.{}.c.d", n.0, n.1)).collect::<Vec<_>>(), "slash16_ports": net_ports, "slash16_addresses": nets.len() * net_ports.len() * 65536,
        "full_battery_rule": if thorough { "all" } else { "all-ports: ports with low byte 0x00 or 0x_f; /16: core battery" }}));

    // (d) IPv6 classes x port grid
    let v6: Vec<(&str, Ipv6Addr, u32)> = vec![
        ("loopback", Ipv6Addr::LOCALHOST, 0),
        ("unspecified", Ipv6Addr::UNSPECIFIED, 0),
        ("v4-mapped", Ipv4Addr::new(192, 0, 2, 33).to_ipv6_mapped(), 0),
        ("v4-mapped-max", Ipv4Addr::new(255, 255, 255, 255).to_ipv6_mapped(), 0),
        ("link-local", "fe80::1".parse().unwrap(), 0),
        ("link-local-zoned", "fe80::1".parse().unwrap(), 3),
        ("link-local-eui64", "fe80::0211:22ff:fe33:4455".parse().unwrap(), 0),
        ("ula", "fd12:3456:789a:1::1".parse().unwrap(), 0),
        ("global-doc", "2001:db8::1".parse().unwrap(), 0),
        ("global-dense", "2606:4700:4700:1234:5678:9abc:def0:1111".parse().unwrap(), 0),
        ("global-short", "2001:4860:4860::8888".parse().unwrap(), 0),
        ("multicast", "ff02::1".parse().unwrap(), 0),
        ("max", "ffff:ffff:ffff:ffff:ffff:ffff:ffff:ffff".parse().unwrap(), 0),
    ];
    let v6_cases: Vec<(usize, u16)> = (0..v6.len()).flat_map(|i| PORTS.iter().map(move |p| (i, *p))).collect();
    par_for(v6_cases.len(), |u| {
        let (i, p) = v6_cases[u];
        let mut lo = Local::default();
        let a = SocketAddr::V6(SocketAddrV6::new(v6[i].1, p, 0, v6[i].2));
        battery(&cx, &mut lo, a, &format!("v6:{}", v6[i].0), Level::Full);
        lo.flush(&distinct);
    });
    levels.push(format!("ipv6 @{:.1}s", run.elapsed().as_secs_f64()));
    bounds.insert("ipv6".into(), json!({"classes": v6.iter().map(|c| format!("{} = {}{}", c.0, c.1, if c.2 != 0 { format!("%{}", c.2) } else { String::new() })).collect::<Vec<_>>(), "ports": PORTS, "addresses": v6_cases.len()}));

    // ---- malformed strings: all 1-site mutations of valid renderings ------------------------------------------------
    let mut_bases: Vec<SocketAddr> = {
        let mut v: Vec<SocketAddr> = vec!["192.168.1.10:9000".parse().unwrap(), "0.0.0.0:0".parse().unwrap(), "255.255.255.255:65534".parse().unwrap(), "8.8.8.8:53".parse().unwrap(), "[::1]:80".parse().unwrap(), "[2001:db8::1]:9000".parse().unwrap(), "[::ffff:192.0.2.33]:8080".parse().unwrap()];
        if thorough {
            v.extend(["127.0.0.1:1".parse::<SocketAddr>().unwrap(), "10.0.0.1:65535".parse().unwrap(), "100.64.99.1:32768".parse().unwrap(), "[fe80::1%3]:443".parse().unwrap(), "[fd12:3456:789a:1::1]:8080".parse().unwrap(), "[ffff:ffff:ffff:ffff:ffff:ffff:ffff:ffff]:65534".parse().unwrap()]);
        }
        v
    };
    set_label("", 0);
    let mut mut_cases: Vec<(SocketAddr, &'static str, String)> = Vec::new();
    for a in &mut_bases {
        let na = NetworkAddress::new(*a);
        mut_cases.push((*a, "socketaddr", a.to_string()));
        mut_cases.push((*a, "display", na.to_string()));
        mut_cases.push((*a, "multiaddr", multiaddr_text(a)));
        if let Some(w) = na.four_words() {
            mut_cases.push((*a, "words-hyphen", w.to_string()));
            mut_cases.push((*a, "words-space", w.replace('-', " ")));
        }
    }
    let mut_total = AtomicU64::new(0);
    let mut_ok = AtomicU64::new(0);
    let mut_lenient = AtomicU64::new(0);
    // split into work items (rendering, chunk of mutations)
    let mut_items: Vec<(usize, Vec<(String, String)>)> = mut_cases.iter().enumerate().flat_map(|(i, c)| mutations(&c.2).chunks(200).map(|ch| (i, ch.to_vec())).collect::<Vec<_>>()).collect();
    par_for(mut_items.len(), |u| {
        if budget.exceeded() {
            return;
        }
        let (ci, muts) = &mut_items[u];
        let (a, form, base) = &mut_cases[*ci];
        let mut lo = Local::default();
        for (site, s) in muts {
            lo.evals += 1;
            mut_total.fetch_add(1, Ordering::Relaxed);
            let r = parse_na(s);
            let std_view = s.parse::<SocketAddr>().ok();
            let wit = |what: String| (json!({"valid_rendering": base, "of_address": a.to_string(), "form": form, "mutation": site, "mutated_text": s, "result": format!("{r:?}")}), what);
            match &r {
                Err(p) => cx.run.violation_lazy("C19.nopanic", feats(&[("entry", "NetworkAddress::from_str".into()), ("panic", panic_class(p)), ("input", word_shape(s))]), || wit(format!("from_str({s:?}) panicked: {p}"))),
                Ok(Err(_)) => {
                    lo.outcomes.insert(hash64(&("mut-err", form)));
                    if let Some(b) = std_view {
                        cx.run.violation_lazy("C19.fromstr", feats(&[("entry", "NetworkAddress::from_str".into()), ("shape", "rejected".into()), ("rendering", "socketaddr".into())]), || wit(format!("from_str rejects {s:?} which std parses as {b}")));
                    }
                }
                Ok(Ok(b)) => {
                    mut_ok.fetch_add(1, Ordering::Relaxed);
                    match acceptable(s, b) {
                        Some(kind) => {
                            if kind == "multiaddr-lenient" {
                                mut_lenient.fetch_add(1, Ordering::Relaxed);
                            }
                            lo.outcomes.insert(hash64(&("mut-ok", form, kind)));
                        }
                        None => {
                            let shape = if s.starts_with('/') { "multiaddr-like" } else if s.contains(" (") { "display-like" } else { "words-like" };
                            cx.run.violation_lazy("C19.malformed", feats(&[("entry", "NetworkAddress::from_str".into()), ("form", form.to_string()), ("shape", shape.into())]), || wit(format!("from_str({s:?}) = Ok({b}) although the text is no rendering of {b}")));
                        }
                    }
                }
            }
        }
        lo.flush(&distinct);
    });
    levels.push(format!("mutations @{:.1}s", run.elapsed().as_secs_f64()));

    // ---- word-structure sweep: every dictionary word at the first / last position of 4, 6, 9 and 12 word strings --------
    // (the first word of the IPv6 forms selects the decoder's category branch). Oracle: never a panic; an accepted
    // string must be stable: decoding the library's words of the returned address gives that address again, or fails
    // only in the ways already judged by C19.words (so only panics and instabilities are reported here).
    {
        let dict = &saorsa_core::bootstrap::fourwords::dictionary4k::DICTIONARY;
        let fillers = ["a", "zurich", "abstract"];
        let counts = [4usize, 6, 9, 12];
        let sweep_ok = AtomicU64::new(0);
        let sweep_n = AtomicU64::new(0);
        par_for(4096, |wi| {
            if budget.exceeded() {
                return;
            }
            let Some(w) = dict.get_word(wi as u16) else { return };
            let mut lo = Local::default();
            for &n in &counts {
                for f in fillers {
                    for pos in [0usize, n - 1] {
                        for sep in ["-", " "] {
                            let toks: Vec<&str> = (0..n).map(|i| if i == pos { w } else { f }).collect();
                            let s = toks.join(sep);
                            lo.evals += 1;
                            sweep_n.fetch_add(1, Ordering::Relaxed);
                            let r = parse_na(&s);
                            match &r {
                                Err(p) => cx.run.violation_lazy("C19.nopanic", feats(&[("entry", "NetworkAddress::from_str".into()), ("panic", panic_class(p)), ("input", format!("{n}-dictionary-words"))]), || {
                                    (json!({"text": s, "result": format!("{r:?}"), "note": "every token is a dictionary word"}), format!("from_str({s:?}) panicked: {p}"))
                                }),
                                Ok(Ok(_)) => {
                                    sweep_ok.fetch_add(1, Ordering::Relaxed);
                                    lo.outcomes.insert(hash64(&("sweep-ok", n, pos == 0)));
                                }
                                Ok(Err(_)) => {
                                    lo.outcomes.insert(hash64(&("sweep-err", n, pos == 0)));
                                }
                            }
                        }
                    }
                }
            }
            lo.flush(&distinct);
        });
        bounds.insert("word_structure_sweep".into(), json!({"dictionary_words": 4096, "positions": ["first", "last"], "fillers": fillers, "word_counts": counts, "separators": ["-", " "], "strings": sweep_n.load(Ordering::Relaxed), "accepted": sweep_ok.load(Ordering::Relaxed)}));
        levels.push(format!("word-structure sweep @{:.1}s", run.elapsed().as_secs_f64()));
    }
    bounds.insert("mutations".into(), json!({"base_addresses": mut_bases.iter().map(|a| a.to_string()).collect::<Vec<_>>(), "forms": ["socketaddr", "display", "multiaddr", "words-hyphen", "words-space"], "renderings": mut_cases.len(),
        "sites": "every position: delete, truncate, replace by each of 20 characters, insert each of 20 characters", "mutants": mut_total.load(Ordering::Relaxed), "mutants_accepted": mut_ok.load(Ordering::Relaxed), "accepted_multiaddr_with_empty_or_trailing_segment(info)": mut_lenient.load(Ordering::Relaxed)}));

    // ---- cross-component table: renderings handed to directly callable consumers ----------------------------------------
    // consumer Config::bootstrap_addrs (text -> NetworkAddress)
    {
        let addrs: Vec<SocketAddr> = {
            let mut v = Vec::new();
            for o in [1u8, 127, 192, 255] {
                for p in [1u16, 9000, 65534, 65535] {
                    v.push(SocketAddr::new(IpAddr::V4(Ipv4Addr::new(o, 0, 2, o)), p));
                }
            }
            v.push("[2001:db8::1]:9000".parse().unwrap());
            v.push("[::1]:65535".parse().unwrap());
            v
        };
        let mut lo = Local::default();
        for a in &addrs {
            let na = NetworkAddress::new(*a);
            let mut renderings = vec![("SocketAddr::to_string", a.to_string()), ("NetworkAddress::to_string", na.to_string())];
            if let Some(w) = na.four_words() {
                renderings.push(("NetworkAddress::four_words", w.to_string()));
            }
            for (producer, text) in renderings {
                let r = catch(|| {
                    let mut c = saorsa_core::config::Config::development();
                    c.network.bootstrap_nodes = vec![text.clone()];
                    c.bootstrap_addrs().map_err(|e| e.to_string()).and_then(|v| v.first().map(|n| n.socket_addr()).ok_or("empty".to_string()))
                });
                let clause = if producer == "NetworkAddress::to_string" { "C19.display" } else if producer == "NetworkAddress::four_words" { "C19.words" } else { "C19.fromstr" };
                expect_same(&cx, &mut lo, clause, "Config::bootstrap_addrs", a, &text, producer, r, &[("rendering", if producer == "SocketAddr::to_string" { "socketaddr".into() } else if na.four_words().is_some() { "with-words".into() } else { "no-words".into() })]);
            }
        }
        lo.flush(&distinct);
        bounds.insert("consumer_bootstrap_addrs".into(), json!({"addresses": addrs.len(), "producers": ["SocketAddr::to_string", "NetworkAddress::to_string", "NetworkAddress::four_words"]}));
    }
    // consumer DhtCoreEngine::add_node admission gate, observed differentially
    {
        // scenario = list of socket addresses admitted in order with ids in distinct buckets
        let mut scenarios: Vec<(String, Vec<SocketAddr>)> = Vec::new();
        let prefixes: Vec<[u8; 3]> = if thorough {
            vec![[203, 0, 113], [10, 0, 0], [192, 168, 1], [8, 8, 8], [1, 1, 1], [100, 64, 0], [127, 0, 0], [169, 254, 1], [172, 16, 0], [255, 255, 255], [223, 255, 255], [128, 0, 0]]
        } else {
            vec![[203, 0, 113], [10, 0, 0], [192, 168, 1], [8, 8, 8]]
        };
        for pfx in &prefixes {
            for port in [9000u16, 65535] {
                scenarios.push((format!("six hosts of {}.{}.{}.0/24, port {port}", pfx[0], pfx[1], pfx[2]), (0..6).map(|j| SocketAddr::new(IpAddr::V4(Ipv4Addr::new(pfx[0], pfx[1], pfx[2], 10 + j)), port)).collect()));
            }
            scenarios.push((format!("one host {}.{}.{}.10, three ports", pfx[0], pfx[1], pfx[2]), (0..3).map(|j| SocketAddr::new(IpAddr::V4(Ipv4Addr::new(pfx[0], pfx[1], pfx[2], 10)), 9000 + j)).collect()));
            scenarios.push((format!("twelve hosts of {}.{}.0.0/16, distinct /24s", pfx[0], pfx[1]), (0..12).map(|j| SocketAddr::new(IpAddr::V4(Ipv4Addr::new(pfx[0], pfx[1], j, 10)), 9000)).collect()));
        }
        scenarios.push(("three hosts of 2001:db8:1:2::/64".into(), (1..=3).map(|j| SocketAddr::new(IpAddr::V6(Ipv6Addr::new(0x2001, 0xdb8, 1, 2, 0, 0, 0, j)), 9000)).collect()));
        scenarios.push(("five /64s of 2001:db8:1::/48".into(), (1..=5).map(|j| SocketAddr::new(IpAddr::V6(Ipv6Addr::new(0x2001, 0xdb8, 1, j, 0, 0, 0, 1)), 9000)).collect()));
        type Renderer = (&'static str, bool, fn(&SocketAddr) -> Option<String>);
        let renderers: Vec<Renderer> = vec![
            ("NetworkAddress::to_string", true, |a| Some(NetworkAddress::new(*a).to_string())),
            ("IpAddr::to_string (documented 'just ip')", true, |a| Some(a.ip().to_string())),
            ("NetworkAddress::four_words", false, |a| NetworkAddress::new(*a).four_words().map(|s| s.to_string())),
            ("socket_addr_to_multiaddr format", false, |a| Some(multiaddr_text(a))),
        ];
        // all admission sequences are computed in parallel (fresh engine + own current-thread runtime per job)
        let nr = renderers.len() + 2; // per scenario: plain, plain again (determinism self-check), each renderer
        let seqs: Vec<Option<(Vec<String>, Vec<bool>)>> = par_map(scenarios.len() * nr, |i| {
            let (_, addrs) = &scenarios[i / nr];
            let texts: Option<Vec<String>> = match i % nr {
                0 | 1 => Some(addrs.iter().map(|a| a.to_string()).collect()),
                r => addrs.iter().map(renderers[r - 2].2).collect(),
            };
            let texts = texts?;
            let rt = tokio::runtime::Builder::new_current_thread().enable_all().build().unwrap();
            let seq = rt.block_on(admit_sequence(&texts));
            Some((texts, seq))
        });
        let mut lo = Local::default();
        let mut binding = 0u64;
        for (si, (name, _addrs)) in scenarios.iter().enumerate() {
            let (plain, base) = seqs[si * nr].clone().expect("plain");
            let base2 = seqs[si * nr + 1].clone().expect("plain").1;
            if base != base2 {
                run.machinery_error(format!("admission sequence not deterministic for {name}"));
            }
            if base.iter().any(|b| !b) {
                binding += 1;
            }
            lo.outcomes.insert(hash64(&("gate-base", &base)));
            if samples.len() < 3 {
                samples.push(json!({"gate_scenario": name, "addresses": plain, "admitted(plain ip:port)": base}));
            }
            for (ri, (rname, judged, _f)) in renderers.iter().enumerate() {
                let Some((texts, got)) = seqs[si * nr + 2 + ri].clone() else { continue };
                lo.evals += 1;
                lo.outcomes.insert(hash64(&("gate", rname, got == base)));
                if got != base {
                    let refused_base = base.iter().filter(|b| !**b).count();
                    let refused_got = got.iter().filter(|b| !**b).count();
                    let shape = if refused_got < refused_base { "gate-not-applied" } else { "gate-differs" };
                    let scen = if name.starts_with("one host") { "same-ip" } else if name.contains("/16") { "same-/16" } else if name.contains("/24") { "same-/24" } else { "ipv6" };
                    if *judged {
                        run.violation_lazy("C19.gate", feats(&[("entry", "DhtCoreEngine::add_node".into()), ("producer", rname.to_string()), ("shape", shape.into()), ("scenario", scen.into())]), || {
                            (
                                json!({"scenario": name, "producer": rname, "addresses_handed_over": texts, "admitted": got, "same_addresses_as_plain_ip_port": plain, "admitted_plain": base,
                                       "ids": "local id = blake3('vh-c19-local'); node j has byte0 ^= 0x80>>j (distinct buckets)"}),
                                format!("add_node with {rname} strings: admissions {got:?}, with plain ip:port {base:?} ({name})"),
                            )
                        });
                    } else {
                        run.info(&format!("gate_differs_for_unjudged_rendering:{rname}"));
                    }
                }
            }
        }
        lo.flush(&distinct);
        if binding == 0 {
            run.machinery_error("no gate scenario was binding with plain ip:port strings (differential oracle vacuous)");
        }
        bounds.insert("gate".into(), json!({"scenarios": scenarios.len(), "scenarios_where_plain_strings_hit_a_refusal": binding, "renderers_judged": ["NetworkAddress::to_string", "IpAddr::to_string"], "renderers_info_only": ["NetworkAddress::four_words", "multiaddr text"]}));
        levels.push(format!("cross-component @{:.1}s", run.elapsed().as_secs_f64()));
    }

    // ---- consumers inside DhtNetworkManager, through the in-memory network: the address string a DHT reply carries
    // for a peer (rendered by register_new_peer / handle_peer_connected on the replying node) must make the
    // requester dial exactly that peer's socket address (multiaddr_from_address, dial_candidate, connect_peer),
    // and get_peer_id_by_address must resolve the plain rendering to the peer.
    {
        use vh::netsim::*;
        let far: Vec<&str> = vec!["198.51.100.7:9000", "198.51.100.8:65535", "198.51.100.9:1", "10.0.0.1:80", "[2001:db8:5::1]:9000", "[2001:db8:5::2]:65535", "[fd12:3456:789a:1::1]:9000", "[2001:db8:85a3::8a2e:370:7334]:443",
            // an IPv4-mapped IPv6 socket address (what a dual-stack listener reports for an IPv4 peer) is not the IPv4 address
            "[::ffff:198.51.100.7]:9000", "[::ffff:10.0.0.1]:65535", "[2002:c633:6407::1]:9000", "[64:ff9b::c633:6407]:9000"];
        let dial_cases = std::sync::atomic::AtomicU64::new(0);
        par_for(far.len(), |fi| {
            let x: std::net::SocketAddr = far[fi].parse().unwrap();
            let rt = paused_runtime();
            rt.block_on(async {
                saorsa_core::verif_hooks::clear_sockets();
                let world = World::new();
                // A (prefix 15) - B (prefix 8) - C (prefix 1, at address x); target key prefix 0 is closest to C
                let a = make_node(&world, 0, &NodeSpec { tid: tid_with_prefix(15, 4, 0), app_id: Some(app_id_with_prefix(15, 4, 100)), k: 8 }).await;
                let b = make_node(&world, 1, &NodeSpec { tid: tid_with_prefix(8, 4, 1), app_id: Some(app_id_with_prefix(8, 4, 101)), k: 8 }).await;
                let c = make_node_at(&world, x, &NodeSpec { tid: tid_with_prefix(1, 4, 2), app_id: Some(app_id_with_prefix(1, 4, 102)), k: 8 }).await;
                let _ = a.transport.connect_peer(&b.addr.to_string()).await;
                settle().await;
                let _ = c.transport.connect_peer(&b.addr.to_string()).await; // C dials B: B learns C's address from the connection
                settle().await;
                let key = key_with_prefix(0, 4, 7);
                let m = a.mgr.clone();
                let h = tokio::spawn(async move { m.find_closest_nodes(&key, 8).await });
                let mut ch = Chooser::new(&[]);
                let hh = &h;
                let _ = drive(&world, &mut ch, &|| hh.is_finished(), Duration::from_secs(600), &|| vec![], &mut |_| {}, &mut |_| {}).await;
                let res = h.await.ok().and_then(|r| r.ok()).unwrap_or_default();
                distinct.eval();
                dial_cases.fetch_add(1, Ordering::Relaxed);
                // what B told A about C, and where A dialled
                let told: Vec<String> = world.with(|w| w.delivered.iter().filter(|f| f.dst == a.tid_hex).filter_map(|f| f.info.dht.as_ref()).filter_map(|m| match &m.result { Some(saorsa_core::dht_network_manager::DhtNetworkResult::NodesFound { nodes, .. }) => Some(nodes.clone()), _ => None }).flatten().filter(|n| n.peer_id == c.tid_hex || n.peer_id == hex::encode(c.pos)).map(|n| n.address).collect());
                let dials: Vec<(std::net::SocketAddr, bool)> = world.trace().iter().filter_map(|e| match e { Ev::Dial { from, to_addr, ok } if *from == a.tid_hex => Some((*to_addr, *ok)), _ => None }).collect();
                let known_addrs = [a.addr, b.addr, x];
                let reached = a.transport.is_peer_connected(&c.tid_hex).await;
                let resolved = a.transport.get_peer_id_by_address(&x.to_string()).await;
                let fam = if x.is_ipv4() { "ipv4" } else if matches!(x.ip(), std::net::IpAddr::V6(v6) if v6.to_ipv4_mapped().is_some()) { "ipv4-mapped-ipv6" } else { "ipv6" };
                let port = if x.port() == 65535 { "65535" } else { "other" };
                distinct.outcome(&("dial", fam, port, reached, told.len()));
                let wit = || json!({"far_peer_address": far[fi], "address_strings_in_the_reply": told, "dialled": dials.iter().map(|(s, ok)| json!([s.to_string(), ok])).collect::<Vec<_>>(), "connected_to_far_peer": reached, "get_peer_id_by_address": resolved, "lookup_result": res.iter().map(|n| n.peer_id.chars().take(8).collect::<String>()).collect::<Vec<_>>()});
                if let Some((bad, _)) = dials.iter().find(|(s, _)| !known_addrs.contains(s)) {
                    run.violation_lazy("C19.dial", feats(&[("consumer", "dial_candidate".into()), ("shape", "different-address".into()), ("family", fam.into()), ("port", port.into())]), || (wit(), format!("the requester dialled {bad}, which is no node's address (the far peer is at {x})")));
                }
                if told.is_empty() {
                    run.info("dial family: reply did not carry the far peer (info)");
                } else if !dials.iter().any(|(s, _)| *s == x) {
                    run.violation_lazy("C19.dial", feats(&[("consumer", "dial_candidate".into()), ("shape", "address-from-reply-not-dialled".into()), ("family", fam.into()), ("port", port.into())]), || (wit(), format!("the reply named the far peer as {told:?} but the requester never dialled {x}")));
                } else if !reached {
                    run.violation_lazy("C19.dial", feats(&[("consumer", "connect_peer".into()), ("shape", "not-connected-after-dial".into()), ("family", fam.into()), ("port", port.into())]), || (wit(), format!("dialling {x} did not connect to the far peer")));
                } else if resolved.as_deref() != Some(c.tid_hex.as_str()) {
                    run.violation_lazy("C19.dial", feats(&[("consumer", "get_peer_id_by_address".into()), ("shape", "address-not-resolved-to-peer".into()), ("family", fam.into()), ("port", port.into())]), || (wit(), format!("get_peer_id_by_address({x}) = {resolved:?}")));
                }
            });
        });
        bounds.insert("netsim_dial_family".into(), json!({"far_peer_addresses": far, "cases": dial_cases.into_inner()}));
        levels.push(format!("netsim dial consumers @{:.1}s", run.elapsed().as_secs_f64()));
    }

    if budget.was_hit() {
        run.cap_hit(format!("wall-clock budget; completed: {levels:?}"));
        if levels.len() < 2 {
            run.machinery_error("not even the boundary grid completed");
        }
    }
    run.info_n("addresses_without_words(info)", no_words.load(Ordering::Relaxed));
    run.info_n("case_or_mixed_separator_variant_rejected_while_canonical_form_accepted(info, not judged)", variant_rejected.load(Ordering::Relaxed));
    samples.push(json!({"address": "192.168.1.10:9000", "display": NetworkAddress::new("192.168.1.10:9000".parse().unwrap()).to_string()}));
    samples.push(json!({"address": "[2001:db8::1]:9000", "display": NetworkAddress::new("[2001:db8::1]:9000".parse().unwrap()).to_string()}));
    bounds.insert("levels_completed".into(), json!(levels));
    let coverage = cov(vec![
        ("evaluations", json!(distinct.evaluations())),
        ("distinct_nontrivial", json!(distinct.distinct())),
        ("rule", json!("evaluation = one text handed to one consumer and compared with the originating socket address (or one mutant parsed, or one admission sequence compared with the plain-string sequence); distinct = distinct (clause, consumer, address family, outcome shape, port class) / (mutated form, acceptance kind) / (renderer, admission sequence equal?) tuples")),
        ("samples", json!(samples)),
        ("exhaustive", json!(!budget.was_hit())),
        ("bounds", Value::Object(bounds)),
    ]);
    run.finish(
        coverage,
        vec![
            "weakest reading of 'same address': equal IP and port (IPv6 zone / flow label not compared)".into(),
            "word variants never produced by the library (upper, title, mixed separators) may be rejected (counted as info); they must not decode to another address or panic. The hyphen form (NetworkAddress::four_words, identity::FourWordAddress) and the space form (re-exported encoder) must decode".into(),
            "a mutated string that is accepted must be a rendering of the returned address (std SocketAddr syntax, /ip4|ip6/<ip>/tcp/<port>[/...], '<ip:port> (...)', or the library's words of that address up to separators/case); a mutated string that std parses must be accepted; any other Err is fine".into(),
            "add_node's gate is observed differentially: the admission sequence for library-rendered strings must equal the one for plain ip:port strings of the same addresses (fresh engine each, LogOnly close-group validation, ids in distinct buckets); only renderings that reach add_node in production (NetworkAddress::to_string via register_new_peer/handle_peer_connected; bare IP per the code comment) are judged".into(),
            "DhtNetworkManager::{multiaddr_from_address, dial_candidate}, connect_peer and get_peer_id_by_address are exercised through the in-memory network (A-B-C path, the far peer at 12 address classes incl. IPv4-mapped IPv6); BootstrapManager dialling is not covered".into(),
            "DESIGN's quick grid (full battery on all 7.6e5 grid addresses) was scaled to measured throughput: words + Display round trips on the whole grid, the full battery on the sub-grid stated in bounds".into(),
        ],
    );
}
