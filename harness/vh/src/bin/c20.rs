//! C20 — concurrent DHT operations and shutdown always complete; nothing runs after.
//!
//! N real DhtNetworkManagers; 1..3 client operations (find_node, put, get, ping) are started concurrently
//! on one or two nodes while the other nodes serve them; the schedule explorer delivers, reorders and drops
//! frames, lets timeouts fire early, turns a peer silent from any point on, and calls stop() on any node at
//! any choice point. Every execution runs to completion (or to the liveness horizon).
use saorsa_core::dht_network_manager::{DhtMessageType, DhtNetworkMessage, DhtNetworkOperation};
use serde_json::{Value, json};
use std::sync::atomic::{AtomicU64, Ordering};
use std::time::Duration;
use vh::core::*;
use vh::netsim::*;

#[derive(Clone, Debug, PartialEq, Eq, Hash)]
enum Op {
    FindNode { node: usize, key: usize },
    Put { node: usize, key: usize },
    Get { node: usize, key: usize },
    Ping { node: usize, peer: usize },
}

fn opj(o: &Op) -> Value {
    match o {
        Op::FindNode { node, key } => json!({"find_node": {"node": node, "key": key}}),
        Op::Put { node, key } => json!({"put": {"node": node, "key": key}}),
        Op::Get { node, key } => json!({"get": {"node": node, "key": key}}),
        Op::Ping { node, peer } => json!({"ping": {"node": node, "peer": peer}}),
    }
}

struct Ctx<'a> {
    run: &'a Run,
    distinct: &'a Distinct,
    execs: &'a AtomicU64,
}

/// a-priori completion bound of one operation: 20 lookup rounds x (dial + request timeout), + 1 round of PUTs
fn op_bound() -> Duration {
    (CONNECT_TIMEOUT + REQUEST_TIMEOUT) * 21
}

thread_local! {
    static DIAG_TRACE: std::cell::RefCell<Value> = std::cell::RefCell::new(Value::Null);
}

fn run_one(cx: &Ctx<'_>, cfg: &NetCfg, ops: &[Op], prefix: &[usize], allow_dev: bool, allow_events: bool, order: u8) -> Exec {
    vh::netsim::choose_peer_order(order);
    let rt = paused_runtime();
    let out = rt.block_on(async {
        let net = build_net(cfg).await;
        let world = &net.world;
        let keys = [key_with_prefix(0, cfg.bits, 71), key_with_prefix((1 << cfg.bits) - 1, cfg.bits, 72)];
        let t0 = tokio::time::Instant::now();
        let trace0 = world.trace().len();
        let mut hs: Vec<tokio::task::JoinHandle<Result<String, String>>> = Vec::new();
        let mut ops_run: Vec<Op> = ops.to_vec();
        for op in ops {
            let o = op.clone();
            let (node, peer_tid) = match &o {
                Op::FindNode { node, .. } | Op::Put { node, .. } | Op::Get { node, .. } => (*node, String::new()),
                Op::Ping { node, peer } => (*node, net.nodes[*peer].tid_hex.clone()),
            };
            let m = net.nodes[node].mgr.clone();
            hs.push(tokio::spawn(async move {
                let r = match o {
                    Op::FindNode { key, .. } => m.find_node(&keys[key]).await.map(|_| "ok".to_string()),
                    Op::Put { key, .. } => m.put(keys[key], vec![0xAB; 8]).await.map(|_| "ok".to_string()),
                    Op::Get { key, .. } => m.get(&keys[key]).await.map(|_| "ok".to_string()),
                    Op::Ping { .. } => m.ping(&peer_tid).await.map(|_| "ok".to_string()),
                };
                r.map_err(|e| e.to_string())
            }));
        }
        // background local stores: one store_local per node at every choice point (part of "any mix of ... stores"):
        // a writer on the node's engine lock is then present whenever another operation sits between two lock sections
        let bg_key = key_with_prefix(5, cfg.bits, 73);
        let mut bg_notify: Vec<std::sync::Arc<tokio::sync::Notify>> = Vec::new();
        let mut bg_tasks = Vec::new();
        for nd in &net.nodes {
            let nfy = std::sync::Arc::new(tokio::sync::Notify::new());
            let (m, n2) = (nd.mgr.clone(), nfy.clone());
            bg_tasks.push(tokio::spawn(async move {
                let mut i = 0u8;
                loop {
                    n2.notified().await;
                    i = i.wrapping_add(1);
                    let _ = m.store_local(bg_key, vec![i; 4]).await;
                }
            }));
            bg_notify.push(nfy);
        }
        // operations that can additionally be started at any later choice point (scheduler event)
        let extra_menu: Vec<Op> = vec![Op::Get { node: 0, key: 1 }, Op::FindNode { node: 0, key: 0 }];
        let mut extra_started: Vec<bool> = vec![false; extra_menu.len()];
        let mut ch = Chooser::new(prefix);
        ch.allow_drop = allow_dev;
        ch.allow_reorder = allow_dev;
        ch.allow_early_time = allow_dev;
        ch.allow_burst = allow_dev;
        // scenario events: stop(node i) once per node, silence(node j) once per non-client node
        let n = cfg.n;
        let mut stop_task: Vec<Option<tokio::task::JoinHandle<Result<(), String>>>> = (0..n).map(|_| None).collect();
        let mut stop_called_at: Vec<Option<Duration>> = vec![None; n];
        let mut stop_returned_at: Vec<Option<Duration>> = vec![None; n];
        let mut stop_trace_idx: Vec<Option<usize>> = vec![None; n];
        let mut silenced: Vec<bool> = cfg.silent.clone();
        let mut liveness_ok = true;
        let horizon = op_bound() * 4;
        loop {
            for nfy in &bg_notify {
                nfy.notify_one();
            }
            settle().await;
            // note stop() completions
            for i in 0..n {
                if stop_returned_at[i].is_none() {
                    if let Some(h) = &stop_task[i] {
                        if h.is_finished() {
                            stop_returned_at[i] = Some(t0.elapsed());
                            stop_trace_idx[i] = Some(world.trace().len());
                        }
                    }
                }
            }
            let all_done = hs.iter().all(|h| h.is_finished()) && stop_task.iter().all(|s| s.as_ref().map(|h| h.is_finished()).unwrap_or(true));
            let mut menu: Vec<(String, usize, usize)> = Vec::new(); // (desc, kind 0=stop 1=silence, node)
            if allow_events && !all_done {
                for i in 0..n {
                    if stop_task[i].is_none() {
                        menu.push((format!("stop() on N{i}"), 0, i));
                    }
                }
                for j in 0..n {
                    if !silenced[j] && !ops.iter().any(|o| matches!(o, Op::FindNode { node, .. } | Op::Put { node, .. } | Op::Get { node, .. } | Op::Ping { node, .. } if *node == j)) {
                        menu.push((format!("N{j} silent from now on"), 1, j));
                    }
                }
            }
            if allow_events && !all_done {
                for (k, o) in extra_menu.iter().enumerate() {
                    if !extra_started[k] {
                        menu.push((format!("start another operation now: {}", opj(o)), 2, k));
                    }
                }
            }
            let descs: Vec<String> = menu.iter().map(|m| m.0.clone()).collect();
            match ch.next(world, !all_done, &descs) {
                Action::Deliver(f) => {
                    world.deliver(f.seq);
                }
                Action::DeliverBurst(fs) => {
                    for f in fs {
                        world.deliver(f.seq);
                    }
                }
                Action::Drop(f) => world.drop_frame(f.seq),
                Action::Advance => {
                    tokio::time::sleep(REQUEST_TIMEOUT).await;
                    let ms = t0.elapsed().as_millis() as u64;
                    world.with(|w| w.trace.push(Ev::Time { now_ms: ms }));
                }
                Action::Extra(k) => {
                    let (_, kind, node) = menu[k].clone();
                    if kind == 0 {
                        let m = net.nodes[node].mgr.clone();
                        stop_called_at[node] = Some(t0.elapsed());
                        world.note(format!("stop() called on N{node}"));
                        stop_task[node] = Some(tokio::spawn(async move { m.stop().await.map_err(|e| e.to_string()) }));
                    } else if kind == 2 {
                        extra_started[node] = true;
                        let o = extra_menu[node].clone();
                        world.note(format!("extra operation started: {}", opj(&o)));
                        let (onode, m) = match &o {
                            Op::FindNode { node, .. } | Op::Put { node, .. } | Op::Get { node, .. } | Op::Ping { node, .. } => (*node, net.nodes[*node].mgr.clone()),
                        };
                        let _ = onode;
                        hs.push(tokio::spawn(async move {
                            let r = match o {
                                Op::FindNode { key, .. } => m.find_node(&keys[key]).await.map(|_| "ok".to_string()),
                                Op::Put { key, .. } => m.put(keys[key], vec![0xCD; 8]).await.map(|_| "ok".to_string()),
                                Op::Get { key, .. } => m.get(&keys[key]).await.map(|_| "ok".to_string()),
                                Op::Ping { .. } => Ok("ok".to_string()),
                            };
                            r.map_err(|e| e.to_string())
                        }));
                        ops_run.push(extra_menu[node].clone());
                    } else {
                        silenced[node] = true;
                        let h = net.nodes[node].tid_hex.clone();
                        world.with(|w| w.eps.get_mut(&h).unwrap().silent = true);
                        world.note(format!("N{node} silent from now on"));
                    }
                }
                Action::Done => break,
            }
            if t0.elapsed() > horizon || ch.points.len() > 4000 {
                liveness_ok = false;
                break;
            }
        }
        if ch.diverged() {
            // the recorded prefix could not be replayed: not an execution of the explored space, not judged
            for h in hs.iter().chain(bg_tasks.iter()) {
                h.abort();
            }
            for h in stop_task.iter().flatten() {
                h.abort();
            }
            return Exec { diverged: true, points: ch.points, obs: 0 };
        }
        // ---- epilogue (part of every execution): each node's DHT layer still answers a local query, and stop()
        // on every node that was not stopped yet returns within its bound
        let mut stuck_nodes: Vec<usize> = Vec::new();
        if liveness_ok {
            // while the query sits at one slow lock-section boundary (a different one per node and schedule), a new peer
            // connects to the node and a local store runs: connection handling and the query meet between their
            // critical sections
            const PROBE_SLOW: [&str; 3] = ["find_closest_nodes_local:before-peers", "find_closest_nodes_local:before-table", "handle_peer_connected:after-peers"];
            for i in 0..n {
                saorsa_core::verif_hooks::set_sched_slow_point(None);
                saorsa_core::verif_hooks::set_sched_slow_point(Some((PROBE_SLOW[(i + prefix.len()) % PROBE_SLOW.len()], 6)));
                let m = net.nodes[i].mgr.clone();
                let probe = tokio::spawn(async move {
                    let _ = m.find_closest_nodes_local(&[0u8; 32], 8).await;
                    let _ = m.get_connected_peers().await;
                });
                {
                    use saorsa_core::verif_hooks::VerifSocket;
                    let ctid = tid_with_prefix((3 + i as u32) % 16, cfg.bits, 9000 + i as u32);
                    let caddr: std::net::SocketAddr = format!("172.{}.0.9:9000", 60 + i).parse().unwrap();
                    let sock = world.add_endpoint(ctid, caddr, true);
                    let _ = sock.connect(&[net.nodes[i].addr]).await;
                    bg_notify[i].notify_one();
                }
                settle().await;
                settle().await;
                saorsa_core::verif_hooks::set_sched_slow_point(None);
                if !probe.is_finished() {
                    tokio::time::sleep(Duration::from_secs(1)).await;
                }
                if !probe.is_finished() {
                    probe.abort();
                    stuck_nodes.push(i);
                }
            }
            for i in 0..n {
                if stop_task[i].is_some() || stuck_nodes.contains(&i) {
                    continue;
                }
                let m = net.nodes[i].mgr.clone();
                stop_called_at[i] = Some(t0.elapsed());
                world.note(format!("epilogue: stop() called on N{i}"));
                // one instrumented lock-section boundary (a different one per node) is slow during this shutdown: a task
                // that reaches it stays between its two critical sections for several scheduling rounds
                const SLOW: [&str; 4] = ["handle_peer_connected:after-peers", "update_peer_info:before-peers", "find_closest_nodes_local:before-table", "send_dht_request:registered"];
                saorsa_core::verif_hooks::set_sched_slow_point(None);
                saorsa_core::verif_hooks::set_sched_slow_point(Some((SLOW[(i + prefix.len()) % SLOW.len()], 6)));
                let h = tokio::spawn(async move { m.stop().await.map_err(|e| e.to_string()) });
                // while stop() is in progress new peers keep connecting to the node (one per scheduling round): a
                // connection event may then be pending at any step of the shutdown sequence
                let mut c2 = Chooser::new(&[]);
                let te = tokio::time::Instant::now();
                let mut churn = 0u32;
                let mut round = 0u32;
                loop {
                    round += 1;
                    // (not in the first round: the peers a node says goodbye to are those it had when stop() was called)
                    if round > 1 && churn < 40 {
                        use saorsa_core::verif_hooks::VerifSocket;
                        let ctid = tid_with_prefix((churn % 16) as u32, cfg.bits, 5000 + 100 * i as u32 + churn);
                        let caddr: std::net::SocketAddr = format!("172.{}.{}.9:9000", 20 + i, 1 + churn).parse().unwrap();
                        let sock = world.add_endpoint(ctid, caddr, true);
                        let _ = sock.connect(&[net.nodes[i].addr]).await;
                        churn += 1;
                    }
                    settle().await;
                    if h.is_finished() {
                        break;
                    }
                    match c2.next(world, true, &[]) {
                        Action::Deliver(f) => {
                            world.deliver(f.seq);
                        }
                        Action::DeliverBurst(fs) => {
                            for f in fs {
                                world.deliver(f.seq);
                            }
                        }
                        Action::Drop(f) => world.drop_frame(f.seq),
                        Action::Advance => tokio::time::sleep(REQUEST_TIMEOUT).await,
                        Action::Extra(_) => {}
                        Action::Done => break,
                    }
                    if te.elapsed() > op_bound() {
                        break;
                    }
                }
                saorsa_core::verif_hooks::set_sched_slow_point(None);
                if h.is_finished() {
                    stop_returned_at[i] = Some(t0.elapsed());
                    stop_trace_idx[i] = Some(world.trace().len());
                }
                stop_task[i] = Some(h);
            }
        }
        cx.distinct.eval();
        if std::env::var_os("VH_C20_DIAG").is_some() {
            DIAG_TRACE.with(|t| *t.borrow_mut() = trace_json(&world.trace()[trace0..], &net.names));
        }
        let wit = |extra: Value| json!({"config": cfg.json(), "concurrent_ops": ops.iter().map(opj).collect::<Vec<_>>(), "schedule": prefix, "choices": ch.points.iter().filter(|p| p.chosen != 0).map(|p| p.desc.clone()).collect::<Vec<_>>(), "detail": extra, "trace": trace_json(&world.trace()[trace0..], &net.names)});
        let mut obs: Vec<String> = Vec::new();
        for i in &stuck_nodes {
            cx.run.violation_lazy("C20.live", feats(&[("op", "local-query-after-the-run".into()), ("shape", "node-state-lock-never-released".into())]), || (wit(json!({"node": i})), format!("N{i}: a local closest-node query blocks forever after the run (a lock on the node's peer state is never released)")));
        }
        // liveness
        for (i, h) in hs.iter().enumerate() {
            if !h.is_finished() {
                let opk = format!("{:?}", ops_run[i]).split(' ').next().unwrap_or("").to_string();
                let stopped = stop_called_at.iter().any(|s| s.is_some());
                cx.run.violation_lazy("C20.live", feats(&[("op", opk), ("shape", if liveness_ok { "unfinished-at-quiescence".into() } else { "unfinished-at-horizon".into() }), ("with_stop", stopped.to_string())]), || (wit(json!({"op": opj(&ops_run[i]), "virtual_s": t0.elapsed().as_secs()})), format!("operation {:?} did not complete within {} s of virtual time", ops_run[i], t0.elapsed().as_secs())));
            }
        }
        for i in 0..n {
            if let (Some(c), Some(r)) = (stop_called_at[i], stop_returned_at[i]) {
                // stop() says goodbye to every peer the node has when it is called, one after the other, each wait
                // bounded by the request timeout: the peers are those of the configuration plus any the lookups
                // connected since (counted as the distinct destinations of the node's leave requests)
                let configured = cfg.edges.iter().filter(|(a, b)| *a == i || *b == i).count();
                let tid = &net.nodes[i].tid_hex;
                let said_goodbye_to: std::collections::BTreeSet<String> = world.trace().iter().filter_map(|e| match e {
                    Ev::Sent { from, kind, to, .. } if from == tid && kind == "dht-req-leave" => Some(to.clone()),
                    _ => None,
                }).collect();
                let peers = configured.max(said_goodbye_to.len()) as u32;
                let bound = REQUEST_TIMEOUT * (peers + 1) + Duration::from_secs(1);
                obs.push(format!("stop{}:{}", i, (r - c).as_secs()));
                if r - c > bound {
                    cx.run.violation_lazy("C20.stop", feats(&[("shape", "stop-slower-than-peers-x-timeout".into())]), || (wit(json!({"node": i, "stop_took_s": (r - c).as_secs(), "bound_s": bound.as_secs()})), format!("stop() on N{i} took {} s (bound {} s)", (r - c).as_secs(), bound.as_secs())));
                }
            } else if stop_called_at[i].is_some() {
                cx.run.violation_lazy("C20.stop", feats(&[("shape", "stop-did-not-return".into())]), || (wit(json!({"node": i})), format!("stop() on N{i} did not return")));
            }
            // silent: no request frame handed to the wire by node i after its stop() returned
            if let Some(idx) = stop_trace_idx[i] {
                let tid = &net.nodes[i].tid_hex;
                let tr = world.trace();
                let late: Vec<String> = tr[idx..].iter().filter_map(|e| match e {
                    Ev::Sent { from, kind, to, .. } if from == tid && kind.starts_with("dht-req") => Some(format!("{kind} to {}", net.names.get(to).cloned().unwrap_or(short(to)))),
                    _ => None,
                }).collect();
                if !late.is_empty() {
                    let kinds: std::collections::BTreeSet<String> = late.iter().map(|l| l.split(' ').next().unwrap_or("").to_string()).collect();
                    cx.run.violation_lazy("C20.silent", feats(&[("shape", "request-sent-after-stop-returned".into()), ("kinds", kinds.into_iter().collect::<Vec<_>>().join("+"))]), || (wit(json!({"node": i, "requests_after_stop_returned": late})), format!("N{i} sent {} request(s) after its stop() had returned", late.len())));
                }
            }
        }
        // tasks: a request delivered to a stopped node gets no DHT response any more
        for i in 0..n {
            if stop_returned_at[i].is_some() {
                let peer = (0..n).find(|p| *p != i && cfg.edges.iter().any(|(a, b)| (*a == i && b == p) || (*b == i && a == p)));
                if let Some(p) = peer {
                    let before = world.trace().len();
                    let msg = DhtNetworkMessage { message_id: "probe-after-stop".into(), source: net.nodes[p].app_id.clone(), target: None, message_type: DhtMessageType::Request, payload: DhtNetworkOperation::Ping, result: None, timestamp: now_secs(), ttl: 10, hop_count: 0 };
                    world.inject(&net.nodes[i].tid_hex, net.nodes[p].tid, dht_frame(&net.nodes[p].app_id, &msg));
                    settle().await;
                    settle().await;
                    let tid = &net.nodes[i].tid_hex;
                    let answered = world.trace()[before..].iter().any(|e| matches!(e, Ev::Sent { from, kind, .. } if from == tid && kind.starts_with("dht-rsp")));
                    if answered {
                        cx.run.violation_lazy("C20.tasks", feats(&[("shape", "event-handler-still-serving-after-stop".into())]), || (wit(json!({"node": i})), format!("N{i} still answered a DHT request after stop() returned")));
                    }
                }
            }
        }
        for (i, h) in hs.into_iter().enumerate() {
            let o = if h.is_finished() { match h.await { Ok(Ok(_)) => "ok", Ok(Err(_)) => "err", Err(_) => "panic" } } else { h.abort(); "unfinished" };
            obs.push(format!("op{i}:{o}"));
        }
        for t in &bg_tasks {
            t.abort();
        }
        obs.push(format!("t={}", t0.elapsed().as_secs() / 5));
        cx.distinct.outcome(&obs);
        Exec { diverged: ch.diverged(), points: ch.points, obs: hash64(&obs) }
    });
    cx.execs.fetch_add(1, Ordering::Relaxed);
    out
}

fn main() {
    let run = Run::new("C20", "model_checking");
    quiet_panics();
    let distinct = Distinct::default();
    let execs = AtomicU64::new(0);
    let budget = Budget::new(Duration::from_secs(run.tier.pick(50, 1700)));
    let thorough = run.tier == Tier::Thorough;
    let cx = Ctx { run: &run, distinct: &distinct, execs: &execs };
    // (config, ops, deviation bound, events allowed)
    // the last field is the goodbye order of stop() (1 ascending / 2 descending peer ids): both in thorough, alternating in quick
    let mut work: Vec<(NetCfg, Vec<Op>, usize, bool, u8)> = Vec::new();
    for n in 2..=run.tier.pick(3, 4) {
        let graphs: Vec<Vec<(usize, usize)>> = if n <= 3 { connected_graphs(n) } else { vec![(0..n).flat_map(|a| (a + 1..n).map(move |b| (a, b))).collect(), (0..n - 1).map(|a| (a, a + 1)).collect(), (1..n).map(|b| (0, b)).collect()] };
        for g in graphs {
            let prefix: Vec<u32> = (0..n as u32).map(|i| 1 + 3 * i).collect();
            let cfg = NetCfg { n, edges: g.clone(), prefix, bits: 4, k: 2, distinct_app_id: true, silent: vec![false; n] };
            let mut menu: Vec<Op> = Vec::new();
            for node in 0..2.min(n) {
                menu.push(Op::FindNode { node, key: 0 });
                menu.push(Op::Put { node, key: 0 });
                menu.push(Op::Get { node, key: 1 });
                menu.push(Op::Ping { node, peer: (node + 1) % n });
            }
            // all sets of 1..=max concurrent ops (non-decreasing index sequences = multisets)
            let max_ops = if n <= 3 { run.tier.pick(2, 3) } else { 2 };
            let mut sets: Vec<Vec<usize>> = (0..menu.len()).map(|i| vec![i]).collect();
            let mut cur = sets.clone();
            for _ in 1..max_ops {
                let mut next = Vec::new();
                for s in &cur {
                    for j in *s.last().unwrap()..menu.len() {
                        let mut t = s.clone();
                        t.push(j);
                        next.push(t);
                    }
                }
                sets.extend(next.iter().cloned());
                cur = next;
            }
            for s in sets {
                let ops: Vec<Op> = s.iter().map(|i| menu[*i].clone()).collect();
                // bound 1 with stop/silence events and delivery deviations on every item; bound 2 on the small ones
                let bound = if thorough && ((n == 2 && ops.len() <= 3) || (n == 3 && ops.len() <= 1)) { 2 } else { 1 };
                let bound = if !thorough && n == 3 && ops.len() == 2 { 1 } else { bound };
                if thorough {
                    work.push((cfg.clone(), ops.clone(), bound, true, 1));
                    work.push((cfg.clone(), ops, bound, true, 2));
                } else {
                    let order = 1 + (work.len() % 2) as u8;
                    work.push((cfg.clone(), ops, bound, true, order));
                }
            }
        }
    }
    // larger networks, default environment only (0 deviations)
    for n in run.tier.pick(vec![6usize, 8], vec![6, 8, 10, 12]) {
        let edges: Vec<(usize, usize)> = (0..n).flat_map(|a| (a + 1..n).map(move |b| (a, b))).collect();
        let prefix: Vec<u32> = (0..n as u32).map(|i| 1 + i).collect();
        let cfg = NetCfg { n, edges, prefix, bits: 4, k: 8, distinct_app_id: true, silent: vec![false; n] };
        work.push((cfg.clone(), vec![Op::FindNode { node: 0, key: 0 }, Op::Put { node: 1, key: 0 }, Op::Get { node: 2, key: 0 }], 0, false, 1));
        let mut c2 = cfg.clone();
        c2.silent[n - 1] = true;
        c2.silent[n - 2] = true;
        work.push((c2, vec![Op::Put { node: 0, key: 1 }, Op::Get { node: 1, key: 1 }, Op::FindNode { node: 2, key: 1 }], 0, false, 2));
    }
    let parent = run.fan_out(n_workers());
    let mut total = ExploreStats::default();
    let mut done = 0u64;
    let mut samples: Vec<Value> = Vec::new();
    if parent.is_none() {
        for (wi, (cfg, ops, bound, events, order)) in work.iter().enumerate() {
            if !run.mine(wi) {
                continue;
            }
            if budget.exceeded() {
                break;
            }
            if std::env::var_os("VH_C20_DIAG").is_some() {
                // diagnostic: every bound-1 prefix is run twice; differing choice-point sequences are printed
                let base = run_one(&cx, cfg, ops, &[], *bound > 0, *events, *order);
                for i in 0..base.points.len() {
                    for alt in 0..base.points[i].alts {
                        let mut p: Vec<usize> = base.points[..i].iter().map(|q| q.chosen).collect();
                        p.push(alt);
                        let a = run_one(&cx, cfg, ops, &p, *bound > 0, *events, *order);
                        let ta = DIAG_TRACE.with(|t| t.borrow().clone());
                        let b = run_one(&cx, cfg, ops, &p, *bound > 0, *events, *order);
                        let tb = DIAG_TRACE.with(|t| t.borrow().clone());
                        let da: Vec<&String> = a.points.iter().map(|q| &q.desc).collect();
                        let db: Vec<&String> = b.points.iter().map(|q| &q.desc).collect();
                        if da != db || ta != tb {
                            eprintln!("DIAG-DIFF item={wi} cfg={} ops={:?} prefix={:?}\nA={}\nB={}", cfg.json(), ops, p, ta, tb);
                        }
                    }
                }
                done += 1;
                continue;
            }
            let mut f = |p: &[usize]| run_one(&cx, cfg, ops, p, *bound > 0, *events, *order);
            let st = explore(*bound, &budget, &mut f);
            if done == 0 {
                let a = run_one(&cx, cfg, ops, &[], *bound > 0, *events, *order);
                let b = run_one(&cx, cfg, ops, &[], *bound > 0, *events, *order);
                if a.obs != b.obs || a.points.len() != b.points.len() {
                    run.machinery_error(format!("replay self-check failed on {:?} {:?}", cfg.json(), ops));
                }
            }
            if st.diverged > 0 {
                run.machinery_error(format!("{} executions diverged while replaying a prefix ({:?})", st.diverged, ops));
            }
            total.executions += st.executions;
            total.choice_points += st.choice_points;
            total.max_len = total.max_len.max(st.max_len);
            if samples.len() < 2 {
                samples.push(json!({"config": cfg.json(), "concurrent_ops": ops.iter().map(opj).collect::<Vec<_>>(), "deviation_bound": bound, "goodbye_order": order, "executions": st.executions, "max_schedule_len": st.max_len}));
            }
            done += 1;
        }
        if budget.was_hit() {
            run.cap_hit(format!("wall-clock budget: worker {:?} completed {done} work items", run.shard()));
        }
        if run.is_child() {
            run.finish(cov(vec![("_distinct", distinct.export()), ("executions", json!(total.executions)), ("choice_points", json!(total.choice_points)), ("max_len", json!(total.max_len)), ("items", json!(done)), ("samples", json!(samples)), ("budget_hit", json!(budget.was_hit()))]), vec![]);
        }
    }
    let covs = parent.unwrap_or_default();
    for c in &covs {
        if let Some(d) = c.get("_distinct") {
            distinct.import(d);
        }
        if let Some(a) = c.get("samples").and_then(|v| v.as_array()) {
            for x in a {
                if samples.len() < 4 {
                    samples.push(x.clone());
                }
            }
        }
    }
    let executions = sum_cov(&covs, "executions") + total.executions;
    let points = sum_cov(&covs, "choice_points") + total.choice_points;
    let items = sum_cov(&covs, "items") + done;
    let any_budget = covs.iter().any(|c| c.get("budget_hit").and_then(|v| v.as_bool()).unwrap_or(false)) || budget.was_hit();
    if items == 0 {
        run.machinery_error("no work item completed");
    }
    let coverage = cov(vec![
        ("states", json!(points.max(1))),
        ("transitions", json!(points.max(1))),
        ("traces_validated_against_impl", json!(executions)),
        ("samples", json!(samples)),
        ("exhaustive", json!(!any_budget)),
        ("evaluations", json!(distinct.evaluations())),
        ("distinct_nontrivial", json!(distinct.distinct())),
        ("rule", json!("states/transitions = scheduler choice points executed on the real nodes; distinct = distinct (per-operation outcome, stop duration, virtual duration class) observations")),
        ("bounds", json!({"work_items_total": work.len(), "work_items_completed": items, "executions": executions,
                           "deviations": "every single deviation (out-of-order delivery, drop, early timeout, stop() on any node, a peer silent from now on) at every choice point; two on 2-node items and on 3-node items with one operation in thorough; both goodbye orders of stop() in thorough; larger full meshes (6..12 nodes) in the default environment only"})),
    ]);
    run.finish(
        coverage,
        vec![
            "liveness bound per operation: 21 x (dial + request timeout) of virtual time; horizon = 4 x that".into(),
            "stop() bound: (connected peers + 1) x request timeout + 1 s".into(),
            "stop() of the DHT layer does not stop the transport (the caller's job), so only DHT-layer activity after stop() is judged".into(),
            "thread preemption inside await-free segments is not explored (single-threaded runtime)".into(),
        ],
    );
}
