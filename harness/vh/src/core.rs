//! Shared machinery: violation records + signatures, known-finding matching, evidence writer,
//! exit protocol, parallel-for, explicit-state BFS over operation histories (rebuild-by-replay),
//! counting allocator.
//!
//! Exit protocol: 0 = held on everything explored (known findings printed), 1 = unlisted violation
//! (`VIOLATION property=<id> replay=<path>`), 2 = machinery failure.

use serde_json::{Map, Value, json};
use std::collections::{BTreeMap, HashMap, HashSet};
use std::hash::Hash;
use std::sync::Mutex;
use std::sync::atomic::{AtomicBool, AtomicU64, AtomicUsize, Ordering};
use std::time::{Duration, Instant};

pub const VERIF_DIR: &str = "/verif";

#[derive(Clone, Copy, PartialEq, Eq, Debug)]
pub enum Tier {
    Quick,
    Thorough,
}

impl Tier {
    pub fn as_str(&self) -> &'static str {
        match self {
            Tier::Quick => "quick",
            Tier::Thorough => "thorough",
        }
    }
    pub fn pick<T>(&self, quick: T, thorough: T) -> T {
        match self {
            Tier::Quick => quick,
            Tier::Thorough => thorough,
        }
    }
}

/// A violation of one named oracle clause, with a witness-derived feature signature.
#[derive(Clone, Debug)]
pub struct Violation {
    pub clause: String,
    pub features: BTreeMap<String, String>,
    pub witness: Value,
    pub what: String,
}

#[derive(Clone, Debug, serde::Deserialize)]
pub struct KnownEntry {
    pub property: String,
    pub status: String,
    pub clause: String,
    #[serde(default)]
    pub r#match: BTreeMap<String, String>,
    pub what: String,
    #[serde(default)]
    pub commit: Option<String>,
}

struct Sig {
    first: Violation,
    count: u64,
}

pub struct Run {
    pub property: String,
    pub level: String,
    pub tier: Tier,
    pub seed: i64,
    pub start: Instant,
    replay_mode: Option<String>,
    shard: (usize, usize),
    shard_out: Option<String>,
    sigs: Mutex<BTreeMap<String, Sig>>,
    known: Vec<KnownEntry>,
    caps_hit: Mutex<Vec<String>>,
    infos: Mutex<BTreeMap<String, u64>>,
    machinery_errors: Mutex<Vec<String>>,
}

fn sig_key(clause: &str, features: &BTreeMap<String, String>) -> String {
    let mut s = clause.to_string();
    for (k, v) in features {
        s.push_str(&format!("|{k}={v}"));
    }
    s
}

pub fn feats(pairs: &[(&str, String)]) -> BTreeMap<String, String> {
    pairs.iter().map(|(k, v)| (k.to_string(), v.clone())).collect()
}

impl Run {
    /// Parse `--tier quick|thorough` / `VERIF_TIER`, `VERIF_SEED`, `--replay <file>`.
    pub fn new(property: &str, level: &str) -> Run {
        let args: Vec<String> = std::env::args().collect();
        let mut tier = match std::env::var("VERIF_TIER").ok().as_deref() {
            Some("thorough") => Tier::Thorough,
            _ => Tier::Quick,
        };
        let mut replay_mode = None;
        let mut i = 1;
        while i < args.len() {
            match args[i].as_str() {
                "--tier" => {
                    i += 1;
                    tier = match args.get(i).map(|s| s.as_str()) {
                        Some("thorough") => Tier::Thorough,
                        Some("quick") => Tier::Quick,
                        other => machinery_exit(&format!("bad --tier {other:?}")),
                    };
                }
                "--replay" => {
                    i += 1;
                    replay_mode = args.get(i).cloned();
                }
                _ => {}
            }
            i += 1;
        }
        let seed = std::env::var("VERIF_SEED").ok().and_then(|s| s.parse().ok()).unwrap_or(0);
        let known = load_known(property);
        let shard = std::env::var("VH_SHARD").ok().and_then(|v| {
            let (a, b) = v.split_once('/')?;
            Some((a.parse().ok()?, b.parse().ok()?))
        });
        let shard_out = std::env::var("VH_SHARD_OUT").ok();
        Run {
            shard: shard.unwrap_or((0, 1)),
            shard_out,
            property: property.to_string(),
            level: level.to_string(),
            tier,
            seed,
            start: Instant::now(),
            replay_mode,
            sigs: Mutex::new(BTreeMap::new()),
            known,
            caps_hit: Mutex::new(Vec::new()),
            infos: Mutex::new(BTreeMap::new()),
            machinery_errors: Mutex::new(Vec::new()),
        }
    }

    /// (index, count) of this process among the worker processes (0,1 when not sharded).
    pub fn shard(&self) -> (usize, usize) {
        self.shard
    }
    /// Is work item `i` this process's share?
    pub fn mine(&self, i: usize) -> bool {
        i % self.shard.1 == self.shard.0
    }
    pub fn is_child(&self) -> bool {
        self.shard_out.is_some()
    }
    /// Parent: run `n` copies of this executable as worker processes (`VH_SHARD=i/n`), merge their
    /// violations / infos / caps / machinery errors into this run and return their coverage maps.
    /// Child: returns None — do the share of work selected by `mine()` and call `finish()` as usual.
    /// Threads inside one process contend on process-wide kernel locks (mmap/mlock); processes do not.
    pub fn fan_out(&self, n: usize) -> Option<Vec<Map<String, Value>>> {
        self.fan_out_resumable(n, &|_, _| None)
    }

    /// Like `fan_out`, but a worker that dies without a result (abort on allocation failure, stack overflow) is
    /// handed to `on_dead(shard, progress_file)`: it may record a violation from the worker's progress slot and
    /// return extra environment for a replacement worker that resumes behind the fatal input. `None` = machinery error.
    pub fn fan_out_resumable(&self, n: usize, on_dead: &dyn Fn(usize, &str) -> Option<Vec<(String, String)>>) -> Option<Vec<Map<String, Value>>> {
        if self.is_child() {
            return None;
        }
        let exe = std::env::current_exe().unwrap_or_else(|e| machinery_exit(&format!("current_exe: {e}")));
        let args: Vec<String> = std::env::args().skip(1).collect();
        let dir = format!("/dev/shm/vh-shards-{}-{}", self.property, std::process::id());
        let _ = std::fs::create_dir_all(&dir);
        let spawn = |i: usize, extra: &[(String, String)]| {
            let out = format!("{dir}/{i}.json");
            let _ = std::fs::remove_file(&out);
            let mut c = std::process::Command::new(&exe);
            c.args(&args).env("VH_SHARD", format!("{i}/{n}")).env("VH_SHARD_OUT", &out).env("VERIF_JOBS", "1").stdout(std::process::Stdio::null());
            for (k, v) in extra {
                c.env(k, v);
            }
            (c.spawn().unwrap_or_else(|e| machinery_exit(&format!("spawn worker: {e}"))), out)
        };
        let mut kids = Vec::new();
        for i in 0..n {
            kids.push(spawn(i, &[]));
        }
        let mut covs = Vec::new();
        for (i, (mut child, mut out)) in kids.into_iter().enumerate() {
            let mut restarts = 0;
            loop {
                let st = child.wait().unwrap_or_else(|e| machinery_exit(&format!("wait worker: {e}")));
                let txt = std::fs::read_to_string(&out).unwrap_or_default();
                let v: Value = match serde_json::from_str(&txt) {
                    Ok(v) => v,
                    Err(_) => {
                        restarts += 1;
                        match (restarts <= 64).then(|| on_dead(i, &format!("{out}.pos"))).flatten() {
                            Some(extra) => {
                                let (c2, o2) = spawn(i, &extra);
                                child = c2;
                                out = o2;
                                continue;
                            }
                            None => {
                                self.machinery_error(format!("worker {i}/{n} produced no result (exit {st})"));
                                break;
                            }
                        }
                    }
                };
                self.merge_worker(i, &v);
                covs.push(v["coverage"].as_object().cloned().unwrap_or_default());
                break;
            }
        }
        let _ = std::fs::remove_dir_all(&dir);
        Some(covs)
    }

    fn merge_worker(&self, i: usize, v: &Value) {
        if let Some(arr) = v["sigs"].as_array() {
            let mut sigs = self.sigs.lock().unwrap();
            for s in arr {
                let key = s["key"].as_str().unwrap_or("").to_string();
                let count = s["count"].as_u64().unwrap_or(1);
                match sigs.get_mut(&key) {
                    Some(e) => e.count += count,
                    None => {
                        let features: BTreeMap<String, String> = serde_json::from_value(s["features"].clone()).unwrap_or_default();
                        sigs.insert(key, Sig { first: Violation { clause: s["clause"].as_str().unwrap_or("").into(), features, witness: s["witness"].clone(), what: s["what"].as_str().unwrap_or("").into() }, count });
                    }
                }
            }
        }
        if let Some(m) = v["infos"].as_object() {
            for (k, n) in m {
                self.info_n(k, n.as_u64().unwrap_or(0));
            }
        }
        for c in v["caps"].as_array().cloned().unwrap_or_default() {
            self.cap_hit(c.as_str().unwrap_or("").to_string());
        }
        for c in v["merrs"].as_array().cloned().unwrap_or_default() {
            self.machinery_error(format!("worker {i}: {}", c.as_str().unwrap_or("")));
        }
    }

    /// Path of this worker's progress slot (next to its result file).
    pub fn progress_path(&self) -> Option<String> {
        self.shard_out.as_ref().map(|o| format!("{o}.pos"))
    }

    pub fn replay_file(&self) -> Option<&str> {
        self.replay_mode.as_deref()
    }

    /// Record a violation. Enumerations go simplest-first, so the first witness per signature is kept.
    pub fn violation(&self, clause: &str, features: BTreeMap<String, String>, witness: Value, what: impl Into<String>) {
        let key = sig_key(clause, &features);
        let mut sigs = self.sigs.lock().unwrap();
        match sigs.get_mut(&key) {
            Some(s) => s.count += 1,
            None => {
                sigs.insert(
                    key,
                    Sig { first: Violation { clause: clause.to_string(), features, witness, what: what.into() }, count: 1 },
                );
            }
        }
    }

    /// Like `violation`, but the witness is only built if this signature has not been seen yet.
    pub fn violation_lazy(&self, clause: &str, features: BTreeMap<String, String>, mk: impl FnOnce() -> (Value, String)) {
        let key = sig_key(clause, &features);
        let mut sigs = self.sigs.lock().unwrap();
        match sigs.get_mut(&key) {
            Some(s) => s.count += 1,
            None => {
                let (witness, what) = mk();
                sigs.insert(key, Sig { first: Violation { clause: clause.to_string(), features, witness, what }, count: 1 });
            }
        }
    }

    pub fn violation_count(&self) -> usize {
        self.sigs.lock().unwrap().len()
    }

    /// Informational counters (logged in evidence, never judged).
    pub fn info(&self, key: &str) {
        *self.infos.lock().unwrap().entry(key.to_string()).or_insert(0) += 1;
    }
    pub fn info_n(&self, key: &str, n: u64) {
        *self.infos.lock().unwrap().entry(key.to_string()).or_insert(0) += n;
    }

    pub fn cap_hit(&self, what: impl Into<String>) {
        self.caps_hit.lock().unwrap().push(what.into());
    }

    pub fn machinery_error(&self, what: impl Into<String>) {
        let w = what.into();
        eprintln!("MACHINERY-ERROR: {w}");
        self.machinery_errors.lock().unwrap().push(w);
    }

    pub fn elapsed(&self) -> Duration {
        self.start.elapsed()
    }

    /// Write evidence + replay artefacts, print verdict lines, exit.
    pub fn finish(self, mut coverage: Map<String, Value>, assumptions: Vec<String>) -> ! {
        let sigs = self.sigs.into_inner().unwrap();
        let caps = self.caps_hit.into_inner().unwrap();
        let infos = self.infos.into_inner().unwrap();
        let merrs = self.machinery_errors.into_inner().unwrap();
        if let Some(out) = &self.shard_out {
            let part = json!({
                "sigs": sigs.iter().map(|(k, s)| json!({"key": k, "count": s.count, "clause": s.first.clause, "features": s.first.features, "witness": s.first.witness, "what": s.first.what})).collect::<Vec<_>>(),
                "infos": infos, "caps": caps, "merrs": merrs, "coverage": coverage,
            });
            if let Err(e) = std::fs::write(out, serde_json::to_string(&part).unwrap()) {
                machinery_exit(&format!("cannot write shard result {out}: {e}"));
            }
            std::process::exit(0);
        }
        // --replay <file>: the enumeration is deterministic, so a witness is replayed by re-running the check
        // and looking for the recorded signature (its minimal witness is found first again)
        if let Some(file) = &self.replay_mode {
            let want = std::fs::read_to_string(file).ok().and_then(|t| serde_json::from_str::<Value>(&t).ok()).and_then(|v| v["signature"].as_str().map(|s| s.to_string()));
            let Some(want) = want else { machinery_exit(&format!("cannot read a signature from {file}")) };
            match sigs.get(&want) {
                Some(sig) => {
                    println!("VIOLATION property={} replay={}", self.property, file);
                    println!("  reproduced: clause={} occurrences={} {}", sig.first.clause, sig.count, sig.first.what);
                    println!("  witness: {}", serde_json::to_string(&sig.first.witness).unwrap_or_default().chars().take(2000).collect::<String>());
                    std::process::exit(1);
                }
                None => {
                    println!("REPLAY property={} signature not reproduced on this tree: {}", self.property, want);
                    std::process::exit(if merrs.is_empty() { 0 } else { 2 });
                }
            }
        }
        let mut known_seen: BTreeMap<usize, u64> = BTreeMap::new();
        let mut unlisted: Vec<(&String, &Sig)> = Vec::new();
        for (key, sig) in &sigs {
            match self.known.iter().position(|k| known_matches(k, &sig.first)) {
                Some(idx) => *known_seen.entry(idx).or_insert(0) += sig.count,
                None => unlisted.push((key, sig)),
            }
        }
        let _ = std::fs::create_dir_all(format!("{VERIF_DIR}/evidence/replay"));
        // remove stale replay files of this property
        if let Ok(rd) = std::fs::read_dir(format!("{VERIF_DIR}/evidence/replay")) {
            for e in rd.flatten() {
                if e.file_name().to_string_lossy().starts_with(&format!("{}-", self.property)) {
                    let _ = std::fs::remove_file(e.path());
                }
            }
        }
        let mut lines = Vec::new();
        for (idx, n) in &known_seen {
            let k = &self.known[*idx];
            lines.push(format!("KNOWN-FINDING: property={} clause={} occurrences={} {}", self.property, k.clause, n, k.what));
        }
        let mut n = 0;
        for (key, sig) in &unlisted {
            n += 1;
            let path = format!("{VERIF_DIR}/evidence/replay/{}-{}.json", self.property, n);
            let art = json!({
                "property": self.property,
                "clause": sig.first.clause,
                "features": sig.first.features,
                "signature": key,
                "occurrences": sig.count,
                "what": sig.first.what,
                "witness": sig.first.witness,
                "replay": format!("./check {} --replay {}", self.property, path),
            });
            let _ = std::fs::write(&path, serde_json::to_string_pretty(&art).unwrap());
            lines.push(format!("VIOLATION property={} replay={}", self.property, path));
            lines.push(format!("  clause={} occurrences={} {}", sig.first.clause, sig.count, sig.first.what));
            if n >= 40 {
                lines.push(format!("  ... {} further signatures not written", unlisted.len() - n));
                break;
            }
        }
        let exhaustive_claim = coverage.get("exhaustive").and_then(|v| v.as_bool()).unwrap_or(false);
        if !caps.is_empty() && exhaustive_claim {
            coverage.insert("exhaustive".into(), Value::Bool(false));
        }
        coverage.insert("caps_hit".into(), json!(caps));
        coverage.insert("known_findings_seen".into(), json!(known_seen.iter().map(|(i, n)| json!({"clause": self.known[*i].clause, "what": self.known[*i].what, "occurrences": n})).collect::<Vec<_>>()));
        coverage.insert("violation_signatures".into(), json!(sigs.iter().map(|(k, s)| json!({"signature": k, "occurrences": s.count})).collect::<Vec<_>>()));
        coverage.insert("info".into(), json!(infos));
        let ev = json!({
            "property_id": self.property,
            "tier": self.tier.as_str(),
            "seed": self.seed,
            "level": self.level,
            "coverage": coverage,
            "assumptions": assumptions,
            "wall_s": self.start.elapsed().as_secs_f64(),
            "violations": unlisted.len(),
            "machinery_errors": merrs,
        });
        if self.replay_mode.is_none() {
            let path = format!("{VERIF_DIR}/evidence/{}.json", self.property);
            if let Err(e) = std::fs::write(&path, serde_json::to_string_pretty(&ev).unwrap()) {
                machinery_exit(&format!("cannot write evidence {path}: {e}"));
            }
        }
        for l in &lines {
            println!("{l}");
        }
        let cov = ev.get("coverage").unwrap();
        let short = |k: &str| cov.get(k).map(|v| v.to_string()).unwrap_or_default();
        println!(
            "SUMMARY property={} tier={} states={} transitions={} evaluations={} distinct={} exhaustive={} known_findings={} violations={} wall_s={:.1}",
            self.property,
            self.tier.as_str(),
            short("states"),
            short("transitions"),
            short("evaluations"),
            short("distinct_nontrivial"),
            short("exhaustive"),
            known_seen.len(),
            unlisted.len(),
            self.start.elapsed().as_secs_f64()
        );
        if !merrs.is_empty() {
            std::process::exit(2);
        }
        std::process::exit(if unlisted.is_empty() { 0 } else { 1 });
    }
}

pub fn machinery_exit(msg: &str) -> ! {
    eprintln!("MACHINERY-ERROR: {msg}");
    std::process::exit(2);
}

fn load_known(property: &str) -> Vec<KnownEntry> {
    let path = format!("{VERIF_DIR}/known_findings.json");
    let Ok(s) = std::fs::read_to_string(&path) else { return Vec::new() };
    let all: Vec<KnownEntry> = match serde_json::from_str(&s) {
        Ok(v) => v,
        Err(e) => machinery_exit(&format!("known_findings.json unparseable: {e}")),
    };
    all.into_iter().filter(|k| k.property == property && k.status == "known").collect()
}

fn known_matches(k: &KnownEntry, v: &Violation) -> bool {
    if k.clause != v.clause {
        return false;
    }
    k.r#match.iter().all(|(key, pat)| match v.features.get(key) {
        None => false,
        Some(val) => {
            if let Some(re) = pat.strip_prefix("re:") {
                regex::Regex::new(&format!("^(?:{re})$")).map(|r| r.is_match(val)).unwrap_or(false)
            } else {
                val == pat
            }
        }
    })
}

// ---------------------------------------------------------------------------------------------
// Parallel helpers

pub fn n_workers() -> usize {
    std::env::var("VERIF_JOBS").ok().and_then(|s| s.parse().ok()).unwrap_or_else(|| std::thread::available_parallelism().map(|n| n.get()).unwrap_or(8).min(16))
}

/// Run `f(i)` for every i in 0..n on all cores (dynamic work stealing by atomic counter).
pub fn par_for<F: Fn(usize) + Sync>(n: usize, f: F) {
    let next = AtomicUsize::new(0);
    let workers = n_workers().min(n.max(1));
    std::thread::scope(|s| {
        for _ in 0..workers {
            s.spawn(|| {
                loop {
                    let i = next.fetch_add(1, Ordering::Relaxed);
                    if i >= n {
                        break;
                    }
                    f(i);
                }
            });
        }
    });
}

/// Parallel map preserving order.
pub fn par_map<T: Send, F: Fn(usize) -> T + Sync>(n: usize, f: F) -> Vec<T> {
    let out: Vec<Mutex<Option<T>>> = (0..n).map(|_| Mutex::new(None)).collect();
    par_for(n, |i| {
        *out[i].lock().unwrap() = Some(f(i));
    });
    out.into_iter().map(|m| m.into_inner().unwrap().unwrap()).collect()
}

/// Wall-clock budget shared by workers.
pub struct Budget {
    deadline: Instant,
    hit: AtomicBool,
}
impl Budget {
    pub fn new(d: Duration) -> Budget {
        Budget { deadline: Instant::now() + d, hit: AtomicBool::new(false) }
    }
    pub fn exceeded(&self) -> bool {
        if self.hit.load(Ordering::Relaxed) {
            return true;
        }
        if Instant::now() > self.deadline {
            self.hit.store(true, Ordering::Relaxed);
            return true;
        }
        false
    }
    pub fn was_hit(&self) -> bool {
        self.hit.load(Ordering::Relaxed)
    }
}

// ---------------------------------------------------------------------------------------------
// Explicit-state BFS over operation histories, rebuild-by-replay.

#[derive(Default, Debug, Clone)]
pub struct BfsStats {
    pub states: u64,
    pub transitions: u64,
    pub max_depth: usize,
    pub fixpoint: bool,
    pub completed_depth: usize,
    pub revisits: u64,
    pub frontier_sizes: Vec<usize>,
    pub sample_histories: Vec<Vec<usize>>,
}

/// Breadth-first search over histories (sequences of alphabet indices).
///
/// `step(history)` must build a fresh real object, replay `history` on it, evaluate the oracle for
/// the LAST operation (reporting violations through its own side channel) and return
/// `Some((canon, obs))` — `canon` identifies the reached state, `obs` is an observation digest
/// used to test the canonicalisation (two paths to one canon must give equal obs) — or `None` to
/// prune (operation not applicable). `on_merge_mismatch` is called when two histories reach the
/// same canon with different obs.
pub fn bfs<C, F, M>(n_ops: usize, max_depth: usize, budget: &Budget, step: F, on_merge_mismatch: M) -> BfsStats
where
    C: Hash + Eq + Send + Clone,
    F: Fn(&[usize]) -> Option<(C, u64)> + Sync,
    M: Fn(&[usize], &[usize]) + Sync,
{
    let mut stats = BfsStats::default();
    let mut seen: HashMap<C, (Vec<usize>, u64)> = HashMap::new();
    let mut frontier: Vec<Vec<usize>> = vec![vec![]];
    if let Some((c, o)) = step(&[]) {
        seen.insert(c, (vec![], o));
        stats.states = 1;
    }
    for depth in 1..=max_depth {
        if frontier.is_empty() {
            stats.fixpoint = true;
            break;
        }
        stats.frontier_sizes.push(frontier.len());
        let total = frontier.len() * n_ops;
        let results: Vec<Option<(Vec<usize>, Option<(C, u64)>)>> = par_map(total, |i| {
            if budget.exceeded() {
                return None;
            }
            let h = &frontier[i / n_ops];
            let mut h2 = h.clone();
            h2.push(i % n_ops);
            let r = step(&h2);
            Some((h2, r))
        });
        if budget.was_hit() {
            stats.completed_depth = depth - 1;
            return stats;
        }
        let mut next = Vec::new();
        for r in results.into_iter().flatten() {
            let (h2, out) = r;
            let Some((c, o)) = out else { continue };
            stats.transitions += 1;
            match seen.get(&c) {
                Some((h_prev, o_prev)) => {
                    stats.revisits += 1;
                    if *o_prev != o {
                        on_merge_mismatch(h_prev, &h2);
                    }
                }
                None => {
                    seen.insert(c, (h2.clone(), o));
                    stats.states += 1;
                    stats.max_depth = depth;
                    if stats.sample_histories.len() < 4 || (stats.states % 997 == 0 && stats.sample_histories.len() < 8) {
                        stats.sample_histories.push(h2.clone());
                    }
                    next.push(h2);
                }
            }
        }
        stats.completed_depth = depth;
        frontier = next;
    }
    if frontier.is_empty() {
        stats.fixpoint = true;
    }
    stats
}

// ---------------------------------------------------------------------------------------------
// Distinct-outcome counter

pub struct Distinct {
    set: Mutex<HashSet<u64>>,
    evals: AtomicU64,
}
impl Default for Distinct {
    fn default() -> Self {
        Distinct { set: Mutex::new(HashSet::new()), evals: AtomicU64::new(0) }
    }
}
impl Distinct {
    pub fn eval(&self) {
        self.evals.fetch_add(1, Ordering::Relaxed);
    }
    pub fn evals_add(&self, n: u64) {
        self.evals.fetch_add(n, Ordering::Relaxed);
    }
    pub fn outcome<T: Hash>(&self, t: &T) {
        let h = hash64(t);
        self.set.lock().unwrap().insert(h);
    }
    pub fn evaluations(&self) -> u64 {
        self.evals.load(Ordering::Relaxed)
    }
    /// For worker processes: put under coverage key "_distinct" so the parent can union the sets.
    pub fn export(&self) -> Value {
        json!({"evals": self.evaluations(), "set": self.set.lock().unwrap().iter().copied().collect::<Vec<u64>>()})
    }
    pub fn import(&self, v: &Value) {
        self.evals_add(v["evals"].as_u64().unwrap_or(0));
        if let Some(a) = v["set"].as_array() {
            let mut s = self.set.lock().unwrap();
            for x in a {
                if let Some(h) = x.as_u64() {
                    s.insert(h);
                }
            }
        }
    }
    pub fn distinct(&self) -> u64 {
        self.set.lock().unwrap().len() as u64
    }
}

pub fn hash64<T: Hash>(t: &T) -> u64 {
    use std::hash::Hasher;
    // fixed-key hasher: deterministic across runs
    let mut h = std::collections::hash_map::DefaultHasher::new();
    t.hash(&mut h);
    h.finish()
}

// ---------------------------------------------------------------------------------------------
// Counting allocator (thread-local live/peak bytes). Install in a binary with
// `#[global_allocator] static A: vh::core::CountingAlloc = vh::core::CountingAlloc;`

pub struct CountingAlloc;

thread_local! {
    static LIVE: std::cell::Cell<isize> = const { std::cell::Cell::new(0) };
    static PEAK: std::cell::Cell<isize> = const { std::cell::Cell::new(0) };
}

unsafe impl std::alloc::GlobalAlloc for CountingAlloc {
    unsafe fn alloc(&self, l: std::alloc::Layout) -> *mut u8 {
        let p = unsafe { std::alloc::System.alloc(l) };
        if !p.is_null() {
            track(l.size() as isize);
        }
        p
    }
    unsafe fn dealloc(&self, p: *mut u8, l: std::alloc::Layout) {
        unsafe { std::alloc::System.dealloc(p, l) };
        track(-(l.size() as isize));
    }
    unsafe fn alloc_zeroed(&self, l: std::alloc::Layout) -> *mut u8 {
        let p = unsafe { std::alloc::System.alloc_zeroed(l) };
        if !p.is_null() {
            track(l.size() as isize);
        }
        p
    }
    unsafe fn realloc(&self, p: *mut u8, l: std::alloc::Layout, new: usize) -> *mut u8 {
        let q = unsafe { std::alloc::System.realloc(p, l, new) };
        if !q.is_null() {
            track(new as isize - l.size() as isize);
        }
        q
    }
}

fn track(d: isize) {
    let _ = LIVE.try_with(|c| {
        let v = c.get() + d;
        c.set(v);
        let _ = PEAK.try_with(|p| {
            if v > p.get() {
                p.set(v);
            }
        });
    });
}

/// Reset the peak to the current live level; returns the baseline.
pub fn alloc_mark() -> isize {
    let live = LIVE.with(|c| c.get());
    PEAK.with(|p| p.set(live));
    live
}
/// Peak live bytes above `mark` since `alloc_mark()` on this thread.
pub fn alloc_peak_since(mark: isize) -> isize {
    PEAK.with(|p| p.get()) - mark
}

// ---------------------------------------------------------------------------------------------
// Progress slot: a worker records which input it is about to hand to the subject in a memory-mapped file, so that the
// parent can name the input when the worker process is killed by it (allocation failure aborts, it does not unwind).

pub struct ProgressSlot {
    ptr: *mut u32,
}
unsafe impl Send for ProgressSlot {}
unsafe impl Sync for ProgressSlot {}
impl ProgressSlot {
    pub fn create(path: &str) -> Option<ProgressSlot> {
        use std::os::unix::io::AsRawFd;
        let f = std::fs::OpenOptions::new().create(true).read(true).write(true).truncate(true).open(path).ok()?;
        f.set_len(16).ok()?;
        let p = unsafe { libc::mmap(std::ptr::null_mut(), 16, libc::PROT_READ | libc::PROT_WRITE, libc::MAP_SHARED, f.as_raw_fd(), 0) };
        if p == libc::MAP_FAILED {
            return None;
        }
        Some(ProgressSlot { ptr: p as *mut u32 })
    }
    pub fn set(&self, a: u32, b: u32, c: u32) {
        unsafe {
            std::ptr::write_volatile(self.ptr, a);
            std::ptr::write_volatile(self.ptr.add(1), b);
            std::ptr::write_volatile(self.ptr.add(2), c);
            std::ptr::write_volatile(self.ptr.add(3), 1);
        }
    }
    pub fn read(path: &str) -> Option<(u32, u32, u32)> {
        let b = std::fs::read(path).ok()?;
        if b.len() < 16 || u32::from_le_bytes([b[12], b[13], b[14], b[15]]) != 1 {
            return None;
        }
        let g = |i: usize| u32::from_le_bytes([b[i], b[i + 1], b[i + 2], b[i + 3]]);
        Some((g(0), g(4), g(8)))
    }
}

// ---------------------------------------------------------------------------------------------
// small helpers

pub fn hex_short(b: &[u8]) -> String {
    hex::encode(&b[..b.len().min(4)])
}

/// Sum a numeric coverage field over worker results.
pub fn sum_cov(covs: &[Map<String, Value>], key: &str) -> u64 {
    covs.iter().map(|c| c.get(key).and_then(|v| v.as_u64()).unwrap_or(0)).sum()
}

pub fn cov(pairs: Vec<(&str, Value)>) -> Map<String, Value> {
    pairs.into_iter().map(|(k, v)| (k.to_string(), v)).collect()
}

/// Run a closure catching panics; returns Err(message) on panic.
pub fn catch<T>(f: impl FnOnce() -> T) -> Result<T, String> {
    match std::panic::catch_unwind(std::panic::AssertUnwindSafe(f)) {
        Ok(v) => Ok(v),
        Err(e) => Err(if let Some(s) = e.downcast_ref::<&str>() {
            s.to_string()
        } else if let Some(s) = e.downcast_ref::<String>() {
            s.clone()
        } else {
            "panic".to_string()
        }),
    }
}

/// Silence the default panic hook (subject panics are caught and reported as violations).
pub fn quiet_panics() {
    std::panic::set_hook(Box::new(|_| {}));
}
