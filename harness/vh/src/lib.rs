pub mod core;
pub mod wal;
