pub mod core;
