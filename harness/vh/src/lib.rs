pub mod core;
pub mod wal;
pub mod netsim;
