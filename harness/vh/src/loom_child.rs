//! Shared by c12.rs / c14.rs (included with `#[path]`, not part of the library): runs every loom body of the
//! companion `vh-loom` binary (env `VH_LOOM_EXE`, set by /verif/check) in its own child process — loom failures
//! can abort the process — and folds the reports into evidence counts and `<prop>.sched-*` violations.
//! quick: preemption bound 2; thorough: bound 3 for every body plus unbounded for the 2-thread bodies.
use serde_json::{Value, json};
use vh::core::*;

pub struct LoomOut {
    pub states: u64,
    pub bodies: Vec<Value>,
    pub incomplete: Vec<String>,
}

pub fn run_loom(run: &Run, prop: &str, budget_secs: u64) -> LoomOut {
    let mut out = LoomOut { states: 0, bodies: Vec::new(), incomplete: Vec::new() };
    if std::env::var("VH_SKIP_LOOM").is_ok() {
        run.cap_hit("loom part skipped by VH_SKIP_LOOM (debugging aid)");
        return out;
    }
    let Ok(exe) = std::env::var("VH_LOOM_EXE") else {
        run.machinery_error("VH_LOOM_EXE not set: the loom part (schedules) did not run; start through /verif/check");
        return out;
    };
    let list = match std::process::Command::new(&exe).arg("list").output() {
        Ok(o) if o.status.success() => String::from_utf8_lossy(&o.stdout).to_string(),
        other => {
            run.machinery_error(format!("cannot list loom bodies of {exe}: {other:?}"));
            return out;
        }
    };
    let bodies: Vec<(String, u64, String, String)> = list
        .lines()
        .filter_map(|l| l.strip_prefix("BODY "))
        .filter_map(|j| serde_json::from_str::<Value>(j).ok())
        .map(|v| (v["name"].as_str().unwrap_or("").to_string(), v["threads"].as_u64().unwrap_or(0), v["ops"].as_str().unwrap_or("").to_string(), v["kinds"].as_str().unwrap_or("").to_string()))
        .collect();
    if bodies.is_empty() {
        run.machinery_error("loom binary lists no bodies");
        return out;
    }
    // quick: preemption bound 2. thorough: bound 3, plus unbounded for the 2-thread bodies.
    // jobs in list order (simplest bodies first), so the first witness per signature is the simplest body
    let mut jobs: Vec<(String, String, String, String)> = Vec::new();
    for (name, threads, ops, kinds) in &bodies {
        if run.tier == Tier::Quick {
            jobs.push((name.clone(), "2".into(), ops.clone(), kinds.clone()));
        } else {
            jobs.push((name.clone(), "3".into(), ops.clone(), kinds.clone()));
            if *threads == 2 {
                jobs.push((name.clone(), "unbounded".into(), ops.clone(), kinds.clone()));
            }
        }
    }
    // The child stops by itself at --max-secs (loom looks at the clock every 100 schedules); the parent kills it
    // a little later if it has not, so the caller's wall-clock bound holds even on an oversubscribed machine.
    let deadline = std::time::Instant::now() + std::time::Duration::from_secs(budget_secs + budget_secs / 8 + 2);
    let results = par_map(jobs.len(), |i| {
        let (name, bound, _, _) = &jobs[i];
        let mut child = std::process::Command::new(&exe)
            .args(["run", name, "--preemptions", bound, "--max-secs", &budget_secs.to_string()])
            // keep glibc from returning/re-mapping the large per-iteration allocations (LruCache pre-sizing)
            .env("MALLOC_TRIM_THRESHOLD_", "2000000000")
            .env("MALLOC_MMAP_THRESHOLD_", "1000000000")
            .env("MALLOC_TOP_PAD_", "67108864")
            .stdout(std::process::Stdio::piped())
            .stderr(std::process::Stdio::piped())
            .spawn()?;
        // outputs are one line / a panic message: far below the pipe buffer, so polling before reading cannot block the child
        loop {
            match child.try_wait()? {
                Some(_) => break,
                None if std::time::Instant::now() > deadline => {
                    let _ = child.kill();
                    let _ = child.wait();
                    return Err(std::io::Error::new(std::io::ErrorKind::TimedOut, "killed at the wall-clock cap"));
                }
                None => std::thread::sleep(std::time::Duration::from_millis(10)),
            }
        }
        child.wait_with_output()
    });
    for (i, r) in results.into_iter().enumerate() {
        let (name, bound, ops, kinds) = &jobs[i];
        let o = match r {
            Ok(o) => o,
            Err(e) if e.kind() == std::io::ErrorKind::TimedOut => {
                out.incomplete.push(format!("{name}@{bound} (killed)"));
                out.bodies.push(json!({"body": name, "preemption_bound": bound, "iterations": 0, "complete": false, "verdict": "not finished within the wall-clock cap"}));
                continue;
            }
            Err(e) => {
                run.machinery_error(format!("cannot spawn loom body {name}: {e}"));
                continue;
            }
        };
        let stdout = String::from_utf8_lossy(&o.stdout).to_string();
        let stderr = String::from_utf8_lossy(&o.stderr).to_string();
        let line = stdout.lines().find_map(|l| l.strip_prefix("LOOM ")).and_then(|j| serde_json::from_str::<Value>(j).ok());
        let tail = |s: &str| s.chars().rev().take(3000).collect::<String>().chars().rev().collect::<String>();
        match line {
            Some(v) => {
                let iters = v["iterations"].as_u64().unwrap_or(0);
                out.states += iters;
                let complete = v["complete"].as_bool().unwrap_or(false);
                if !complete {
                    out.incomplete.push(format!("{name}@{bound}"));
                }
                out.bodies.push(json!({"body": name, "preemption_bound": bound, "iterations": iters, "complete": complete, "secs": v["secs"],
                    "distinct_outcomes": v["outcomes"].as_object().map(|m| m.len()).unwrap_or(0), "expected_outcomes": v["expected"].as_array().map(|a| a.len()).unwrap_or(0),
                    "unseen_expected_outcomes": v["unseen"], "verdict": v["verdict"]}));
                if v["verdict"] != "ok" || !o.status.success() {
                    let clause = v["violations"][0]["clause"].as_str().unwrap_or("sched-atomic").to_string();
                    run.violation_lazy(&format!("{prop}.{clause}"), feats(&[("entry", "loom".into()), ("ops", kinds.clone())]), || {
                        (
                            json!({"engine": "loom", "body": name, "threads_ops": ops, "preemption_bound": bound, "replay": format!("{exe} run {name} --preemptions {bound}"), "report": v}),
                            format!("loom body {name} (preemption bound {bound}): {} of {} schedules violate {clause}: {}", v["violating_iterations"], iters, v["violations"][0]["why"].as_str().unwrap_or("")),
                        )
                    });
                }
            }
            None => {
                if stderr.contains("exceeded maximum number of branches") || o.status.code() == Some(2) {
                    run.machinery_error(format!("loom body {name}@{bound}: {}", tail(&stderr)));
                } else {
                    run.violation_lazy(&format!("{prop}.sched-abort"), feats(&[("entry", "loom".into()), ("ops", kinds.clone())]), || {
                        (
                            json!({"engine": "loom", "body": name, "threads_ops": ops, "preemption_bound": bound, "replay": format!("{exe} run {name} --preemptions {bound}"), "exit": format!("{:?}", o.status), "stderr_tail": tail(&stderr), "stdout_tail": tail(&stdout)}),
                            format!("loom body {name} (preemption bound {bound}) died ({:?}): deadlock, leak or panic in a schedule — {}", o.status, stderr.lines().find(|l| l.contains("panicked")).unwrap_or("")),
                        )
                    });
                }
            }
        }
    }
    out
}

