//! E1 netsim — N real `DhtNetworkManager`s on an in-memory wire inside one current-thread tokio runtime
//! with the clock paused, explored by a deviation-bounded DFS over delivery schedules.
//!
//! Owned nondeterminism: which pending frame is delivered or dropped next, when virtual time advances,
//! and scenario events (client operation start, abort, stop(), hostile frame injection).
use saorsa_core::dht_network_manager::{DhtMessageType, DhtNetworkConfig, DhtNetworkManager, DhtNetworkMessage, DhtNetworkOperation, DhtNetworkResult};
use saorsa_core::transport_handle::TransportHandle;
use saorsa_core::verif_hooks::{self, AntPeerId, VerifSocket};
use serde_json::{Value, json};
use std::collections::{BTreeMap, BTreeSet, HashMap, VecDeque};
use std::net::SocketAddr;
use std::sync::{Arc, Mutex};
use std::time::Duration;
use tokio::sync::Notify;

pub const REQUEST_TIMEOUT: Duration = Duration::from_secs(5);
pub const CONNECT_TIMEOUT: Duration = Duration::from_secs(5);

pub fn dht_key_of(id: &str) -> [u8; 32] {
    saorsa_core::dht::derive_dht_key_from_peer_id(id)
}

/// Deterministic transport id (32 bytes -> 64 hex chars) whose DHT key starts with the `bits` low bits of
/// `prefix` (MSB first). `salt` separates independent choices with the same prefix.
pub fn tid_with_prefix(prefix: u32, bits: u32, salt: u32) -> [u8; 32] {
    let mut ctr: u64 = 0;
    loop {
        let mut h = blake3::Hasher::new();
        h.update(b"vh-netsim-id");
        h.update(&prefix.to_le_bytes());
        h.update(&bits.to_le_bytes());
        h.update(&salt.to_le_bytes());
        h.update(&ctr.to_le_bytes());
        let id: [u8; 32] = *h.finalize().as_bytes();
        let key = dht_key_of(&hex::encode(id));
        let top = u32::from_be_bytes([key[0], key[1], key[2], key[3]]);
        if bits == 0 || top >> (32 - bits) == prefix {
            return id;
        }
        ctr += 1;
    }
}

/// Application-level id whose DHT key has the wanted prefix.
pub fn app_id_with_prefix(prefix: u32, bits: u32, salt: u32) -> String {
    let mut ctr: u64 = 0;
    loop {
        let id = format!("peer_{salt:02x}{ctr:06x}");
        let key = dht_key_of(&id);
        let top = u32::from_be_bytes([key[0], key[1], key[2], key[3]]);
        if bits == 0 || top >> (32 - bits) == prefix {
            return id;
        }
        ctr += 1;
    }
}

pub fn key_with_prefix(prefix: u32, bits: u32, salt: u32) -> [u8; 32] {
    let mut k = *blake3::hash(format!("vh-key-{salt}").as_bytes()).as_bytes();
    if bits > 0 {
        let top = u32::from_be_bytes([k[0], k[1], k[2], k[3]]);
        let mask = if bits == 32 { u32::MAX } else { !(u32::MAX >> bits) };
        let v = (top & !mask) | (prefix << (32 - bits));
        k[..4].copy_from_slice(&v.to_be_bytes());
    }
    k
}

pub fn xor_dist(a: &[u8; 32], b: &[u8; 32]) -> [u8; 32] {
    let mut d = [0u8; 32];
    for i in 0..32 {
        d[i] = a[i] ^ b[i];
    }
    d
}

// ---------------------------------------------------------------------------------------------
// Wire

#[derive(Clone, Debug)]
pub struct FrameInfo {
    pub protocol: String,
    /// decoded DHT message, if the frame carries one
    pub dht: Option<DhtNetworkMessage>,
    /// (/rr/ message id, is_response)
    pub rr: Option<(String, bool)>,
    pub from_field: String,
}

impl FrameInfo {
    pub fn kind(&self) -> String {
        if let Some(m) = &self.dht {
            let t = match m.message_type {
                DhtMessageType::Request => "req",
                DhtMessageType::Response => "rsp",
                DhtMessageType::Broadcast => "bcast",
                DhtMessageType::Error => "err",
            };
            format!("dht-{t}-{}", op_name(&m.payload))
        } else if let Some((_, r)) = &self.rr {
            format!("rr-{}", if *r { "rsp" } else { "req" })
        } else {
            format!("other:{}", self.protocol)
        }
    }
    pub fn is_dht_request(&self) -> bool {
        matches!(&self.dht, Some(m) if matches!(m.message_type, DhtMessageType::Request))
    }
}

pub fn op_name(op: &DhtNetworkOperation) -> &'static str {
    match op {
        DhtNetworkOperation::Put { .. } => "put",
        DhtNetworkOperation::Get { .. } => "get",
        DhtNetworkOperation::FindNode { .. } => "find_node",
        DhtNetworkOperation::FindValue { .. } => "find_value",
        DhtNetworkOperation::Ping => "ping",
        DhtNetworkOperation::Join => "join",
        DhtNetworkOperation::Leave => "leave",
    }
}

#[derive(Clone, Debug)]
pub struct Frame {
    pub seq: u64,
    pub src: String,
    pub dst: String,
    pub pair_seq: u64,
    pub bytes: Vec<u8>,
    pub info: FrameInfo,
    pub sent_at: tokio::time::Instant,
    pub delivered_at: Option<tokio::time::Instant>,
}

#[derive(Clone, Debug)]
pub enum Ev {
    Dial { from: String, to_addr: SocketAddr, ok: bool },
    SendAttempt { from: String, to: String, protocol: String },
    Sent { seq: u64, from: String, to: String, kind: String, msg_id: String },
    Delivered { seq: u64, from: String, to: String, kind: String, msg_id: String },
    Dropped { seq: u64, from: String, to: String, kind: String, why: &'static str },
    SendRefused { from: String, to: String },
    Time { now_ms: u64 },
    Note(String),
}

pub struct Endpoint {
    pub tid: [u8; 32],
    pub hex: String,
    pub addr: SocketAddr,
    pub inbound: Option<tokio::sync::mpsc::Sender<(AntPeerId, Vec<u8>)>>,
    pub accept_q: VecDeque<(AntPeerId, SocketAddr)>,
    pub accept_notify: Arc<Notify>,
    pub conns: BTreeSet<String>,
    pub closed: bool,
    pub scripted: bool,
    /// frames addressed to this endpoint vanish (it never answers)
    pub silent: bool,
    /// frames sent BY this endpoint become deliverable only after this delay
    pub slow_by: Option<Duration>,
    /// dialling this endpoint fails
    pub undialable: bool,
    /// sends from this endpoint fail
    pub send_fails: bool,
    /// sends from this endpoint block until `send_gate` is notified (reaches the window between a request's
    /// registration in the pending table and its hand-over to the wire)
    pub hold_sends: bool,
    pub send_gate: Arc<Notify>,
    /// scripted endpoint that answers INSIDE the sender's socket send: the reply is already in the sender's inbound
    /// channel when send() returns (reaches orderings in which a reply overtakes the sender's own bookkeeping)
    pub instant_reply: Option<Arc<dyn Fn(&Frame) -> Option<Vec<u8>> + Send + Sync>>,
}

#[derive(Default)]
pub struct WorldState {
    pub eps: BTreeMap<String, Endpoint>,
    pub by_addr: HashMap<SocketAddr, String>,
    pub pending: Vec<Frame>,
    pub next_seq: u64,
    pub pair_seq: HashMap<(String, String), u64>,
    pub trace: Vec<Ev>,
    /// every frame that reached its destination, in delivery order
    pub delivered: Vec<Frame>,
    /// virtual send time of every DHT request, by message id
    pub sent_times: HashMap<String, tokio::time::Instant>,
}

#[derive(Clone)]
pub struct World(pub Arc<Mutex<WorldState>>);

fn decode_info(bytes: &[u8]) -> FrameInfo {
    match verif_hooks::unframe(bytes) {
        Some((protocol, data, from, _ts)) => {
            let dht = if protocol == "/dht/1.0.0" { postcard::from_bytes::<DhtNetworkMessage>(&data).ok() } else { None };
            let rr = if protocol.starts_with("/rr/") { TransportHandle::parse_request_envelope(&data).map(|(id, r, _)| (id, r)) } else { None };
            FrameInfo { protocol, dht, rr, from_field: from }
        }
        None => FrameInfo { protocol: "?".into(), dht: None, rr: None, from_field: String::new() },
    }
}

impl World {
    pub fn new() -> World {
        World(Arc::new(Mutex::new(WorldState::default())))
    }
    pub fn add_endpoint(&self, tid: [u8; 32], addr: SocketAddr, scripted: bool) -> Arc<Sock> {
        let hexid = hex::encode(tid);
        let mut w = self.0.lock().unwrap();
        w.by_addr.insert(addr, hexid.clone());
        w.eps.insert(
            hexid.clone(),
            Endpoint { tid, hex: hexid.clone(), addr, inbound: None, accept_q: VecDeque::new(), accept_notify: Arc::new(Notify::new()), conns: BTreeSet::new(), closed: false, scripted, silent: false, slow_by: None, undialable: false, send_fails: false, hold_sends: false, send_gate: Arc::new(Notify::new()), instant_reply: None },
        );
        Arc::new(Sock { world: self.clone(), me: hexid, tid })
    }
    pub fn with<R>(&self, f: impl FnOnce(&mut WorldState) -> R) -> R {
        f(&mut self.0.lock().unwrap())
    }
    /// Enqueue a frame as if `src` had sent it to `dst` (used by scripted peers and hostile injection).
    pub fn enqueue(&self, src: &str, dst: &str, bytes: Vec<u8>) {
        let mut w = self.0.lock().unwrap();
        push_frame(&mut w, src, dst, bytes);
    }
    /// Pending frames in canonical order: (per-pair sequence, src, dst). Only frames whose delay has elapsed.
    pub fn deliverable(&self) -> Vec<Frame> {
        let now = tokio::time::Instant::now();
        let w = self.0.lock().unwrap();
        let mut v: Vec<Frame> = w
            .pending
            .iter()
            .filter(|f| match w.eps.get(&f.src).and_then(|e| e.slow_by) {
                Some(d) => now >= f.sent_at + d,
                None => true,
            })
            .cloned()
            .collect();
        v.sort_by(|a, b| (a.pair_seq, &a.src, &a.dst).cmp(&(b.pair_seq, &b.src, &b.dst)));
        v
    }
    pub fn pending_count(&self) -> usize {
        self.0.lock().unwrap().pending.len()
    }
    /// Deliver frame `seq` to its destination's dispatcher. Returns the frame (for scripted handling).
    pub fn deliver(&self, seq: u64) -> Option<Frame> {
        let mut w = self.0.lock().unwrap();
        let pos = w.pending.iter().position(|f| f.seq == seq)?;
        let f = w.pending.remove(pos);
        let msg_id = f.info.dht.as_ref().map(|m| m.message_id.clone()).or_else(|| f.info.rr.as_ref().map(|r| r.0.clone())).unwrap_or_default();
        let (silent, closed, scripted, has_conn) = match w.eps.get(&f.dst) {
            Some(e) => (e.silent, e.closed, e.scripted, e.conns.contains(&f.src)),
            None => (false, true, false, false),
        };
        if silent || closed || !has_conn {
            let why = if silent { "destination-silent" } else if closed { "destination-closed" } else { "no-connection" };
            w.trace.push(Ev::Dropped { seq: f.seq, from: f.src.clone(), to: f.dst.clone(), kind: f.info.kind(), why });
            return None;
        }
        w.trace.push(Ev::Delivered { seq: f.seq, from: f.src.clone(), to: f.dst.clone(), kind: f.info.kind(), msg_id });
        let mut fd = f.clone();
        fd.delivered_at = Some(tokio::time::Instant::now());
        w.delivered.push(fd);
        if !scripted {
            let mut src_tid = [0u8; 32];
            if let Ok(b) = hex::decode(&f.src) {
                if b.len() == 32 {
                    src_tid.copy_from_slice(&b);
                }
            }
            if let Some(tx) = w.eps.get(&f.dst).and_then(|e| e.inbound.clone()) {
                let _ = tx.try_send((AntPeerId(src_tid), f.bytes.clone()));
            }
        }
        Some(f)
    }
    pub fn drop_frame(&self, seq: u64) {
        let mut w = self.0.lock().unwrap();
        if let Some(pos) = w.pending.iter().position(|f| f.seq == seq) {
            let f = w.pending.remove(pos);
            w.trace.push(Ev::Dropped { seq: f.seq, from: f.src, to: f.dst, kind: f.info.kind(), why: "dropped-by-schedule" });
        }
    }
    /// Inject raw bytes into `dst`'s dispatcher with an arbitrary authenticated sender id.
    pub fn inject(&self, dst: &str, sender_tid: [u8; 32], bytes: Vec<u8>) {
        let w = self.0.lock().unwrap();
        if let Some(tx) = w.eps.get(dst).and_then(|e| e.inbound.clone()) {
            let _ = tx.try_send((AntPeerId(sender_tid), bytes));
        }
    }
    pub fn trace(&self) -> Vec<Ev> {
        self.0.lock().unwrap().trace.clone()
    }
    /// Release sends held at endpoint `me`.
    pub fn release_sends(&self, me: &str) {
        let mut w = self.0.lock().unwrap();
        if let Some(e) = w.eps.get_mut(me) {
            e.hold_sends = false;
            e.send_gate.notify_waiters();
        }
    }
    pub fn note(&self, s: impl Into<String>) {
        self.0.lock().unwrap().trace.push(Ev::Note(s.into()));
    }
}

fn push_frame(w: &mut WorldState, src: &str, dst: &str, bytes: Vec<u8>) {
    let seq = w.next_seq;
    w.next_seq += 1;
    let ps = w.pair_seq.entry((src.to_string(), dst.to_string())).or_insert(0);
    *ps += 1;
    let pair_seq = *ps;
    let info = decode_info(&bytes);
    let msg_id = info.dht.as_ref().map(|m| m.message_id.clone()).or_else(|| info.rr.as_ref().map(|r| r.0.clone())).unwrap_or_default();
    if info.is_dht_request() {
        w.sent_times.insert(msg_id.clone(), tokio::time::Instant::now());
    }
    w.trace.push(Ev::Sent { seq, from: src.to_string(), to: dst.to_string(), kind: info.kind(), msg_id });
    w.pending.push(Frame { seq, src: src.to_string(), dst: dst.to_string(), pair_seq, bytes, info, sent_at: tokio::time::Instant::now(), delivered_at: None });
}

pub struct Sock {
    world: World,
    me: String,
    tid: [u8; 32],
}

#[async_trait::async_trait]
impl VerifSocket for Sock {
    fn local_id(&self) -> AntPeerId {
        AntPeerId(self.tid)
    }
    async fn connect(&self, targets: &[SocketAddr]) -> Result<AntPeerId, String> {
        let mut w = self.world.0.lock().unwrap();
        for t in targets {
            let Some(dst) = w.by_addr.get(t).cloned() else {
                w.trace.push(Ev::Dial { from: self.me.clone(), to_addr: *t, ok: false });
                continue;
            };
            let ok = w.eps.get(&dst).map(|e| !e.closed && !e.undialable).unwrap_or(false) && w.eps.get(&self.me).map(|e| !e.closed).unwrap_or(false);
            w.trace.push(Ev::Dial { from: self.me.clone(), to_addr: *t, ok });
            if !ok {
                continue;
            }
            let my_addr = w.eps[&self.me].addr;
            let dst_tid = w.eps[&dst].tid;
            let already = w.eps[&self.me].conns.contains(&dst);
            w.eps.get_mut(&self.me).unwrap().conns.insert(dst.clone());
            let e = w.eps.get_mut(&dst).unwrap();
            e.conns.insert(self.me.clone());
            if !already {
                e.accept_q.push_back((AntPeerId(self.tid), my_addr));
                e.accept_notify.notify_one();
            }
            return Ok(AntPeerId(dst_tid));
        }
        Err("no reachable target".into())
    }
    async fn send(&self, peer_id: &str, data: &[u8]) -> Result<(), String> {
        loop {
            let gate = {
                let w = self.world.0.lock().unwrap();
                match w.eps.get(&self.me) {
                    Some(e) if e.hold_sends => Some(e.send_gate.clone()),
                    _ => None,
                }
            };
            match gate {
                Some(g) => g.notified().await,
                None => break,
            }
        }
        let mut w = self.world.0.lock().unwrap();
        let ok = w.eps.get(&self.me).map(|e| !e.closed && !e.send_fails && e.conns.contains(peer_id)).unwrap_or(false);
        if !ok {
            w.trace.push(Ev::SendRefused { from: self.me.clone(), to: peer_id.to_string() });
            return Err("not connected".into());
        }
        push_frame(&mut w, &self.me.clone(), peer_id, data.to_vec());
        // instant responder: take the frame off the wire and put the answer into the sender's inbound channel now
        if let Some(f) = w.eps.get(peer_id).and_then(|e| e.instant_reply.clone()) {
            if let Some(fr) = w.pending.pop() {
                w.trace.push(Ev::Delivered { seq: fr.seq, from: fr.src.clone(), to: fr.dst.clone(), kind: fr.info.kind(), msg_id: String::new() });
                if let Some(reply) = f(&fr) {
                    let mut tid = [0u8; 32];
                    if let Ok(b) = hex::decode(peer_id) {
                        if b.len() == 32 {
                            tid.copy_from_slice(&b);
                        }
                    }
                    if let Some(tx) = w.eps.get(&self.me).and_then(|e| e.inbound.clone()) {
                        let _ = tx.try_send((AntPeerId(tid), reply));
                    }
                }
            }
        }
        Ok(())
    }
    async fn accept(&self) -> Option<(AntPeerId, SocketAddr)> {
        loop {
            let notify = {
                let mut w = self.world.0.lock().unwrap();
                let e = w.eps.get_mut(&self.me)?;
                if let Some(x) = e.accept_q.pop_front() {
                    return Some(x);
                }
                if e.closed {
                    return None;
                }
                e.accept_notify.clone()
            };
            notify.notified().await;
        }
    }
    async fn disconnect(&self, peer_id: &str) {
        let mut w = self.world.0.lock().unwrap();
        if let Some(e) = w.eps.get_mut(&self.me) {
            e.conns.remove(peer_id);
        }
        let me = self.me.clone();
        if let Some(e) = w.eps.get_mut(peer_id) {
            e.conns.remove(&me);
        }
    }
    async fn shutdown(&self) {
        let mut w = self.world.0.lock().unwrap();
        if let Some(e) = w.eps.get_mut(&self.me) {
            e.closed = true;
            e.inbound = None;
            e.accept_notify.notify_one();
        }
    }
    fn attach_inbound(&self, tx: tokio::sync::mpsc::Sender<(AntPeerId, Vec<u8>)>) {
        let mut w = self.world.0.lock().unwrap();
        if let Some(e) = w.eps.get_mut(&self.me) {
            e.inbound = Some(tx);
        }
    }
    fn send_attempt(&self, peer_id: &str, protocol: &str) {
        let mut w = self.world.0.lock().unwrap();
        w.trace.push(Ev::SendAttempt { from: self.me.clone(), to: peer_id.to_string(), protocol: protocol.to_string() });
    }
}

// ---------------------------------------------------------------------------------------------
// Nodes

pub struct SimNode {
    pub mgr: Arc<DhtNetworkManager>,
    pub transport: Arc<TransportHandle>,
    pub tid: [u8; 32],
    pub tid_hex: String,
    pub app_id: String,
    pub addr: SocketAddr,
    /// position other nodes see (DHT key of the transport id)
    pub pos: [u8; 32],
    /// position the node itself uses (DHT key of its app-level id)
    pub self_pos: [u8; 32],
}

pub struct NodeSpec {
    pub tid: [u8; 32],
    /// None: app-level id = transport id (one position per node)
    pub app_id: Option<String>,
    pub k: usize,
}

pub fn node_addr(i: usize) -> SocketAddr {
    format!("{}.{}.0.1:9000", 11 + i, 1 + i).parse().unwrap()
}

pub async fn make_node(world: &World, i: usize, spec: &NodeSpec) -> SimNode {
    make_node_at(world, node_addr(i), spec).await
}

pub async fn make_node_at(world: &World, addr: SocketAddr, spec: &NodeSpec) -> SimNode {
    // instrumented lock-section boundaries yield once: other runnable tasks interleave there
    verif_hooks::set_sched_yields(1);
    // peer lists taken from hash maps (the goodbye order of stop()) are put in ascending order unless the scenario
    // chose another one: hash-map iteration order is random per process and would make prefixes unreplayable
    if PEER_ORDER_SET.with(|c| !c.get()) {
        verif_hooks::set_peer_order(1);
    }
    let tid_hex = hex::encode(spec.tid);
    let sock = world.add_endpoint(spec.tid, addr, false);
    let app_id = spec.app_id.clone().unwrap_or_else(|| tid_hex.clone());
    let rl = saorsa_core::validation::RateLimitConfig { max_requests: 10_000, burst_size: 10_000, window: Duration::from_secs(1), ..Default::default() };
    let transport = Arc::new(TransportHandle::new_verif(app_id.clone(), sock, CONNECT_TIMEOUT, rl));
    transport.start_network_listeners().await.expect("listeners");
    let mut cfg = DhtNetworkConfig::default();
    cfg.local_peer_id = app_id.clone();
    cfg.request_timeout = REQUEST_TIMEOUT;
    cfg.replication_factor = spec.k;
    cfg.node_config.listen_addr = addr;
    let mgr = Arc::new(DhtNetworkManager::new(transport.clone(), None, cfg).await.expect("manager"));
    mgr.start().await.expect("start");
    SimNode { mgr, transport, tid: spec.tid, tid_hex: tid_hex.clone(), app_id: app_id.clone(), addr, pos: dht_key_of(&tid_hex), self_pos: dht_key_of(&app_id) }
}

thread_local! {
    static PEER_ORDER_SET: std::cell::Cell<bool> = const { std::cell::Cell::new(false) };
}

/// Scenario choice: order (1 ascending, 2 descending) in which a stopping node says goodbye to its peers.
pub fn choose_peer_order(mode: u8) {
    PEER_ORDER_SET.with(|c| c.set(true));
    verif_hooks::set_peer_order(mode);
}

/// Run until every other task is blocked (paused clock: the 1 ns timer only fires when the runtime is idle).
pub async fn settle() {
    tokio::time::sleep(Duration::from_nanos(1)).await;
}

pub fn paused_runtime() -> tokio::runtime::Runtime {
    // `tokio::select!` picks among ready branches with the runtime's RNG: seeded (tokio_unstable), so that a
    // schedule prefix replays to the same execution
    tokio::runtime::Builder::new_current_thread().enable_all().start_paused(true).rng_seed(tokio::runtime::RngSeed::from_bytes(b"vh-netsim")).build().expect("runtime")
}

/// a dials b (production connect path), then both sides settle.
pub async fn connect(nodes: &[SimNode], a: usize, b: usize) -> bool {
    let r = nodes[a].transport.connect_peer(&nodes[b].addr.to_string()).await;
    settle().await;
    r.is_ok()
}

// ---------------------------------------------------------------------------------------------
// Schedule exploration

#[derive(Clone, Debug)]
pub enum Action {
    Deliver(Frame),
    /// deliver every currently deliverable frame at once (their handlers then run interleaved at the
    /// instrumented scheduling points)
    DeliverBurst(Vec<Frame>),
    Drop(Frame),
    /// let virtual time pass (fires due timers)
    Advance,
    /// scenario-defined event k
    Extra(usize),
    /// nothing left to do
    Done,
}

#[derive(Clone, Debug)]
pub struct Point {
    pub alts: usize,
    pub chosen: usize,
    pub desc: String,
}

/// Chooses the next action of one execution: follows `prefix`, then the default (alternative 0).
/// Default environment: deliver the canonical-first deliverable frame; if none, let time pass while work is
/// outstanding; otherwise done. Every other alternative is a deviation: deliver another frame, drop a
/// frame, let time pass although frames are deliverable, or a scenario event.
pub struct Chooser {
    pub prefix: Vec<usize>,
    pub points: Vec<Point>,
    pub allow_drop: bool,
    pub allow_reorder: bool,
    pub allow_early_time: bool,
    pub allow_burst: bool,
}

impl Chooser {
    pub fn new(prefix: &[usize]) -> Chooser {
        Chooser { prefix: prefix.to_vec(), points: Vec::new(), allow_drop: true, allow_reorder: true, allow_early_time: true, allow_burst: false }
    }
    pub fn next(&mut self, world: &World, work_outstanding: bool, extras: &[String]) -> Action {
        let frames = world.deliverable();
        let any_pending = world.pending_count() > 0;
        let mut menu: Vec<(Action, String)> = Vec::new();
        if let Some(f) = frames.first() {
            menu.push((Action::Deliver(f.clone()), format!("deliver {}", fdesc(f))));
        } else if work_outstanding || any_pending {
            menu.push((Action::Advance, "advance time".into()));
        } else {
            menu.push((Action::Done, "done".into()));
        }
        if self.allow_reorder {
            for f in frames.iter().skip(1) {
                menu.push((Action::Deliver(f.clone()), format!("deliver out of order {}", fdesc(f))));
            }
        }
        if self.allow_drop {
            for f in frames.iter() {
                menu.push((Action::Drop(f.clone()), format!("drop {}", fdesc(f))));
            }
        }
        if self.allow_early_time && !frames.is_empty() {
            menu.push((Action::Advance, "advance time early".into()));
        }
        if self.allow_burst && frames.len() >= 2 {
            menu.push((Action::DeliverBurst(frames.clone()), format!("deliver {} frames at once", frames.len())));
        }
        for (k, e) in extras.iter().enumerate() {
            menu.push((Action::Extra(k), e.clone()));
        }
        let idx = self.points.len();
        let chosen = if idx < self.prefix.len() { self.prefix[idx] } else { 0 };
        if chosen >= menu.len() {
            // replay divergence: hard error (caller turns it into a machinery error)
            self.points.push(Point { alts: menu.len(), chosen: usize::MAX, desc: format!("DIVERGED: choice {chosen} of {}", menu.len()) });
            return Action::Done;
        }
        let (a, d) = menu[chosen].clone();
        self.points.push(Point { alts: menu.len(), chosen, desc: d });
        a
    }
    pub fn diverged(&self) -> bool {
        self.points.iter().any(|p| p.chosen == usize::MAX)
    }
}

pub fn short(id: &str) -> String {
    id.chars().take(6).collect()
}

pub fn fdesc(f: &Frame) -> String {
    format!("{}->{} {}#{}", short(&f.src), short(&f.dst), f.info.kind(), f.pair_seq)
}

/// Result of one execution as seen by the explorer.
pub struct Exec {
    pub points: Vec<Point>,
    pub diverged: bool,
    /// digest of the observation (for distinct-outcome counting and the replay self-check)
    pub obs: u64,
}

#[derive(Default, Clone, Debug)]
pub struct ExploreStats {
    pub executions: u64,
    pub choice_points: u64,
    pub max_len: usize,
    pub by_deviations: Vec<u64>,
    pub distinct_obs: BTreeSet<u64>,
    pub diverged: u64,
    pub capped: bool,
}

/// Deviation-bounded DFS: all executions with 0 deviations, then every single deviation at every choice
/// point, recursively up to `bound` deviations.
pub fn explore(bound: usize, budget: &crate::core::Budget, run_one: &mut dyn FnMut(&[usize]) -> Exec) -> ExploreStats {
    let mut st = ExploreStats { by_deviations: vec![0; bound + 1], ..Default::default() };
    fn rec(prefix: Vec<usize>, devs: usize, bound: usize, budget: &crate::core::Budget, run_one: &mut dyn FnMut(&[usize]) -> Exec, st: &mut ExploreStats) {
        if budget.exceeded() {
            st.capped = true;
            return;
        }
        let x = run_one(&prefix);
        st.executions += 1;
        st.by_deviations[devs] += 1;
        st.choice_points += x.points.len() as u64;
        st.max_len = st.max_len.max(x.points.len());
        st.distinct_obs.insert(x.obs);
        if x.diverged {
            st.diverged += 1;
            return;
        }
        if devs >= bound {
            return;
        }
        for i in prefix.len()..x.points.len() {
            for alt in 1..x.points[i].alts {
                let mut p: Vec<usize> = x.points[..i].iter().map(|q| q.chosen).collect();
                p.push(alt);
                rec(p, devs + 1, bound, budget, run_one, st);
            }
        }
    }
    rec(Vec::new(), 0, bound, budget, run_one, &mut st);
    st
}

// ---------------------------------------------------------------------------------------------
// Scripted peers: build real frames

pub fn now_secs() -> u64 {
    std::time::SystemTime::now().duration_since(std::time::UNIX_EPOCH).map(|d| d.as_secs()).unwrap_or(0)
}

pub fn dht_frame(from_app_id: &str, msg: &DhtNetworkMessage) -> Vec<u8> {
    let data = postcard::to_stdvec(msg).expect("serialize");
    verif_hooks::frame("/dht/1.0.0", data, from_app_id, now_secs())
}

pub fn dht_response(req: &DhtNetworkMessage, responder_app_id: &str, result: DhtNetworkResult) -> DhtNetworkMessage {
    DhtNetworkMessage {
        message_id: req.message_id.clone(),
        source: responder_app_id.to_string(),
        target: Some(req.source.clone()),
        message_type: DhtMessageType::Response,
        payload: req.payload.clone(),
        result: Some(result),
        timestamp: now_secs(),
        ttl: 9,
        hop_count: 1,
    }
}

pub fn trace_json(t: &[Ev], names: &BTreeMap<String, String>) -> Value {
    let nm = |s: &String| names.get(s).cloned().unwrap_or_else(|| short(s));
    json!(t.iter().map(|e| match e {
        Ev::Dial { from, to_addr, ok } => format!("dial {} -> {} {}", nm(from), to_addr, if *ok { "ok" } else { "FAILED" }),
        Ev::SendAttempt { from, to, protocol } => format!("attempt {} -> {} {}", nm(from), nm(to), protocol),
        Ev::Sent { seq, from, to, kind, .. } => format!("sent #{seq} {} -> {} {}", nm(from), nm(to), kind),
        Ev::Delivered { seq, from, to, kind, .. } => format!("delivered #{seq} {} -> {} {}", nm(from), nm(to), kind),
        Ev::Dropped { seq, from, to, kind, why } => format!("dropped #{seq} {} -> {} {} ({why})", nm(from), nm(to), kind),
        Ev::SendRefused { from, to } => format!("send refused {} -> {}", nm(from), nm(to)),
        Ev::Time { now_ms } => format!("time {now_ms} ms"),
        Ev::Note(s) => format!("note: {s}"),
    }).collect::<Vec<_>>())
}

// ---------------------------------------------------------------------------------------------
// Common network construction for the scenario binaries

#[derive(Clone, Debug)]
pub struct NetCfg {
    pub n: usize,
    pub edges: Vec<(usize, usize)>,
    /// 4-bit (or `bits`-bit) DHT-key prefix of each node's position
    pub prefix: Vec<u32>,
    pub bits: u32,
    pub k: usize,
    pub distinct_app_id: bool,
    pub silent: Vec<bool>,
}

impl NetCfg {
    pub fn json(&self) -> Value {
        json!({"nodes": self.n, "edges": self.edges, "key_prefix_of_node": self.prefix, "prefix_bits": self.bits, "k": self.k, "distinct_app_id": self.distinct_app_id,
               "silent": self.silent.iter().enumerate().filter(|(_, s)| **s).map(|(i, _)| i).collect::<Vec<_>>()})
    }
}

pub struct Net {
    pub world: World,
    pub nodes: Vec<SimNode>,
    pub names: BTreeMap<String, String>,
}

impl Net {
    /// Node index of an identifier string in any of its forms (transport id, app id, key alias).
    pub fn ident(&self, pid: &str) -> Option<usize> {
        self.nodes.iter().position(|n| pid == n.tid_hex || pid == n.app_id || pid == hex::encode(n.pos) || pid == hex::encode(n.self_pos))
    }
}

pub async fn build_net(cfg: &NetCfg) -> Net {
    verif_hooks::clear_sockets();
    let world = World::new();
    let mut nodes = Vec::new();
    for i in 0..cfg.n {
        let tid = tid_with_prefix(cfg.prefix[i], cfg.bits, i as u32);
        let app = if cfg.distinct_app_id { Some(app_id_with_prefix(cfg.prefix[i], cfg.bits, 100 + i as u32)) } else { None };
        nodes.push(make_node(&world, i, &NodeSpec { tid, app_id: app, k: cfg.k }).await);
    }
    for &(a, b) in &cfg.edges {
        let _ = nodes[a].transport.connect_peer(&nodes[b].addr.to_string()).await;
        settle().await;
    }
    for i in 0..cfg.n {
        if cfg.silent.get(i).copied().unwrap_or(false) {
            let h = nodes[i].tid_hex.clone();
            world.with(|w| w.eps.get_mut(&h).unwrap().silent = true);
        }
    }
    let mut names = BTreeMap::new();
    for (i, nd) in nodes.iter().enumerate() {
        names.insert(nd.tid_hex.clone(), format!("N{i}"));
        names.insert(hex::encode(nd.pos), format!("N{i}(key-alias)"));
        if nd.app_id != nd.tid_hex {
            names.insert(nd.app_id.clone(), format!("N{i}(app)"));
        }
    }
    Net { world, nodes, names }
}

pub fn connected_graphs(n: usize) -> Vec<Vec<(usize, usize)>> {
    let pairs: Vec<(usize, usize)> = (0..n).flat_map(|a| (a + 1..n).map(move |b| (a, b))).collect();
    let mut out = Vec::new();
    for mask in 0u32..(1 << pairs.len()) {
        let edges: Vec<(usize, usize)> = pairs.iter().enumerate().filter(|(i, _)| mask >> i & 1 == 1).map(|(_, e)| *e).collect();
        let mut seen = vec![false; n];
        let mut st = vec![0usize];
        seen[0] = true;
        while let Some(x) = st.pop() {
            for &(a, b) in &edges {
                let y = if a == x { b } else if b == x { a } else { continue };
                if !seen[y] {
                    seen[y] = true;
                    st.push(y);
                }
            }
        }
        if seen.iter().all(|s| *s) {
            out.push(edges);
        }
    }
    out
}

/// Drive the world with `ch` until `finished()` holds and the wire is empty (or the horizon is hit).
/// Returns false if the horizon was hit.
pub async fn drive(world: &World, ch: &mut Chooser, finished: &dyn Fn() -> bool, horizon: Duration, extras: &dyn Fn() -> Vec<String>, on_extra: &mut dyn FnMut(usize), on_deliver: &mut dyn FnMut(&Frame)) -> bool {
    let t0 = tokio::time::Instant::now();
    loop {
        settle().await;
        let done = finished();
        let ex = extras();
        match ch.next(world, !done, &ex) {
            Action::Deliver(f) => {
                if let Some(fr) = world.deliver(f.seq) {
                    on_deliver(&fr);
                }
            }
            Action::DeliverBurst(fs) => {
                for f in fs {
                    if let Some(fr) = world.deliver(f.seq) {
                        on_deliver(&fr);
                    }
                }
            }
            Action::Drop(f) => world.drop_frame(f.seq),
            Action::Advance => {
                tokio::time::sleep(REQUEST_TIMEOUT).await;
                let ms = t0.elapsed().as_millis() as u64;
                world.with(|w| w.trace.push(Ev::Time { now_ms: ms }));
            }
            Action::Extra(k) => on_extra(k),
            Action::Done => return true,
        }
        if t0.elapsed() > horizon || ch.points.len() > 4000 {
            return false;
        }
    }
}
