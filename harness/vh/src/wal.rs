//! Shared driver for C06 (crash points) and C07 (corruption) over the real `PersistentStateManager`.
use saorsa_core::persistent_state::{FlushStrategy, PersistentStateManager, RecoveryMode, RecoveryStats, StateConfig, WalEntry};
use serde_json::{Value, json};
use std::cell::RefCell;
use std::collections::BTreeMap;
use std::path::{Path, PathBuf};
use std::rc::Rc;
use std::time::Duration;

pub type Files = BTreeMap<String, Vec<u8>>;
pub type Model = BTreeMap<String, u32>;
pub type Mgr = PersistentStateManager<u32>;
/// virtual wall-clock origin (seconds) used for file names and record timestamps
pub const T0: u64 = 1_800_000_000;

#[derive(Clone, Debug, PartialEq, Eq, Hash)]
pub enum Op {
    Up(&'static str),
    Del(&'static str),
    /// batch: upsert both keys
    BatchUpUp(&'static str, &'static str),
    /// batch: upsert first, delete second
    BatchUpDel(&'static str, &'static str),
    Checkpoint,
}

impl Op {
    pub fn kind(&self) -> &'static str {
        match self {
            Op::Up(_) => "upsert",
            Op::Del(_) => "delete",
            Op::BatchUpUp(..) | Op::BatchUpDel(..) => "batch",
            Op::Checkpoint => "checkpoint",
        }
    }
    pub fn json(&self, idx: usize) -> Value {
        let v = value_of(idx);
        match self {
            Op::Up(k) => json!({"upsert": [k, v]}),
            Op::Del(k) => json!({"delete": k}),
            Op::BatchUpUp(a, b) => json!({"batch": [{"upsert": [a, v]}, {"upsert": [b, v + 1]}]}),
            Op::BatchUpDel(a, b) => json!({"batch": [{"upsert": [a, v]}, {"delete": b}]}),
            Op::Checkpoint => json!("checkpoint"),
        }
    }
}

/// The value written by the op at position `idx` of a history is unique to that position.
pub fn value_of(idx: usize) -> u32 {
    1000 + 10 * idx as u32
}

pub fn model_apply(m: &mut Model, op: &Op, idx: usize) {
    let v = value_of(idx);
    match op {
        Op::Up(k) => {
            m.insert(k.to_string(), v);
        }
        Op::Del(k) => {
            m.remove(*k);
        }
        Op::BatchUpUp(a, b) => {
            m.insert(a.to_string(), v);
            m.insert(b.to_string(), v + 1);
        }
        Op::BatchUpDel(a, b) => {
            m.insert(a.to_string(), v);
            m.remove(*b);
        }
        Op::Checkpoint => {}
    }
}

pub async fn real_apply(mgr: &Mgr, op: &Op, idx: usize) -> Result<(), String> {
    let v = value_of(idx);
    match op {
        Op::Up(k) => mgr.upsert(k.to_string(), v).await.map(|_| ()).map_err(|e| e.to_string()),
        Op::Del(k) => mgr.delete(k).await.map(|_| ()).map_err(|e| e.to_string()),
        Op::BatchUpUp(a, b) => {
            let (a, b) = (a.to_string(), b.to_string());
            mgr.batch_update(move |m| {
                m.insert(a, v);
                m.insert(b, v + 1);
                Ok(())
            })
            .await
            .map_err(|e| e.to_string())
        }
        Op::BatchUpDel(a, b) => {
            let (a, b) = (a.to_string(), b.to_string());
            mgr.batch_update(move |m| {
                m.insert(a, v);
                m.remove(&b);
                Ok(())
            })
            .await
            .map_err(|e| e.to_string())
        }
        Op::Checkpoint => mgr.checkpoint().await.map_err(|e| e.to_string()),
    }
}

pub fn config(dir: &Path, flush: FlushStrategy) -> StateConfig {
    StateConfig {
        state_dir: dir.to_path_buf(),
        flush_strategy: flush,
        checkpoint_interval: Duration::from_secs(86_400),
        enable_compression: false,
        recovery_mode: RecoveryMode::Standard,
        max_state_size: 1 << 30,
    }
}

pub fn read_dir_files(dir: &Path) -> Files {
    let mut f = Files::new();
    if let Ok(rd) = std::fs::read_dir(dir) {
        for e in rd.flatten() {
            if e.path().is_file() {
                if let Ok(b) = std::fs::read(e.path()) {
                    f.insert(e.file_name().to_string_lossy().to_string(), b);
                }
            }
        }
    }
    f
}

pub fn write_dir_files(dir: &Path, files: &Files) {
    let _ = std::fs::remove_dir_all(dir);
    std::fs::create_dir_all(dir).expect("scratch dir");
    for (n, b) in files {
        std::fs::write(dir.join(n), b).expect("scratch write");
    }
}

#[derive(Clone, Debug)]
pub struct Image {
    pub label: String,
    pub files: Files,
    /// number of operations of the history that had returned when the image was taken
    pub acked: usize,
    /// true if the image is a derived torn write (byte-prefix of an append)
    pub torn: bool,
}

/// Run `ops` on a fresh real manager in `dir`; capture crash images during the LAST operation only
/// (earlier operations are the last operation of a shorter history). Returns images in order:
/// "before last op", every crash point inside it (+ derived torn writes), "after last op".
pub async fn run_history(dir: &Path, ops: &[Op], flush: FlushStrategy, rotation: Option<u64>, tick: bool) -> Result<Vec<Image>, String> {
    let _ = std::fs::remove_dir_all(dir);
    saorsa_core::verif_hooks::set_wal_rotation_entries(rotation);
    saorsa_core::verif_hooks::set_timestamp_override(Some(T0));
    saorsa_core::verif_hooks::set_crash_point(None);
    let mgr = Mgr::new(config(dir, flush)).await.map_err(|e| format!("new: {e}"))?;
    let n = ops.len();
    let images: Rc<RefCell<Vec<Image>>> = Rc::new(RefCell::new(Vec::new()));
    for (i, op) in ops.iter().enumerate() {
        saorsa_core::verif_hooks::set_timestamp_override(Some(if tick { T0 + 1 + i as u64 } else { T0 }));
        if i + 1 == n {
            images.borrow_mut().push(Image { label: "between-ops".into(), files: read_dir_files(dir), acked: i, torn: false });
            let im = images.clone();
            let d = dir.to_path_buf();
            saorsa_core::verif_hooks::set_crash_point(Some(Rc::new(move |label: &str, _p: &Path| {
                im.borrow_mut().push(Image { label: label.to_string(), files: read_dir_files(&d), acked: i, torn: false });
            })));
        }
        real_apply(&mgr, op, i).await.map_err(|e| format!("op {i} {op:?}: {e}"))?;
    }
    saorsa_core::verif_hooks::set_crash_point(None);
    images.borrow_mut().push(Image { label: "after-op".into(), files: read_dir_files(dir), acked: n, torn: false });
    drop(mgr);
    let raw = images.borrow().clone();
    // derive torn writes: an append to one file between consecutive images
    let mut out: Vec<Image> = Vec::new();
    for (k, img) in raw.iter().enumerate() {
        if k > 0 {
            let prev = &raw[k - 1];
            for (name, bytes) in &img.files {
                if name.ends_with(".tmp") {
                    continue; // never read by recovery
                }
                let old = prev.files.get(name).map(|v| v.as_slice()).unwrap_or(&[]);
                let others_same = img.files.iter().all(|(n2, b2)| n2 == name || prev.files.get(n2) == Some(b2)) && prev.files.keys().all(|n2| img.files.contains_key(n2));
                if others_same && bytes.len() > old.len() + 1 && bytes.starts_with(old) && (prev.files.contains_key(name) || !old.is_empty() || true) {
                    for cut in old.len() + 1..bytes.len() {
                        let mut f = prev.files.clone();
                        f.insert(name.clone(), bytes[..cut].to_vec());
                        out.push(Image { label: format!("torn:{}@{}", img.label, cut - old.len()), files: f, acked: prev.acked, torn: true });
                    }
                }
            }
        }
        out.push(img.clone());
    }
    Ok(out)
}

pub struct Recovered {
    pub map: Model,
    pub stats: RecoveryStats,
    pub mgr: Mgr,
}

/// Reopen `files` with a fresh manager in `dir`.
pub async fn recover(dir: &Path, files: &Files, flush: FlushStrategy, rotation: Option<u64>, now: u64) -> Result<Recovered, String> {
    write_dir_files(dir, files);
    saorsa_core::verif_hooks::set_wal_rotation_entries(rotation);
    saorsa_core::verif_hooks::set_timestamp_override(Some(now));
    saorsa_core::verif_hooks::set_crash_point(None);
    let mgr = Mgr::new(config(dir, flush)).await.map_err(|e| format!("reopen failed: {e}"))?;
    let map: Model = mgr.get_all().map_err(|e| e.to_string())?.into_iter().collect();
    let stats = mgr.recovery_stats().map_err(|e| e.to_string())?;
    Ok(Recovered { map, stats, mgr })
}

/// Parse the framed records of one log file (complete, decodable records only): (offset, len, entry).
pub fn parse_wal(bytes: &[u8]) -> Vec<(usize, usize, WalEntry)> {
    let mut out = Vec::new();
    let mut pos = 0usize;
    while pos + 4 <= bytes.len() {
        let len = u32::from_le_bytes([bytes[pos], bytes[pos + 1], bytes[pos + 2], bytes[pos + 3]]) as usize;
        if pos + 4 + len > bytes.len() {
            break;
        }
        if let Ok(e) = postcard::from_bytes::<WalEntry>(&bytes[pos + 4..pos + 4 + len]) {
            out.push((pos, 4 + len, e));
        }
        pos += 4 + len;
    }
    out
}

pub fn wal_ids(files: &Files) -> Vec<(String, u64, Vec<u8>)> {
    let mut v = Vec::new();
    for (n, b) in files {
        if n.ends_with(".wal") {
            for (off, len, e) in parse_wal(b) {
                v.push((n.clone(), e.transaction_id, b[off..off + len].to_vec()));
            }
        }
    }
    v
}

pub fn files_summary(files: &Files) -> Value {
    json!(files.iter().map(|(n, b)| json!({"file": n, "len": b.len(), "hex": if b.len() <= 400 { hex::encode(b) } else { format!("{}…", hex::encode(&b[..200])) }})).collect::<Vec<_>>())
}

pub fn scratch_root(tag: &str) -> PathBuf {
    PathBuf::from(format!("/dev/shm/vh-{tag}-{}", std::process::id()))
}

pub fn all_histories(alpha: &[Op], max_len: usize) -> Vec<Vec<Op>> {
    let mut out: Vec<Vec<Op>> = Vec::new();
    let mut level: Vec<Vec<Op>> = vec![vec![]];
    for _ in 0..max_len {
        let mut next = Vec::new();
        for h in &level {
            for o in alpha {
                let mut h2 = h.clone();
                h2.push(o.clone());
                next.push(h2);
            }
        }
        out.extend(next.iter().cloned());
        level = next;
    }
    out
}
