#!/usr/bin/env python3
"""Copies confirmed seeded changes into /verif/seeded/<id>/ (patch.diff, demo.diff, meta.json)."""
import json, os, shutil, glob, sys
HISTORY = {
 ('Q','C20'): "missed by the check as it stood (the end-of-run query probes ran with nothing else going on); the probes now run while a new peer connects and one lock-section boundary of the query or of connection handling is slow",
 ('T','C18'): "missed by the check as it stood (after a failed write only the reopened file was examined); the manager that saw the write fail is now asked too and must agree with the file",
 ('P','C01'): "missed by the check as it stood (no configuration filled the lookup's candidate queue with responsive peers); a crowd family (199..250 responsive peers named in one reply, both orders) was added",
 ('P','C07'): "missed by the check as it stood (after snapshot damage only 'genuine' and 'reported' were judged); the intact log must now be honoured on top of whichever snapshot survives",
 ('P','C19'): "missed by the check as it stood (no IPv4-mapped IPv6 peer in the dial family); four address classes were added",
}
for cf in sorted(glob.glob('/tmp/confirm/*-C*.json')):
    g, pid = os.path.basename(cf)[:-5].split('-')
    c = json.load(open(cf))
    src = f'/tmp/mut{g}-out/{pid}'
    if c.get('status') != 'confirmed':
        print('skip', g, pid, c.get('status')); continue
    dst = f'/verif/seeded/{pid}' if g in 'ABCDE' else (f'/verif/seeded/{pid}-2' if g in 'FGHIJ' else (f'/verif/seeded/{pid}-3' if g in 'KLMNO' else f'/verif/seeded/{pid}-4'))
    if g in 'PQRST' and os.path.exists(f'{dst}/meta.json') and not os.environ.get('FORCE'):
        continue
    os.makedirs(dst, exist_ok=True)
    shutil.copy(f'{src}/patch.diff', f'{dst}/patch.diff')
    shutil.copy(f'{src}/demo.diff', f'{dst}/demo.diff')
    m = json.load(open(f'{src}/meta.json'))
    det = {}
    if os.path.exists(f'{dst}/detection.json'):
        det = json.load(open(f'{dst}/detection.json'))
    meta = {
        "property": pid,
        "origin": f"independent sub-agent (group {g}); saw only the property record and its own scratch worktree of /repo",
        "breaks": m.get('summary'),
        "needs_to_manifest": m.get('needs_to_manifest'),
        "demonstration": {"cmd": m.get('demo_cmd'), "applies_with": "git apply demo.diff (independent of patch.diff)"},
        "agent_reported_existing_tests": m.get('existing_tests_run'),
        "confirmed_by_me": {
            "where": "scratch worktree /tmp/suite-wt at /repo HEAD " + str(c.get('head')) + " (removed afterwards)",
            "demo_without_patch_exit": c.get('demo_without_patch_exit'),
            "demo_with_patch_exit": c.get('demo_with_patch_exit'),
            "unit_tests_with_patch": c.get('lib_tests_summary'),
            "stable_unit_tests_failing_with_patch": c.get('lib_stable_failing'),
            "note": "cargo nextest run --workspace --lib (all unit tests) with the patch applied; test_bandwidth_tracker_window_reset and test_ipv4_node_id_age are wall-clock flakes that also fail on the unpatched tree under load",
        },
    }
    if c.get('batch'):
        meta['confirmed_by_me']['batch'] = c['batch']
    if HISTORY.get((g, pid)):
        meta['history'] = HISTORY[(g, pid)]
    json.dump(meta, open(f'{dst}/meta.json', 'w'), indent=1)
    print('kept', pid)
