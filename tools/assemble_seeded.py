#!/usr/bin/env python3
"""Copies confirmed seeded changes into /verif/seeded/<id>/ (patch.diff, demo.diff, meta.json)."""
import json, os, shutil, glob, sys
for cf in sorted(glob.glob('/tmp/confirm/*-C*.json')):
    g, pid = os.path.basename(cf)[:-5].split('-')
    c = json.load(open(cf))
    src = f'/tmp/mut{g}-out/{pid}'
    if c.get('status') != 'confirmed':
        print('skip', g, pid, c.get('status')); continue
    dst = f'/verif/seeded/{pid}' if g in 'ABCDE' else (f'/verif/seeded/{pid}-2' if g in 'FGHIJ' else f'/verif/seeded/{pid}-3')
    os.makedirs(dst, exist_ok=True)
    shutil.copy(f'{src}/patch.diff', f'{dst}/patch.diff')
    shutil.copy(f'{src}/demo.diff', f'{dst}/demo.diff')
    m = json.load(open(f'{src}/meta.json'))
    det = {}
    if os.path.exists(f'{dst}/detection.json'):
        det = json.load(open(f'{dst}/detection.json'))
    meta = {
        "property": pid,
        "origin": f"independent sub-agent (group {g}); saw only the property record and its own scratch worktree of /repo",
        "breaks": m.get('summary'),
        "needs_to_manifest": m.get('needs_to_manifest'),
        "demonstration": {"cmd": m.get('demo_cmd'), "applies_with": "git apply demo.diff (independent of patch.diff)"},
        "agent_reported_existing_tests": m.get('existing_tests_run'),
        "confirmed_by_me": {
            "where": "scratch worktree /tmp/suite-wt at /repo HEAD " + str(c.get('head')) + " (removed afterwards)",
            "demo_without_patch_exit": c.get('demo_without_patch_exit'),
            "demo_with_patch_exit": c.get('demo_with_patch_exit'),
            "unit_tests_with_patch": c.get('lib_tests_summary'),
            "stable_unit_tests_failing_with_patch": c.get('lib_stable_failing'),
            "note": "cargo nextest run --workspace --lib (all unit tests) with the patch applied; test_bandwidth_tracker_window_reset and test_ipv4_node_id_age are wall-clock flakes that also fail on the unpatched tree under load",
        },
    }
    json.dump(meta, open(f'{dst}/meta.json', 'w'), indent=1)
    print('kept', pid)
