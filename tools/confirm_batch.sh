#!/bin/bash
# usage: confirm_batch.sh <group letter>     (reads /tmp/mut<G>-out/<Cnn>/{patch.diff,demo.diff,meta.json})
# Confirms one sub-agent's changes (patches of one group touch disjoint code) together in the scratch worktree
# /tmp/suite-wt at /repo HEAD: every demonstration passes without the patches and fails with them; the unit tests
# still pass with the patches. Writes /tmp/confirm/<G>-<Cnn>.json.
set -u
g="$1"
wt=/tmp/suite-wt
export CARGO_TARGET_DIR=/repo/target
mkdir -p /tmp/confirm
cd $wt || exit 2
git checkout -q --detach $(git -C /repo rev-parse HEAD) 2>/dev/null; git checkout -q -- . ; git clean -fdq -- src tests
cp /repo/Cargo.lock $wt/ 2>/dev/null
res() { python3 - "$@" <<'P'
import json,sys
out,key,val=sys.argv[1],sys.argv[2],sys.argv[3]
try: d=json.load(open(out))
except Exception: d={}
d[key]=val
json.dump(d,open(out,'w'),indent=1)
P
}
ids=""
for d in /tmp/mut$g-out/C*/; do
  id=$(basename $d); out=/tmp/confirm/$g-$id.json; rm -f $out
  res $out head "$(git rev-parse --short HEAD)"; res $out batch "all changes of group $g applied together (disjoint code)"
  [ -e $d/patch.diff ] || { res $out status "gave-up"; continue; }
  if ! git apply --check $d/patch.diff 2>/dev/null; then res $out status "patch-does-not-apply"; continue; fi
  if ! git apply $d/demo.diff 2>/dev/null; then res $out status "demo-does-not-apply"; continue; fi
  ids="$ids $id"
done
cmd_of() { python3 -c "
import json,re
c=json.load(open('/tmp/mut$g-out/$1/meta.json')).get('demo_cmd','')
c=re.sub(r'CARGO_TARGET_DIR=\S+\s*','',c)
c=re.sub(r'^\s*cd \S+\s*&&\s*','',c)
print(c)"; }
for id in $ids; do
  cmd=$(cmd_of $id); out=/tmp/confirm/$g-$id.json; res $out demo_cmd "$cmd"
  ( eval "timeout 3000 $cmd" ) > /tmp/confirm_${g}_${id}_1.log 2>&1; res $out demo_without_patch_exit "$?"
done
for id in $ids; do git apply /tmp/mut$g-out/$id/patch.diff || res /tmp/confirm/$g-$id.json status "patch-conflicts-in-batch"; done
for id in $ids; do
  cmd=$(cmd_of $id); out=/tmp/confirm/$g-$id.json
  ( eval "timeout 3000 $cmd" ) > /tmp/confirm_${g}_${id}_2.log 2>&1; res $out demo_with_patch_exit "$?"
  res $out demo_with_patch_tail "$(grep -E 'panicked|assert|FAILED|failed' /tmp/confirm_${g}_${id}_2.log | head -4 | cut -c1-300)"
done
for id in $ids; do git apply -R /tmp/mut$g-out/$id/demo.diff; done
timeout 3000 cargo nextest run --workspace --lib --no-fail-fast --tool-config-file pb:/w/lib/nextest.toml --profile pb --test-threads 8 --offline > /tmp/confirm_lib_$g.log 2>&1
python3 /verif/tools/suite_diff.py /tmp/confirm_lib_$g.log > /tmp/confirm_lib_$g.diff 2>&1
for id in $ids; do
  out=/tmp/confirm/$g-$id.json
  res $out lib_tests_summary "$(grep -E 'Summary' /tmp/confirm_lib_$g.log | tail -1)"
  res $out lib_stable_failing "$(sed -n '/STABLE TESTS NOW FAILING/,/stable tests not run/p' /tmp/confirm_lib_$g.diff | head -8 | tr '\n' ' ')"
  python3 - $out <<'P'
import json,sys
d=json.load(open(sys.argv[1]))
if 'status' not in d:
    d['status']='confirmed' if d.get('demo_without_patch_exit')=='0' and d.get('demo_with_patch_exit') not in ('0',None) else 'demo-not-discriminating'
json.dump(d,open(sys.argv[1],'w'),indent=1)
P
done
git checkout -q -- . ; git clean -fdq -- src tests
echo "group $g done:$ids"
