#!/bin/bash
# usage: confirm_mutant.sh <dir with patch.diff demo.diff meta.json> <out.json>
# Confirms in the scratch worktree /tmp/suite-wt: demo passes on HEAD, fails with the patch; unit tests still pass with the patch.
set -u
d="$1"; out="$2"
wt=/tmp/suite-wt
export CARGO_TARGET_DIR=/repo/target
cd $wt || exit 2
git checkout -q --detach $(git -C /repo rev-parse HEAD) 2>/dev/null; git checkout -q -- . ; git clean -fdq -- src tests
cp /repo/Cargo.lock $wt/ 2>/dev/null
cmd=$(python3 -c "import json,re;print(re.sub(r'CARGO_TARGET_DIR=\S+\s*','',json.load(open('$d/meta.json')).get('demo_cmd','')))")
res() { python3 - "$@" <<'P'
import json,sys
out,key,val=sys.argv[1],sys.argv[2],sys.argv[3]
try: d=json.load(open(out))
except Exception: d={}
d[key]=val
json.dump(d,open(out,'w'),indent=1)
P
}
res "$out" head "$(git rev-parse --short HEAD)"
res "$out" demo_cmd "$cmd"
if ! git apply --check "$d/patch.diff" 2>/dev/null; then res "$out" status "patch-does-not-apply"; exit 0; fi
if ! git apply "$d/demo.diff" 2>/dev/null; then res "$out" status "demo-does-not-apply"; exit 0; fi
( eval "timeout 2400 $cmd" ) > /tmp/confirm_demo1.log 2>&1; r1=$?
res "$out" demo_without_patch_exit "$r1"
git apply "$d/patch.diff"
( eval "timeout 2400 $cmd" ) > /tmp/confirm_demo2.log 2>&1; r2=$?
res "$out" demo_with_patch_exit "$r2"
res "$out" demo_with_patch_tail "$(tail -5 /tmp/confirm_demo2.log | cut -c1-300)"
# existing unit tests with the patch (demo removed)
git apply -R "$d/demo.diff"
timeout 3000 cargo nextest run --workspace --lib --no-fail-fast --tool-config-file pb:/w/lib/nextest.toml --profile pb --test-threads 8 --offline > /tmp/confirm_lib.log 2>&1
python3 /verif/tools/suite_diff.py /tmp/confirm_lib.log > /tmp/confirm_lib.diff 2>&1
res "$out" lib_tests_summary "$(grep -E 'Summary' /tmp/confirm_lib.log | tail -1)"
res "$out" lib_stable_failing "$(sed -n '/STABLE TESTS NOW FAILING/,/stable tests not run/p' /tmp/confirm_lib.diff | head -8 | tr '\n' ' ')"
git checkout -q -- . ; git clean -fdq -- src tests
if [ "$r1" = 0 ] && [ "$r2" != 0 ]; then res "$out" status "confirmed"; else res "$out" status "demo-not-discriminating"; fi
