#!/usr/bin/env python3
"""Regenerates /verif/MANIFEST.json from the table below (kept valid at all times)."""
import json, subprocess
BASE = "cd /repo && cargo nextest run --workspace --no-fail-fast --tool-config-file pb:/w/lib/nextest.toml --profile pb --test-threads 8 --offline"
def hook_commits():
    out = subprocess.run(["git", "-C", "/repo", "log", "--format=%h %s"], capture_output=True, text=True).stdout
    return [l.split()[0] for l in out.splitlines() if l.split(" ", 1)[1].startswith("verif-hooks")]
CHECKS = {
 "C02": dict(engine="hist", cat="model_checking", tech="explicit-state BFS over operation histories on the real DhtCoreEngine (rebuild-by-replay), reference-model oracle on every state",
   text="Every join/add/failure/eviction history up to the fix-point of an 8-id alphabet (thorough: 12 ids), every bucket-occupancy vector over {0,1,8}^5, and the full-bucket overflow sequences are executed on the real engine; after every transition every target key x count is asked through find_nodes and the FindNode/FindValue request handlers and compared with a sorted-set reference. Right level: the property quantifies over table histories and (key,count) inputs, which is exactly the enumerated space.",
   note="8-bit id space (ids differ from the local id in byte 0); LogOnly validation; reply path of DhtNetworkManager covered separately (netsim part).", ref="3/C02"),
  "C01": dict(engine="netsim", cat="model_checking", tech="stateless deviation-bounded DFS over delivery schedules of real DhtNetworkManager instances on an in-memory socket with paused clock; configurations (all connected graphs x initiator rank x K x fault patterns x liar menu) enumerated completely",
   text="N real DhtNetworkManagers (real DhtCoreEngine, TransportHandle, dispatcher, event handler) run in one single-threaded runtime over an in-memory wire; only the QUIC socket is replaced. Every connected connection graph on N<=4 (thorough 5) labelled nodes x every initiator distance rank x K x every silent/slow subset, a 9-entry liar menu, and full meshes up to 8 nodes are executed; on the small configurations every single (thorough: double) delivery deviation - reorder, drop, early timeout - is explored. Termination, shape, membership, closure, mesh-exactness, self, once and request-bound clauses are judged from the RPC trace. Right level: the property quantifies over topologies and fault sequences.",
   note="configurations complete up to relabelling of non-initiators; thread preemption inside await-free segments not explored; determinism self-check replays a schedule twice.", ref="3/C01"),
 "C13": dict(engine="hist", cat="model_checking", tech="explicit-state BFS over admit/remove/evict/set-size histories on the real IPDiversityEnforcer, DhtCoreEngine and BootstrapManager (rebuild-by-replay), counting reference model",
   text="Address alphabets chosen so that every prefix level collides (two in one /64, /48, /32; same IPv4 twice, /24, /16) x attribute classes x 31 cap configurations; all histories to a fix-point where caps bound the state space; cap, liveness, release, atomicity and gate clauses against a counting reference. Right level: the property is an invariant over admission histories.",
   note="below the 50k LRU bound only; integrated netsim part (10 peers of one /24 dialling a real node) is covered by the C19/C13 gate sweep through add_node.", ref="3/C13"),
 "C15": dict(engine="inputs", cat="exploration", tech="exhaustive enumeration of witness multisets (sizes 0..5 over 50 witness types, 6..7 over 24; thorough 0..6 and 7..10) x 108 settings through the real validate_membership",
   text="The verdict depends on the witness multiset, which is enumerated completely over the grid named in the property; BFT, 3f+1, normal-mode, monotonicity and liveness clauses on every element. Right level: the property itself is stated exhaustively over a finite grid.",
   note="thresholds read from the config handed to the validator; exact equality with the 0.7 boundary is not judged.", ref="3/C15"),
 "C16": dict(engine="hist", cat="model_checking", tech="explicit-state BFS to fix-point over event histories on the real EvictionManager and over add/evict/fail histories on the real DhtCoreEngine; exhaustive candidate-list enumeration through the real TrustAwarePeerSelector",
   text="(a) eviction policy BFS to fix-point for 3 threshold configurations; (b) routing-table BFS: an evicted or failed id appears in no answer for any key until re-added; (c) all ordered candidate lists of length <=4 (thorough 5) over an id alphabet built around the f64 resolution of the score x 8 trust values incl. NaN and out-of-range x counts x configs; (d) the same through DhtCoreEngine store/retrieve. Right level: histories and inputs are the quantifiers.",
   note="NaN trust not judged; candidate lists up to 5 (selector) / 32-peer tables (engine).", ref="3/C16"),
 "C17": dict(engine="inputs", cat="exploration", tech="exhaustive enumeration of candidate multisets x k x weights, with the sampler's RNG seeds swept until every possible outcome of each instance was observed",
   text="All multisets of n<=4 (thorough 5-6) node types over 12 locations x ASN x region, every k, every single metadata gap, degenerate weight grids, ReplicationFactor/ByzantineTolerance over their full small domains; for each instance fastrand seeds are swept until every reference-valid outcome was seen (outcomes observed / possible reported). Right level: inputs and sampler choices are the quantifiers; both are enumerated.",
   note="HashSet iteration order inside the subject is not owned, so the seed->outcome map varies between processes; verdicts are universal over outcomes.", ref="3/C17"),
 "C18": dict(engine="hist", cat="model_checking", tech="explicit-state BFS to fix-point over store/retrieve/change-password/clear-cache/reopen histories on the real EncryptedKeyStorageManager; exhaustive single-byte corruption and truncation; crash images around the rename incl. torn writes forced with RLIMIT_FSIZE",
   text="23-operation alphabet with current/previous/never-valid passwords, merged BFS to fix-point plus unmerged histories to depth 2 (thorough 4); after every history all (id,password) pairs are probed; every byte of the store file x {8 flips, 00, FF}, every truncation; old/new/prefix images of every write reopened. Right level: histories, corruptions and crash points are the quantifiers.",
   note="SecurityLevel::Fast; header fields that are not authenticated may change without changing the returned seed (allowed: result is Ok(original) or Err).", ref="3/C18"),
 "C19": dict(engine="inputs", cat="exploration", tech="bounded-exhaustive input enumeration: 15^4 x 15 boundary grid, all 65536 ports, all (c,d) of /16s, IPv6 classes, all one-site mutations of valid renderings, every dictionary word at the ends of word strings, cross-component producer x consumer table",
   text="For every address of the declared grids: four-word round trip, every separator/case variant, Display->FromStr, serde JSON/postcard cycles; every library-produced rendering handed to every directly callable consumer (FromStr, Config bootstrap addresses, DhtCoreEngine::add_node gate observed differentially). Right level: the property quantifies over inputs; the boundary neighbourhoods are finite and enumerated.",
   note="the 2^48 space beyond the grids is not claimed; consumers private to DhtNetworkManager are exercised by the netsim checks.", ref="3/C19"),
 "C03": dict(engine="netsim", cat="model_checking", tech="stateless exploration of real DhtNetworkManager networks over an in-memory socket: all put/get operation sequences x all connected graphs x silent subsets, default schedule plus single delivery deviations on the small items, ground-truth store oracle",
   text="All sequences (quick <=2, thorough <=3 operations) of put / get / put_with_targets issued from every node over two keys and the value sizes 0, 8, 512 and 513 bytes, on every connected graph of N<=3 (thorough 4) real nodes with every single (thorough: every) subset of peers silent; after every operation every node's local store is probed. Clauses: local, replica, targets (differential against the node's own lookup + never addresses itself), get provenance, not-found completeness, 512-byte limit on every store path (manager put, remote PUT handler, core engine request handler and store()). Right level: quantifies over topologies, histories and fault subsets.",
   note="operations of one history run sequentially; concurrency is C20's subject.", ref="3/C03"),
 "C04": dict(engine="netsim", cat="model_checking", tech="exhaustive enumeration of adversarial event sequences (depth-bounded) against one real node with scripted peers via raw-frame injection; reference-model comparison of request outcomes and pending-table sizes after every event",
   text="One real node with two scripted connected peers and an unconnected identity; every non-empty subset of {DHT ping, DHT find-node, application request/response} is started (with and without the socket send held, which opens the window between registration and hand-over to the wire); then every event sequence up to the tier length over {correct reply, same id from another peer, from an unconnected identity, unknown id, no result, id echoed as request/broadcast/error, id on the other protocol, abort, timeout, release} is applied; a 256-slot cap family with completed/aborted requests. Right level: the property quantifies over interleavings of sends, replies, timeouts and cancellations.",
   note="schedules are sequences of harness-chosen events between quiescent points of a single-threaded runtime; preemption inside await-free code is not explored.", ref="3/C04"),
 "C20": dict(engine="netsim", cat="model_checking", tech="stateless deviation-bounded DFS over delivery schedules of concurrent operations on real DhtNetworkManagers, with stop() and peer-silencing as scheduler choices at every choice point; liveness horizon on the paused virtual clock",
   text="1..2 (thorough 3) concurrent client operations from {find_node, put, get, ping} on one or two nodes of every connected graph of N<=3 (thorough: plus 4-node families) while the other nodes serve them; every single deviation (out-of-order delivery, drop, early timeout, stop() on any node, a peer silent from now on) at every choice point of the default execution (two deviations on the 2-node items in thorough); full meshes of 6..12 nodes in the default environment. Clauses: every operation completes within 21 x (dial + request timeout) of virtual time, stop() returns within (peers+1) x timeout, a stopped node serves no request and sends none. Right level: quantifies over schedules and fault timings.",
   note="liveness is judged on the paused tokio clock: a quiescent runtime with an unfinished operation and no timer is a deadlock; transport shutdown is the caller's job and not judged.", ref="3/C20"),
 "C05": dict(engine="inputs", cat="exploration", tech="bounded-exhaustive input enumeration: every input within 1 (thorough 2) site-mutations of a valid instance of every message kind, fed to every inbound entry point of the real code (incl. the real dispatcher through raw-frame injection), counting allocator, complete size / timestamp / claimed-sender grids",
   text="Seeds: one valid instance of every wire frame, DHT message (7 operations, 9 results, 4 types), request/response envelope, core-engine request (9 variants) and DHT record (4 kinds). All single site-mutations (8 byte values, delete, 3 inserts, truncate, 7 oversized varints at every offset, appends) are fed to parse_protocol_message, handle_dht_message, parse_request_envelope, DhtCoreEngine::handle_request and DhtRecord::deserialize/serialize; size ladder 65535..131072; value sizes around 512; timestamp window edges; six claimed-sender values through the real dispatcher. Right level: the property quantifies over inputs; the structure-aware neighbourhood of valid messages is finite and enumerated completely.",
   note="random strings are not claimed; allocation limit 1 MiB + 4 x input (64 KiB for refused oversized DHT messages).", ref="3/C05"),
 "C12": dict(engine="hist+loom", cat="model_checking", tech="explicit-state BFS over validate/batch/cleanup/sync-reload/crash-reload histories on the real MonotonicCounterSystem (rebuild-by-replay, reference high-water-mark model) + loom exploration of thread interleavings of the re-bound real source (preemption bound 2, thorough 3 / unbounded)",
   text="Histories over 2 peers x sequences {0,1,2,3,5,u64::MAX} x hashes x in-window/too-old/future timestamps, every batch of <=2 requests, cleanup, sync-and-reload through the real background sync, reload without sync; merged on (counters, decoded store file) with a destructive probe comparing merged states. Thread part: vh-loom's build.rs re-binds only the std::sync / parking_lot imports of /repo/src/monotonic_counter.rs to loom types (build fails if a re-binding does not match exactly once) and explores 13 bodies of 2-3 threads submitting the same / consecutive / independent (peer, sequence) pairs; oracle: results and final state must come from some interleaving of atomic operations on the reference, exactly one accept per (peer, number). Right level: histories and schedules are the quantifiers.",
   note="tokio::sync::Mutex statistics, tokio::fs and Instant::now are not intercepted by loom; each loom body runs in a child process.", ref="3/C12"),
 "C14": dict(engine="hist+loom", cat="model_checking", tech="explicit-state BFS over arrival sequences on the real JoinRateLimiter / validation::RateLimiter / Engine (rebuild-by-replay, token-bucket reference bounded by harness-measured elapsed time) + loom exploration of the re-bound real rate_limit.rs",
   text="All arrival sequences to depth 8 (thorough 12) over 9 addresses sharing /64, /48, /32, /24, /16 prefixes x 5 limiter configurations, check_ip over 4 IPs x 4 configs, Engine global/keyed consumption, timed histories with one real sleep (window roll-over). Clauses: per-prefix and global caps, burst+refill bound with refill bounded by measured elapsed time, key independence, a denied attempt never increases a budget (one-step differential). Loom: 16 bodies of 2-3 threads on one /64 (cap 1 and 2) and on distinct /64s of one /48. Right level: histories and schedules are the quantifiers.",
   note="refill is bounded by the elapsed time measured by the harness around the whole history; replays slow enough for refill to exceed 0.25 token are repeated.", ref="3/C14"),
 "C10": dict(engine="hist", cat="model_checking", tech="explicit-state BFS over report / statistics / anchor / removal histories on the real EigenTrustEngine (rebuild-by-replay, compute after every operation), plus a complete parametrised family around the n>100 and n>500 iteration-count thresholds",
   text="92-operation alphabet (13 statistic updates per node incl. amounts 2^40, 32 pairwise ratings incl. self-ratings, anchor add/remove, node removal) on nodes {A,B,C,P} to depth 3 (thorough 4), a smaller alphabet to depth 4 (5); bases of n in {1,2,3,100,101,500,501,600} x 6 shapes x 3 anchor settings x every one-operation extension per node class. Clauses: finite, range, sum, equal-histories-equal-scores (merge callback), query, monotonicity of success/failure, severity of corrupted/violation vs plain failure, completes-without-fallback. Runs on a paused clock so the 2 s fallback can only fire when the computation is really stuck. Right level: histories are the quantifier.",
   note="monotonicity judged for update_node_stats reports on peers already part of the computation; comparison margins below 1e-3 must reproduce on five fresh engines (the subject's 1e-4 stopping test can flip with HashMap order).", ref="3/C10"),
 "C11": dict(engine="inputs", cat="exploration", tech="exhaustive enumeration of all small directed trust graphs (self-loops allowed) with a closed Sybil set, one representative per orbit of class-internal permutations, plus complete parametrised families up to 1000 Sybils / 50 anchors",
   text="All directed graphs on a in {1,2} anchors, h in {0,1,2} honest, s in {1,2,3} Sybils with |V|<=5 (thorough 6) and no edge into the Sybil set from outside (4.3 M graphs, 0.97 M orbit representatives), each built on a fresh real engine; families s in {1..1000} x {self-loops, chain, star, clique, clique+self} x a in {1,2,10,50} x honest graphs x statistics none/equal. Clauses: Sybil share bound (0.1 % up to 100 nodes, population share / 7 above), anchor floor. Right level: the property quantifies over trust graphs; the small ones are enumerated completely.",
   note="equal statistics variant on |V|<=4 in quick; unit weights.", ref="3/C11"),
 "C06": dict(engine="crash", cat="fault_enumeration", tech="exhaustive crash-point and torn-write enumeration over operation histories of the real PersistentStateManager, reference-model oracle, second crash/restart cycle",
   text="Every history over {upsert, delete, batch(2), checkpoint} up to the tier length (quick 4, thorough 5) is executed on the real manager under several flush/rotation/clock configurations; every instrumented step of write/rotate/checkpoint inside the last operation and every byte-prefix of every append is a crash image; each image is reopened by a fresh manager and compared with the prefix-closed reference model; from every recovered state every one-operation extension plus clean restart is run and transaction ids inspected. Right level: the property quantifies over crash points and histories.",
   note="crash model = process death (written bytes survive in order); virtual wall clock through the timestamp hook; batch = one operation.", ref="3/C06"),
 "C07": dict(engine="crash", cat="fault_enumeration", tech="exhaustive single-site (thorough: pairwise) damage enumeration over every byte of every log/snapshot file of enumerated histories, recovery judged against the fold of surviving records",
   text="For the final directory image of every enumerated history, every damage from a fixed menu (bit flips, byte set/delete/insert, truncation at every offset, length-prefix substitutions, duplicated/moved/foreign records at every boundary, trailing garbage) is applied, the directory reopened by a fresh manager, and no-panic / reported / genuine-values / records-before / records-after / memory clauses evaluated. Right level: the property quantifies over corruptions of short histories.",
   note="report required only where the damage leaves a malformed or unverifiable record/snapshot; peak memory via counting allocator on the recovering thread.", ref="3/C07"),
 "C08": dict(engine="inputs", cat="exploration", tech="bounded-exhaustive input enumeration (every single-bit flip of message, signature and key; all ordered identity pairs; window edges; all threshold signature lists) on the ship build",
   text="Built with debug assertions off (real ML-DSA-65). For each identity origin and each verifying entry point: the positive case, every single-bit flip of message, signature (26 472) and public key (15 616), every ordered cross-key pair, validity-window edges, checksum variants, all delegated key lists of 0..3 keys and all threshold signature lists for n<=3. Right level: the property is a universally quantified statement over inputs whose interesting neighbourhood (one-bit changes, foreign keys) is finite and is enumerated completely.",
   note="start-up self-check refuses to run unless the real ML-DSA path is active; messages of the listed lengths only.", ref="3/C08"),
 "C09": dict(engine="hist", cat="model_checking", tech="explicit-state BFS over presentation histories to a real SignatureCache (fix-point for capacities 1 and 16, depth-bounded for 2 and 3) with a differential oracle verify_cached == verify_signature, plus exhaustive field- and bit-level mutation of signed records",
   text="142 field-level mutants and every single-bit flip of the signable encoding of genuine records must fail verification; all histories over a 9-record alphabet (genuine, colliding and non-colliding forgeries) presented to one cache must give the direct-verification verdict at every step; construction bounds grid. Ship build. Right level: the cache clause quantifies over histories, which the BFS enumerates to a fix-point.",
   note="eviction order for capacities 2 and 3 follows HashMap iteration and is not owned: failures found there are genuine, absence is not claimed exhaustive.", ref="3/C09"),
}
NOT_YET = {}
def main():
    props = [json.loads(l) for l in open("/verif/properties.jsonl")]
    checks = []
    na = []
    for p in props:
        pid = p["id"]
        c = CHECKS.get(pid)
        if not c:
            na.append({"property_id": pid, "reason": NOT_YET.get(pid, "check under construction in this round; not claimed until its harness is committed")})
            continue
        checks.append({
            "property_id": pid,
            "quick_cmd": f"./check {pid} --tier quick",
            "thorough_cmd": f"./check {pid} --tier thorough",
            "evidence_file": f"/verif/evidence/{pid}.json",
            "replay_cmd_template": f"./check {pid} --replay {{path}}",
            "engine": c["engine"],
            "level_claimed": {"category": c["cat"], "text": c["text"], "design_ref": "DESIGN.md section " + c["ref"]},
            "level_note": c["note"],
            "technique": c["tech"],
        })
    m = {
        "version": 1,
        "setup_cmd": "./check build",
        "hooks": {
            "guard": "cargo feature verif-hooks (saorsa-core)",
            "enable": "harness depends on saorsa-core by path /repo with features=[\"verif-hooks\"]; ./check rebuilds from /repo's working tree",
            "baseline_off_cmd": BASE,
            "source_commits": hook_commits(),
            "add_only": True,
        },
        "engines": [
            {"name": "hist", "path": "harness/vh/src/core.rs (bfs)", "serves_properties": ["C02","C09","C10","C12","C13","C14","C16","C18"], "kind_free_text": "explicit-state BFS over operation histories of the real objects, rebuild-by-replay, canon-dedup with differential merge test"},
            {"name": "netsim", "path": "harness/vh/src/netsim.rs", "serves_properties": ["C01","C03","C04","C20"], "kind_free_text": "stateless deviation-bounded DFS over delivery schedules of real DhtNetworkManagers on an in-memory socket with paused clock"},
            {"name": "crash", "path": "harness/vh/src/bin/c06.rs", "serves_properties": ["C06","C07","C18"], "kind_free_text": "crash-point / torn-write / corruption enumeration over real persistence code"},
            {"name": "loom", "path": "harness/vh-loom", "serves_properties": ["C12","C14"], "kind_free_text": "loom over re-bound copies of /repo sources"},
            {"name": "inputs", "path": "harness/vh/src/bin", "serves_properties": ["C05","C08","C11","C15","C17","C19"], "kind_free_text": "bounded-exhaustive input enumeration"},
        ],
        "checks": checks,
        "not_applicable": na,
        "notes": "All checks run the real code of /repo (path dependency, rebuilt on every ./check). Exit 0/1/2 = held / violation / machinery failure.",
    }
    json.dump(m, open("/verif/MANIFEST.json", "w"), indent=1)
    import jsonschema
    jsonschema.validate(m, json.load(open("/root/.vp/MANIFEST.schema.json")))
    print("MANIFEST ok:", len(checks), "checks,", len(na), "not claimed")
if __name__ == "__main__":
    main()
