#!/usr/bin/env python3
"""Regenerates /verif/MANIFEST.json from the table below (kept valid at all times)."""
import json, subprocess
BASE = "cd /repo && cargo nextest run --workspace --no-fail-fast --tool-config-file pb:/w/lib/nextest.toml --profile pb --test-threads 8 --offline"
def hook_commits():
    out = subprocess.run(["git", "-C", "/repo", "log", "--format=%h %s"], capture_output=True, text=True).stdout
    return [l.split()[0] for l in out.splitlines() if l.split(" ", 1)[1].startswith("verif-hooks")]
CHECKS = {
 "C02": dict(engine="hist", cat="model_checking", tech="explicit-state BFS over operation histories on the real DhtCoreEngine (rebuild-by-replay), reference-model oracle on every state",
   text="Every join/add/failure/eviction history up to the fix-point of an 8-id alphabet (thorough: 12 ids), every bucket-occupancy vector over {0,1,8}^5, and the full-bucket overflow sequences are executed on the real engine; after every transition every target key x count is asked through find_nodes and the FindNode/FindValue request handlers and compared with a sorted-set reference. Right level: the property quantifies over table histories and (key,count) inputs, which is exactly the enumerated space.",
   note="8-bit id space (ids differ from the local id in byte 0); LogOnly validation; reply path of DhtNetworkManager covered separately (netsim part).", ref="3/C02"),
}
NOT_YET = {}
def main():
    props = [json.loads(l) for l in open("/verif/properties.jsonl")]
    checks = []
    na = []
    for p in props:
        pid = p["id"]
        c = CHECKS.get(pid)
        if not c:
            na.append({"property_id": pid, "reason": NOT_YET.get(pid, "check under construction in this round; not claimed until its harness is committed")})
            continue
        checks.append({
            "property_id": pid,
            "quick_cmd": f"./check {pid} --tier quick",
            "thorough_cmd": f"./check {pid} --tier thorough",
            "evidence_file": f"/verif/evidence/{pid}.json",
            "replay_cmd_template": f"./check {pid} --replay {{path}}",
            "engine": c["engine"],
            "level_claimed": {"category": c["cat"], "text": c["text"], "design_ref": "DESIGN.md section " + c["ref"]},
            "level_note": c["note"],
            "technique": c["tech"],
        })
    m = {
        "version": 1,
        "setup_cmd": "./check build",
        "hooks": {
            "guard": "cargo feature verif-hooks (saorsa-core)",
            "enable": "harness depends on saorsa-core by path /repo with features=[\"verif-hooks\"]; ./check rebuilds from /repo's working tree",
            "baseline_off_cmd": BASE,
            "source_commits": hook_commits(),
            "add_only": True,
        },
        "engines": [
            {"name": "hist", "path": "harness/vh/src/core.rs (bfs)", "serves_properties": ["C02","C09","C10","C12","C13","C14","C16","C18"], "kind_free_text": "explicit-state BFS over operation histories of the real objects, rebuild-by-replay, canon-dedup with differential merge test"},
            {"name": "netsim", "path": "harness/vh/src/netsim.rs", "serves_properties": ["C01","C03","C04","C20"], "kind_free_text": "stateless deviation-bounded DFS over delivery schedules of real DhtNetworkManagers on an in-memory socket with paused clock"},
            {"name": "crash", "path": "harness/vh/src/bin/c06.rs", "serves_properties": ["C06","C07","C18"], "kind_free_text": "crash-point / torn-write / corruption enumeration over real persistence code"},
            {"name": "loom", "path": "harness/vh-loom", "serves_properties": ["C12","C14"], "kind_free_text": "loom over re-bound copies of /repo sources"},
            {"name": "inputs", "path": "harness/vh/src/bin", "serves_properties": ["C05","C08","C11","C15","C17","C19"], "kind_free_text": "bounded-exhaustive input enumeration"},
        ],
        "checks": checks,
        "not_applicable": na,
        "notes": "All checks run the real code of /repo (path dependency, rebuilt on every ./check). Exit 0/1/2 = held / violation / machinery failure.",
    }
    json.dump(m, open("/verif/MANIFEST.json", "w"), indent=1)
    import jsonschema
    jsonschema.validate(m, json.load(open("/root/.vp/MANIFEST.schema.json")))
    print("MANIFEST ok:", len(checks), "checks,", len(na), "not claimed")
if __name__ == "__main__":
    main()
