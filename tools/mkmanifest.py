#!/usr/bin/env python3
"""Regenerates /verif/MANIFEST.json from the table below (kept valid at all times)."""
import json, subprocess
BASE = "cd /repo && cargo nextest run --workspace --no-fail-fast --tool-config-file pb:/w/lib/nextest.toml --profile pb --test-threads 8 --offline"
def hook_commits():
    out = subprocess.run(["git", "-C", "/repo", "log", "--format=%h %s"], capture_output=True, text=True).stdout
    return [l.split()[0] for l in out.splitlines() if l.split(" ", 1)[1].startswith("verif-hooks")]
CHECKS = {
 "C02": dict(engine="hist", cat="model_checking", tech="explicit-state BFS over operation histories on the real DhtCoreEngine (rebuild-by-replay), reference-model oracle on every state",
   text="Every join/add/failure/eviction history up to the fix-point of an 8-id alphabet (thorough: 12 ids), every bucket-occupancy vector over {0,1,8}^5, and the full-bucket overflow sequences are executed on the real engine; after every transition every target key x count is asked through find_nodes and the FindNode/FindValue request handlers and compared with a sorted-set reference. Right level: the property quantifies over table histories and (key,count) inputs, which is exactly the enumerated space.",
   note="8-bit id space (ids differ from the local id in byte 0); LogOnly validation; reply path of DhtNetworkManager covered separately (netsim part).", ref="3/C02"),
 "C06": dict(engine="crash", cat="fault_enumeration", tech="exhaustive crash-point and torn-write enumeration over operation histories of the real PersistentStateManager, reference-model oracle, second crash/restart cycle",
   text="Every history over {upsert, delete, batch(2), checkpoint} up to the tier length (quick 4, thorough 5) is executed on the real manager under several flush/rotation/clock configurations; every instrumented step of write/rotate/checkpoint inside the last operation and every byte-prefix of every append is a crash image; each image is reopened by a fresh manager and compared with the prefix-closed reference model; from every recovered state every one-operation extension plus clean restart is run and transaction ids inspected. Right level: the property quantifies over crash points and histories.",
   note="crash model = process death (written bytes survive in order); virtual wall clock through the timestamp hook; batch = one operation.", ref="3/C06"),
 "C07": dict(engine="crash", cat="fault_enumeration", tech="exhaustive single-site (thorough: pairwise) damage enumeration over every byte of every log/snapshot file of enumerated histories, recovery judged against the fold of surviving records",
   text="For the final directory image of every enumerated history, every damage from a fixed menu (bit flips, byte set/delete/insert, truncation at every offset, length-prefix substitutions, duplicated/moved/foreign records at every boundary, trailing garbage) is applied, the directory reopened by a fresh manager, and no-panic / reported / genuine-values / records-before / records-after / memory clauses evaluated. Right level: the property quantifies over corruptions of short histories.",
   note="report required only where the damage leaves a malformed or unverifiable record/snapshot; peak memory via counting allocator on the recovering thread.", ref="3/C07"),
 "C08": dict(engine="inputs", cat="exploration", tech="bounded-exhaustive input enumeration (every single-bit flip of message, signature and key; all ordered identity pairs; window edges; all threshold signature lists) on the ship build",
   text="Built with debug assertions off (real ML-DSA-65). For each identity origin and each verifying entry point: the positive case, every single-bit flip of message, signature (26 472) and public key (15 616), every ordered cross-key pair, validity-window edges, checksum variants, all delegated key lists of 0..3 keys and all threshold signature lists for n<=3. Right level: the property is a universally quantified statement over inputs whose interesting neighbourhood (one-bit changes, foreign keys) is finite and is enumerated completely.",
   note="start-up self-check refuses to run unless the real ML-DSA path is active; messages of the listed lengths only.", ref="3/C08"),
 "C09": dict(engine="hist", cat="model_checking", tech="explicit-state BFS over presentation histories to a real SignatureCache (fix-point for capacities 1 and 16, depth-bounded for 2 and 3) with a differential oracle verify_cached == verify_signature, plus exhaustive field- and bit-level mutation of signed records",
   text="142 field-level mutants and every single-bit flip of the signable encoding of genuine records must fail verification; all histories over a 9-record alphabet (genuine, colliding and non-colliding forgeries) presented to one cache must give the direct-verification verdict at every step; construction bounds grid. Ship build. Right level: the cache clause quantifies over histories, which the BFS enumerates to a fix-point.",
   note="eviction order for capacities 2 and 3 follows HashMap iteration and is not owned: failures found there are genuine, absence is not claimed exhaustive.", ref="3/C09"),
}
NOT_YET = {}
def main():
    props = [json.loads(l) for l in open("/verif/properties.jsonl")]
    checks = []
    na = []
    for p in props:
        pid = p["id"]
        c = CHECKS.get(pid)
        if not c:
            na.append({"property_id": pid, "reason": NOT_YET.get(pid, "check under construction in this round; not claimed until its harness is committed")})
            continue
        checks.append({
            "property_id": pid,
            "quick_cmd": f"./check {pid} --tier quick",
            "thorough_cmd": f"./check {pid} --tier thorough",
            "evidence_file": f"/verif/evidence/{pid}.json",
            "replay_cmd_template": f"./check {pid} --replay {{path}}",
            "engine": c["engine"],
            "level_claimed": {"category": c["cat"], "text": c["text"], "design_ref": "DESIGN.md section " + c["ref"]},
            "level_note": c["note"],
            "technique": c["tech"],
        })
    m = {
        "version": 1,
        "setup_cmd": "./check build",
        "hooks": {
            "guard": "cargo feature verif-hooks (saorsa-core)",
            "enable": "harness depends on saorsa-core by path /repo with features=[\"verif-hooks\"]; ./check rebuilds from /repo's working tree",
            "baseline_off_cmd": BASE,
            "source_commits": hook_commits(),
            "add_only": True,
        },
        "engines": [
            {"name": "hist", "path": "harness/vh/src/core.rs (bfs)", "serves_properties": ["C02","C09","C10","C12","C13","C14","C16","C18"], "kind_free_text": "explicit-state BFS over operation histories of the real objects, rebuild-by-replay, canon-dedup with differential merge test"},
            {"name": "netsim", "path": "harness/vh/src/netsim.rs", "serves_properties": ["C01","C03","C04","C20"], "kind_free_text": "stateless deviation-bounded DFS over delivery schedules of real DhtNetworkManagers on an in-memory socket with paused clock"},
            {"name": "crash", "path": "harness/vh/src/bin/c06.rs", "serves_properties": ["C06","C07","C18"], "kind_free_text": "crash-point / torn-write / corruption enumeration over real persistence code"},
            {"name": "loom", "path": "harness/vh-loom", "serves_properties": ["C12","C14"], "kind_free_text": "loom over re-bound copies of /repo sources"},
            {"name": "inputs", "path": "harness/vh/src/bin", "serves_properties": ["C05","C08","C11","C15","C17","C19"], "kind_free_text": "bounded-exhaustive input enumeration"},
        ],
        "checks": checks,
        "not_applicable": na,
        "notes": "All checks run the real code of /repo (path dependency, rebuilt on every ./check). Exit 0/1/2 = held / violation / machinery failure.",
    }
    json.dump(m, open("/verif/MANIFEST.json", "w"), indent=1)
    import jsonschema
    jsonschema.validate(m, json.load(open("/root/.vp/MANIFEST.schema.json")))
    print("MANIFEST ok:", len(checks), "checks,", len(na), "not claimed")
if __name__ == "__main__":
    main()
