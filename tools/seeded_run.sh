#!/bin/bash
# Runs every seeded change under /verif/seeded against its check (quick tier) and records detection.json next to it.
cd /verif
for d in seeded/*/; do
  id=$(basename $d | cut -d- -f1)
  [ -n "${ONLY:-}" ] && [[ "$(basename $d)" != *"$ONLY" ]] && continue
  out=$(tools/selftest.sh $id /verif/$d/patch.diff quick 2>&1)
  verdict=$(echo "$out" | head -1 | cut -d' ' -f1)
  clauses=$(echo "$out" | grep -o 'clause=[A-Za-z0-9._-]*' | sort -u | tr '\n' ' ')
  python3 - "$d" "$verdict" "$clauses" "$(git -C /repo rev-parse --short HEAD)" "$(git -C /verif rev-parse --short HEAD)" <<'P'
import json,sys
d,verdict,clauses,rh,vh=sys.argv[1:6]
json.dump({"check": d.strip('/').split('/')[-1], "tier": "quick", "verdict": verdict, "violated_clauses": clauses.split(), "repo_head": rh, "verif_head": vh},open(d+"detection.json","w"),indent=1)
P
  echo "$id $verdict $clauses"
done
