#!/usr/bin/env python3
"""Prints the DESIGN.md table rows for the seeded changes whose directory name ends with the given suffix."""
import json, glob, sys, os
suf = sys.argv[1] if len(sys.argv) > 1 else ''
print("| id | seeded change | needs | result |\n|---|---|---|---|")
for d in sorted(glob.glob('/verif/seeded/*')):
    name = os.path.basename(d)
    if suf and not name.endswith(suf): continue
    if not suf and '-' in name: continue
    m = json.load(open(d + '/meta.json'))
    det = json.load(open(d + '/detection.json')) if os.path.exists(d + '/detection.json') else {}
    res = ('detected by ' + ', '.join(det.get('violated_clauses', [])).replace('clause=', '')) if det.get('verdict') == 'DETECTED' else det.get('verdict', 'not run')
    cut = lambda s: (s or '').replace('|', '/').replace('\n', ' ')[:230]
    print(f"| {name} | {cut(m.get('breaks'))} | {cut(m.get('needs_to_manifest'))[:200]} | {res} |")
