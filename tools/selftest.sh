#!/bin/bash
# usage: tools/selftest.sh <Cnn> <patch.diff> [tier]   — apply a property-breaking patch to /repo, run the check, restore /repo.
# prints DETECTED / MISSED / MACHINERY and the violation lines. Never commits anything in /repo.
set -u
id="$1"; patch="$2"; tier="${3:-quick}"
cd /repo || exit 2
if ! git diff --quiet; then echo "refusing: /repo has uncommitted changes"; exit 2; fi
if ! git apply --check "$patch" 2>/dev/null; then echo "PATCH-DOES-NOT-APPLY $id $patch"; exit 3; fi
git apply "$patch"
cd /verif
./check "$id" --tier "$tier" > /tmp/selftest.$$.out 2>&1; rc=$?; out=$(tr -d "\000" < /tmp/selftest.$$.out); rm -f /tmp/selftest.$$.out
git -C /repo checkout -- . ; git -C /repo clean -fdq -- src tests 2>/dev/null
case $rc in
  1) echo "DETECTED $id $(basename $(dirname $patch))/$(basename $patch)"; echo "$out" | grep -A1 '^VIOLATION' | head -8;;
  0) echo "MISSED $id $patch"; echo "$out" | tail -2;;
  *) echo "MACHINERY rc=$rc $id $patch"; echo "$out" | tail -15;;
esac
# restore evidence of the unchanged tree
git -C /verif checkout -- evidence 2>/dev/null; git -C /verif clean -fdq -- evidence/replay 2>/dev/null
exit 0
