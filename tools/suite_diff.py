#!/usr/bin/env python3
"""usage: suite_diff.py <nextest log>  — lists failing tests that belong to the stable-pass baseline"""
import json,re,sys
b=json.load(open('/root/.vp/BASELINE.json'))
stable=set(b['stable_pass'])
log=open(sys.argv[1]).read()
fails=set(); passes=set()
for m in re.finditer(r'^\s+(FAIL|PASS|SIGABRT|SIGSEGV|TIMEOUT)\s+\[[^\]]*\]\s+\(\s*\d+/\d+\)\s+(\S+)\s+(\S+)',log,re.M):
    name=m.group(2)+'::'+m.group(3)
    (fails if m.group(1)!='PASS' else passes).add(name)
bad=sorted(f for f in fails if f in stable)
missing=sorted(s for s in stable if s not in passes and s not in fails)
print('fail',len(fails),'pass',len(passes),'stable',len(stable))
print('STABLE TESTS NOW FAILING:',len(bad))
for x in bad: print('  ',x)
print('stable tests not run:',len(missing))
for x in missing[:10]: print('  ',x)
